"""C12 — invalid specifications are refused with a clear error wherever the fault sits.

(a) fault planting: every operator kind x operand slot x fault kind {column absent from the data, one
    name for two kinds, draw outside MonteCarlo, integration variable outside Integrate, data variable
    outside the trajectory on panel data} x depth {directly in the slot, one operator deeper} x entry form
    {BIOGEME(db, expr), BIOGEME(db, {'log_like': expr}), BIOGEME(db, {'log_like': expr, 'weight': w}),
    expr.get_value_c, expr.get_value_and_derivatives};
(b) structural faults (choices / availabilities / nests / Hessian without gradient / bad tables);
(c) missing-data placement: a pool of formulas x every (row, column) cell of a table set to the
    missing-data code (default and a custom one), against the lazy 'reads' semantics of the reference;
(d) no false rejection: every unfaulted skeleton of (a)-(c) is accepted and gives the reference value;
(e) histories of ONE formula object: the same expression object (as a user keeps the result of models.loglogit) is
    applied to a sequence of data states -- new Database {clean, another clean sample, a choice without utility, a column
    absent} / the current Database edited {offending rows removed with Database.remove, an invalid choice written in
    place} -- every history up to the depth bound (2 uses quick, 3 thorough) x formula {logit, logit under an operator,
    linear} x entry form; the verdict of every use must be the one the data at hand deserve (what a fresh copy of the
    formula gets): refused with the library error when they hold the fault, accepted with the reference value when not.
"""
from __future__ import annotations

import itertools
import sys
import os

from vf import refsem as R
from vf import termgen as G
from vf.rec import Rec

ID = 'C12'
LEVEL = 'exploration'
TECHNIQUE = 'bounded exhaustive fault planting (operator x slot x fault kind x depth x entry form) and exhaustive missing-data cell placement on the real library/engine, oracle = library error type + message naming the element / lazy-read reference semantics'
RULE = ('one case = one (parent kind, slot, fault kind, depth wrapper, entry form) specification, one structural fault x entry form, one '
        '(formula, cell, code, entry form) missing-data placement, one unfaulted skeleton x entry form, or one use of a formula OBJECT at the end of a '
        'history of data states it was applied to before (formula x entry form x every sequence over {new clean / other clean / invalid-choice / '
        'column-absent Database, remove the offending rows, write an invalid choice in place}, first step a new Database, length <= 2 quick, '
        '<= 3 thorough). Non-trivial = a fault is planted, a cell is set to the code, or the formula object is used for the second time or '
        'later; distinct = distinct tuples.')
ASSUMPTIONS = [
    'placement rules (draws / integration variable / panel variables) are specification rules: the library-error oracle is applied at the BIOGEME '
    'entry forms; at the expression-level entry points only "no number is returned" is required for draws / integration variables and nothing for '
    'panel variables (the library itself evaluates row-wise formulas on panel tables there); reference faults (absent column, one name for two '
    'kinds, Hessian without gradient) are judged at every entry point',
    'message clarity is approximated by: the message names the offending element',
    'cases expected to raise inside the engine run in a fresh process each (the engine keeps a sticky error, a recorded finding)',
]
ANCHOR_FILES = ['src/biogeme/expressions/base_expressions.py', 'src/biogeme/expressions/comparison_expressions.py',
                'src/biogeme/expressions/unary_expressions.py', 'src/biogeme/expressions/logit_expressions.py',
                'src/biogeme/expressions/elementary_expressions.py', 'src/biogeme/expressions/idmanager.py',
                'src/biogeme/biogeme.py', 'src/biogeme/database.py', 'src/biogeme/nests.py', 'src/biogeme/dict_of_formulas.py']

FAULTS = {
    'absent-column': ('var', 'ghost'),
    'name-for-two-kinds': ('beta', 'x1'),          # x1 is also a data column
    'draw-outside-montecarlo': ('draw', 'xi', 'NORMAL'),
    'rv-outside-integrate': ('rv', 'omega'),
    'panel-variable-outside-trajectory': ('var', 'x1'),
    'logit-availabilities-not-matching-utilities': ('badlogit', 'availability-keys'),
    'logit-utility-without-availability': ('badlogit', 'utility-keys'),
    'logit-choice-outside-utilities': ('badlogit', 'choice-values'),
}
ELEMENT = {'absent-column': 'ghost', 'name-for-two-kinds': 'x1', 'draw-outside-montecarlo': 'xi',
           'rv-outside-integrate': 'omega', 'panel-variable-outside-trajectory': 'x1',
           'logit-availabilities-not-matching-utilities': 'alternatives', 'logit-utility-without-availability': 'alternatives',
           'logit-choice-outside-utilities': 'alternative'}
# judged at every entry point (the library has explicit code to report them there)
REFERENCE_FAULTS = ('absent-column', 'name-for-two-kinds', 'logit-availabilities-not-matching-utilities',
                    'logit-utility-without-availability', 'logit-choice-outside-utilities')
BIOGEME_ENTRIES = ('biogeme_expr', 'biogeme_dict', 'biogeme_dict_weight', 'biogeme_simulate', 'biogeme_weight_formula')
# biogeme_simulate: the formula is one of a dictionary of formulas meant for simulation (no log likelihood), evaluated by
# BIOGEME.simulate; biogeme_weight_formula: the formula is the WEIGHT formula of a model whose log likelihood is valid
ROW_ENTRIES = ('get_value_c', 'get_value_and_derivatives', 'biogeme_simulate')
EXPR_ENTRIES = ('get_value_c', 'get_value_and_derivatives')
NODB_ENTRIES = ('get_value_c_without_database', 'get_value_and_derivatives_without_database')

# fillers without data variables (so that the planted element is the only fault)
NOVAR = {
    'any': [('beta', 'b_z'), ('num', 2.0), ('beta', 'B2'), ('beta', 'a_fix'), ('num', 0.5), ('beta', 'b10')],
    'pos': [('num', 2.0), ('beta', 'a_fix'), ('num', 0.5)],
    'small': [('beta', 'B2'), ('num', 0.5), ('beta', 'b_z')],
    'key': [('num', 1), ('num', 0), ('num', 2)],
    'cond': [('bool', True), ('>', ('beta', 'a_fix'), ('num', 0.0)), ('bool', False)],
    'choice': [('num', 1)],
}


class NoVarRot(G.Rot):
    def take(self, typ):
        lst = NOVAR[typ]
        v = lst[self.pos[typ] % len(lst)]
        self.pos[typ] += 1
        return v


WRAPPERS_QUICK = [None, ('+', 0), ('>', 0), ('belongs', 0), ('elem', 2), ('condsum', 0), ('loglogit_av', 1), ('neg', 0), ('<=', 1)]


def wrappers(tier):
    if tier == 'quick':
        return WRAPPERS_QUICK
    out = [None]
    for k, (types, _) in G.KINDS.items():
        for s in range(len(types)):
            out.append((k, s))
    return out


def sites():
    for p in G.KINDS:
        for s in range(len(G.KINDS[p][0])):
            yield p, s


def build_faulty(p, s, fault, wrapper, novar):
    leaf = FAULTS[fault]
    rot = NoVarRot(0) if novar else G.Rot(0)
    inner = leaf
    if wrapper is not None:
        inner = G.plant(wrapper[0], wrapper[1], leaf, rot)
    return G.plant(p, s, inner, rot)


def build_valid(p, s, wrapper, novar):
    rot = NoVarRot(0) if novar else G.Rot(0)
    typ = G.KINDS[p][0][s]
    leaf = rot.take(typ)
    inner = leaf
    if wrapper is not None:
        inner = G.plant(wrapper[0], wrapper[1], rot.take(G.KINDS[wrapper[0]][0][wrapper[1]]), rot)
    return G.plant(p, s, inner, rot)


def spec():
    sp = G.betas_spec()
    sp['x1'] = (0.5, None, None, 0)
    return sp


PANEL_ROWS = [dict(r, id=float(i // 2 + 1)) for i, r in enumerate(G.ROWS[:4])]
PANEL_COLS = G.COLUMNS + ['id']


OTHER_FORMULA = ('*', ('beta', 'b_z'), ('var', 'x2'))
OTHER_FORMULA_PANEL = ('traj', ('exp', ('*', ('beta', 'b_z'), ('var', 'x2'))))
LL_FOR_WEIGHT = ('*', ('beta', 'b_z'), ('var', 'x2'))
LL_FOR_WEIGHT_PANEL = ('log', ('traj', ('exp', ('*', ('beta', 'b_z'), ('var', 'x2')))))


def make_database(panel=False):
    from vf.engine import make_db
    if panel:
        db = make_db(PANEL_ROWS, PANEL_COLS)
        db.panel('id')
        return db
    return make_db(G.ROWS, G.COLUMNS)


CATALOG_FORMS = ('selected-member', 'selected-member-under-an-operator')


def enter(entry, term, panel=False, rows=None, db=None, catalog=None, expr=None):
    """Runs one entry form on a freshly built expression (or on the expression object `expr` when one is handed in: the
    formula-object histories of part (e)); returns the value(s) if a number came back.
    `catalog`: the formula is the selected member of a Catalog (a multiple-expression node is one more operator kind a
    fault can sit under); the other member is the plain number 1."""
    from vf.engine import make_biogeme, make_db
    import numpy as np
    if expr is None:
        expr = R.Builder(spec()).build(term)
    if catalog is not None:
        from biogeme.catalog import Catalog
        import biogeme.expressions as ex
        expr = Catalog.from_dict(catalog_name='cat_w', dict_of_expressions={'the_formula': expr, 'one': ex.Numeric(1.0)})
        if catalog == 'selected-member-under-an-operator':
            expr = expr + ex.Numeric(0.0)
    if db is not None:
        pass
    elif rows is not None:
        db = make_db(rows, G.COLUMNS)
    else:
        db = make_database(panel)
    if entry == 'biogeme_expr':
        b = make_biogeme(db, expr, number_of_draws=4)
    elif entry == 'biogeme_dict':
        b = make_biogeme(db, {'log_like': expr}, number_of_draws=4)
    elif entry == 'biogeme_dict_weight':
        w = R.Builder(spec()).build(('num', 1.0))
        b = make_biogeme(db, {'log_like': expr, 'weight': w}, number_of_draws=4)
    elif entry == 'biogeme_simulate':
        b = make_biogeme(db, {'other': R.Builder(spec()).build(OTHER_FORMULA_PANEL if panel else OTHER_FORMULA), 'f': expr}, number_of_draws=4)
        out = b.simulate(b.get_beta_values())
        return [float(v) for v in out['f']]
    elif entry == 'biogeme_weight_formula':
        ll = R.Builder(spec()).build(LL_FOR_WEIGHT_PANEL if panel else LL_FOR_WEIGHT)
        b = make_biogeme(db, {'log_like': ll, 'weight': expr}, number_of_draws=4)
    elif entry == 'get_value_c_without_database':
        return [float(v) for v in np.atleast_1d(expr.get_value_c(number_of_draws=4, prepare_ids=True))]
    elif entry == 'get_value_and_derivatives_without_database':
        out = expr.get_value_and_derivatives(number_of_draws=4, gradient=False, hessian=False, bhhh=False, prepare_ids=True)
        return [float(out.function)]
    elif entry == 'get_value_c':
        return [float(v) for v in np.atleast_1d(expr.get_value_c(database=db, number_of_draws=4, prepare_ids=True))]
    elif entry == 'get_value_and_derivatives':
        out = expr.get_value_and_derivatives(database=db, number_of_draws=4, gradient=False, hessian=False, bhhh=False,
                                             aggregation=False, prepare_ids=True)
        return [float(v) for v in np.atleast_1d(out.functions)]
    else:
        raise ValueError(entry)
    x = np.array(b.id_manager.free_betas_values, dtype=float)
    return [float(b.calculate_likelihood(x, scaled=False))]


class StopTask(Exception):
    """The engine raised: the process is poisoned (sticky error); the rest of the task is not run."""


def is_library_error(e):
    from biogeme.exceptions import BiogemeError
    return isinstance(e, BiogemeError)


# ------------------------------------------------------------------ tasks
def tasks(tier, seed):
    t = []
    st = list(sites())
    # (a) BIOGEME entry forms: all faults; expression-level entry points: reference faults (python level)
    for fault in FAULTS:
        for i in range(0, len(st), 8):
            t.append(dict(part='plant', fault=fault, lo=i, hi=min(i + 8, len(st)), tier=tier))
    # expression-level draws / rv: the engine raises -> one fresh process per case
    step = 1 if tier == 'thorough' else 3
    for fault in ('draw-outside-montecarlo', 'rv-outside-integrate'):
        for i in range(0, len(st), step):
            t.append(dict(part='plant_engine', fault=fault, site=i, fresh=True))
    # (d) valid skeletons
    for i in range(0, len(st), 8):
        t.append(dict(part='valid', lo=i, hi=min(i + 8, len(st)), tier=tier))
    # (b) structural faults
    t.append(dict(part='structural'))
    t.append(dict(part='structural_nodb', fresh=True))
    # (b') a table that became empty after the Database was made (every row removed): every entry form, one fresh process
    # each (the pre-built engine may take the process down)
    for entry in BIOGEME_ENTRIES + EXPR_ENTRIES:
        for how in ('remove-all', 'remove-all-panel'):
            t.append(dict(part='emptied', entry=entry, how=how, fresh=True))
    # (d') valid data: numeric dtypes of every width / signedness, columns that join the table after the Database was made
    t.append(dict(part='valid_data', what='dtypes'))
    t.append(dict(part='valid_data', what='late'))
    t.append(dict(part='valid_literals'))
    # (c) missing data
    for fi in range(len(MD_FORMULAS)):
        for (r, c) in itertools.product(range(3), range(len(MD_COLS))):
            for code_kind in ('default', 'custom'):
                entries = md_entries(tier, code_kind)
                if tier == 'quick' and code_kind == 'custom' and fi < 2:
                    entries = entries + ['simulate']
                for entry in entries:
                    t.append(dict(part='missing', formula=fi, row=r, col=c, code=code_kind, entry=entry))
    # (c') the declared code is honoured by every evaluation the constructor makes (audit of the weights, of the logit):
    # a value 99999 is an ordinary number when another code is declared; the declared code in a weight is refused
    for col in ('w', 'x1', 'c', 'a2'):
        for what in ('default-code-value-under-a-custom-code', 'declared-custom-code',
                     'default-code-value-under-code-zero', 'declared-code-zero'):
            t.append(dict(part='missing_model', col=col, what=what, fresh=True))
    # (b'') a specification that became faulty after the model object was made (the table edited in place): simulate()
    # audits its formulas again and must refuse
    for kind in ('column-dropped', 'invalid-choice-written', 'nan-written', 'valid-edit'):
        t.append(dict(part='stale_model', kind=kind, fresh=True))
    # (b''') the table of a live model emptied through Database.remove: every request afterwards, also a second one after the
    # first was refused, is refused with the library error
    for first in ('ll', 'lld', 'sim'):
        for second in ('ll', 'lld', 'sim'):
            t.append(dict(part='stale_emptied', requests=[first, second], fresh=True))
    t.append(dict(part='sticky', fresh=True))
    # (e) one formula object applied to a sequence of data states
    for fname in REUSE_FORMULAS:
        for entry in REUSE_ENTRIES:
            t.append(dict(part='reuse', formula=fname, entry=entry, depth=3 if tier == 'thorough' else 2))
    # expected-error missing-data cases must be fresh; decided statically from the reference
    for task in t:
        if task['part'] == 'missing' and md_expect_error(task):
            task['fresh'] = True
    return t


def run_task(task):
    rec = Rec()
    part = task['part']
    if part == 'plant':
        try:
            _plant(task, rec)
        except StopTask:
            rec.count('capped')
            rec.count('plant_tasks_cut_short_after_engine_error')
    elif part == 'plant_engine':
        _plant_engine(task, rec)
    elif part == 'valid':
        _valid(task, rec)
    elif part == 'structural':
        _structural(rec)
    elif part == 'structural_nodb':
        _structural_nodb(rec)
    elif part == 'valid_data':
        _valid_data(task, rec)
    elif part == 'valid_literals':
        _valid_literals(rec)
        _valid_status(rec)
    elif part == 'emptied':
        _emptied(task, rec)
    elif part == 'missing':
        _missing(task, rec)
    elif part == 'missing_model':
        _missing_model(task, rec)
    elif part == 'stale_model':
        _stale_model(task, rec)
    elif part == 'stale_emptied':
        _stale_emptied(task, rec)
    elif part == 'sticky':
        _sticky(rec)
    elif part == 'reuse':
        _reuse(task, rec)
    return rec.result()


def on_abort(task, info):
    """A worker died while running the task.  Where the engine is expected to refuse (a missing-data code that is read,
    a draw / integration variable evaluated outside its operator, the sticky-error history) the pre-built engine
    occasionally takes the whole process down instead of raising: no number was produced, so the statement is not
    contradicted; it is counted, not reported.  Anywhere else a dying worker is a harness error."""
    if task.get('part') == 'missing' and md_expect_error(task):
        return {}
    if task.get('part') in ('plant_engine', 'sticky'):
        return {}
    if task.get('part') == 'missing_model' and task.get('what') in ('declared-custom-code', 'declared-code-zero'):
        return {}
    if task.get('part') == 'emptied':
        # empty data must be refused with the library's own error: a process that dies is not that
        return dict(key=f"C12|wrong-error-type-process-abort|structural:table-emptied-after-creation:entry={task['entry']}",
                    what=f"history [Database made on a non-empty table; remove() deletes every row ({task['how']}); {task['entry']}]: the "
                         f"process died (exit {info.get('exitcode')}) instead of a library error: {str(info.get('log_tail', ''))[-200:]}",
                    case={k: v for k, v in task.items() if k != 'fresh'})
    if task.get('part') == 'stale_emptied':
        return dict(key='C12|wrong-error-type-process-abort|history=[model, table emptied by remove, requests]',
                    what=f"history [model built; Database.remove deletes every row; {task['requests']}]: the process died (exit "
                         f"{info.get('exitcode')}) instead of a library error: {str(info.get('log_tail', ''))[-200:]}",
                    case={k: v for k, v in task.items() if k != 'fresh'})
    return None


def site_name(p, s):
    return f'{p}[{G.slot_name(p, s)}]'


def _judge(rec, fault, entry, p, s, wrapper, term, panel, case, catalog=None):
    """Runs one faulty specification through one entry form and applies the oracle."""
    key = ('plant', fault, entry, p, s, wrapper, catalog)
    where = f'fault={fault}:entry={entry}:under={p}' + ('' if wrapper is None else f':via={wrapper[0]}') + (
        '' if catalog is None else ':in-a-catalog')
    try:
        out = enter(entry, term, panel=panel, catalog=catalog)
    except Exception as e:
        if is_library_error(e):
            named = ELEMENT[fault].lower() in str(e).lower()
            if not named and 'alternative' in str(e).lower() and (
                    G.slot_name(p, s) == 'choice' or (wrapper is not None and G.slot_name(wrapper[0], wrapper[1]) == 'choice')):
                # planted as the choice of a logit the element is a second fault as well (its values are not alternatives):
                # a message explaining that one is an explanatory message too
                named = True
            rec.case(key, (fault, entry, p, s, wrapper, 'BiogemeError', named), outcome=('refused', named))
            if not named:
                rec.violation(f'C12|error-does-not-name-the-element|{where}',
                              f'{site_name(p, s)} wrapper={wrapper}: message does not mention {ELEMENT[fault]!r}: {str(e)[:200]}', case)
            return
        rec.case(key, (fault, entry, p, s, wrapper, type(e).__name__), outcome=('wrong-error', type(e).__name__))
        rec.violation(f'C12|wrong-error-type-{type(e).__name__}|{where}',
                      f'{fault} planted at {site_name(p, s)} (wrapper {wrapper}) through {entry}: raised {type(e).__name__}: {str(e)[:160]} '
                      f'instead of the library error; formula {R.show(term)}', case, observed=repr(e)[:300])
        rec.retire = True
        from vf.engine import is_engine_error
        if is_engine_error(e):
            raise StopTask()
        return
    rec.case(key, (fault, entry, p, s, wrapper, 'accepted'), outcome='accepted')
    rec.violation(f'C12|faulty-specification-accepted|{where}',
                  f'{fault} planted at {site_name(p, s)} (wrapper {wrapper}) through {entry}: accepted, returned {out}; formula {R.show(term)}',
                  case, observed=out)
    rec.retire = True
    raise StopTask()


def _has_variables(term):
    from biogeme.expressions.elementary_types import TypeOfElementaryExpression as T
    try:
        return bool(R.Builder(spec()).build(term).set_of_elementary_expression(T.VARIABLE))
    except Exception:
        return True


def _plant(task, rec):
    fault, tier = task['fault'], task['tier']
    st = list(sites())
    first = True
    for (p, s) in st[task['lo']:task['hi']]:
        for wrapper in wrappers(tier):
            panel = fault == 'panel-variable-outside-trajectory'
            try:
                term = build_faulty(p, s, fault, wrapper, novar=panel)
            except Exception:
                continue
            raw_term = term
            if panel:
                # a valid trajectory times the faulty part: the planted variable is the only one outside the trajectory
                term = ('*', ('traj', ('exp', ('*', ('beta', 'b_z'), ('var', 'x2')))), term)
            if first:
                rec.sample(dict(fault=fault, site=site_name(p, s), wrapper=wrapper, formula=R.show(term)))
                first = False
            entries = list(BIOGEME_ENTRIES)
            if fault in REFERENCE_FAULTS:
                entries += list(EXPR_ENTRIES)
            # the reference faults that need no data column, on formulas without any data variable, evaluated WITHOUT a database
            if fault in REFERENCE_FAULTS and fault != 'name-for-two-kinds' and not panel:   # (without a table no name is a column)
                try:
                    term_nv = build_faulty(p, s, fault, wrapper, novar=True)
                except Exception:
                    term_nv = None
                if term_nv is not None and not _has_variables(term_nv):
                    for entry in NODB_ENTRIES:
                        case = dict(part='plant', fault=fault, p=p, s=s, wrapper=list(wrapper) if wrapper else None, entry=entry, tier=tier)
                        _judge(rec, fault, entry, p, s, wrapper, term_nv, False, case)
            for entry in entries:
                case = dict(part='plant', fault=fault, p=p, s=s, wrapper=list(wrapper) if wrapper else None, entry=entry, tier=tier)
                # as a weight formula on panel data the faulty part stands alone (a trajectory has no place in a weight)
                _judge(rec, fault, entry, p, s, wrapper, raw_term if (panel and entry == 'biogeme_weight_formula') else term, panel, case)
                if wrapper is None:
                    # the same faulty formula as the selected member of a Catalog (alone / under an operator)
                    for cform in CATALOG_FORMS:
                        _judge(rec, fault, entry, p, s, wrapper, raw_term if (panel and entry == 'biogeme_weight_formula') else term, panel,
                               dict(case, catalog=cform), catalog=cform)


def _plant_engine(task, rec):
    """Draw / integration variable outside its operator at the expression-level entry point: no number may come back."""
    fault = task['fault']
    p, s = list(sites())[task['site']]
    term = build_faulty(p, s, fault, None, novar=False)
    rec.retire = True
    try:
        out = enter('get_value_c', term)
    except Exception as e:
        rec.case(('plant_engine', fault, p, s), (fault, p, s, 'raised'), outcome='no-number')
        return
    # at this entry point the library only evaluates: an element that no observation reads (an entry of a selection that is
    # never selected, a term whose condition is false everywhere, the utility of an alternative that is never available) is
    # never met by the engine, so no refusal can be demanded there; decided with the reference's lazy `reads` on a probe column
    probe = R.subst(term, {FAULTS[fault]: ('var', '__probe__')})
    full = dict(G.PARAMS)
    full['x1'] = 0.5
    met = False
    for row in G.ROWS:
        try:
            if '__probe__' in R.reads(probe, dict(row, __probe__=1.0), full):
                met = True
                break
        except Exception:
            met = True          # the reference cannot tell: judge
            break
    if not met:
        rec.case(None, (fault, p, s, 'not-read-by-any-observation'), outcome='not-read')
        rec.count('plant_engine_element_not_read_by_any_observation')
        return
    rec.case(('plant_engine', fault, p, s), (fault, p, s, 'accepted'), outcome='accepted')
    rec.violation(f'C12|number-returned-for-misplaced-element|fault={fault}:entry=get_value_c:under={p}',
                  f'{fault} at {site_name(p, s)}: get_value_c returned {out} for {R.show(term)}',
                  dict(part='plant_engine', fault=fault, site=task['site']), observed=out)


def _valid(task, rec):
    """(d) every unfaulted skeleton is accepted by every entry form and gives the reference value."""
    st = list(sites())
    full = dict(G.PARAMS)
    full['x1'] = 0.5
    for (p, s) in st[task['lo']:task['hi']]:
        for wrapper in wrappers(task['tier']):
            try:
                term = build_valid(p, s, wrapper, novar=False)
            except Exception:
                continue
            rows, refs = [], []
            for row in G.ROWS:
                try:
                    v = R.evaluate(term, row, full)
                    if not R.ill_conditioned(term, row, full, base=v):
                        rows.append(row)
                        refs.append(v)
                except (R.OutOfDomain, R.Fragile):
                    pass
            if not rows:
                rec.count('valid_skeletons_without_in_domain_row')
                continue
            for entry, cform in [(e_, None) for e_ in BIOGEME_ENTRIES + EXPR_ENTRIES] + (
                    [(e_, c_) for e_ in BIOGEME_ENTRIES + EXPR_ENTRIES for c_ in CATALOG_FORMS] if wrapper is None else []):
                case = dict(part='valid', p=p, s=s, wrapper=list(wrapper) if wrapper else None, entry=entry, tier=task['tier'])
                if cform is not None:
                    case['catalog'] = cform
                key = ('valid', entry, p, s, wrapper, cform)
                try:
                    out = enter(entry, term, rows=rows, catalog=cform)
                except Exception as e:
                    rec.case(key, ('valid', entry, p, s, wrapper, type(e).__name__), outcome='rejected')
                    rec.violation(f'C12|valid-specification-rejected-{type(e).__name__}|entry={entry}:under={p}',
                                  f'valid formula {R.show(term)} rejected by {entry}: {type(e).__name__}: {str(e)[:200]}', case,
                                  observed=repr(e)[:300])
                    rec.retire = True
                    from vf.engine import is_engine_error
                    if is_engine_error(e):
                        rec.count('valid_tasks_cut_short_after_engine_error')
                        return          # the engine's error is sticky in this process: nothing after it can be judged
                    continue
                if entry in ROW_ENTRIES:
                    want = refs
                elif entry == 'biogeme_weight_formula':
                    want = [sum(w * R.evaluate(LL_FOR_WEIGHT, row, full) for w, row in zip(refs, rows))]
                else:
                    want = [sum(refs)]
                ok = len(out) == len(want) and all(R.close(a, b, rel=1e-9) for a, b in zip(out, want))
                rec.case(None, ('valid', entry, p, s, wrapper, [round(v, 8) for v in out]), outcome=('accepted', ok))
                rec.count('valid_skeleton_evaluations')
                if not ok:
                    rec.violation(f'C12|valid-specification-wrong-value|entry={entry}:under={p}',
                                  f'{R.show(term)} via {entry}: {out} expected {want}', case, expected=want, observed=out)
    # valid panel skeleton: everything inside the trajectory
    for entry in BIOGEME_ENTRIES:
        term = ('log', ('traj', ('exp', ('*', ('beta', 'b_z'), ('var', 'x1')))))
        if entry == 'biogeme_weight_formula':
            term = ('+', ('num', 1.5), ('beta', 'b_z'))     # a weight on panel data: no data variable
        try:
            enter(entry, term, panel=True)
            rec.case(None, ('valid-panel', entry), outcome='accepted')
        except Exception as e:
            rec.violation(f'C12|valid-specification-rejected-{type(e).__name__}|entry={entry}:panel',
                          f'valid panel formula rejected: {e}', dict(part='valid_panel', entry=entry))


def _emptied_child(case):
    rec = Rec()
    _emptied(case, rec)
    sys.exit(3 if rec.violations else 0)


def _emptied(task, rec):
    """Empty data is refused with the library's own error, also when the table became empty after the Database was made."""
    entry, how = task['entry'], task['how']
    panel = how.endswith('panel')
    d = make_database(panel=panel)
    d.remove(R.Builder(spec()).build(('>', ('var', 'x1'), ('num', -1000.0))))      # true on every row
    case = {k: v for k, v in task.items() if k != 'fresh'}
    rec.retire = True
    if len(d.data) != 0:
        rec.violation('C12|harness|emptied-table-not-empty', f'{len(d.data)} rows left', case)
        return
    if panel:
        term = ('log', ('traj', ('exp', ('*', ('beta', 'b_z'), ('var', 'x2')))))
        if entry == 'biogeme_weight_formula':
            term = ('+', ('num', 1.5), ('beta', 'b_z'))
    else:
        term = ('*', ('beta', 'b_z'), ('var', 'x2'))
    key = ('emptied', entry, how)
    try:
        out = enter(entry, term, panel=panel, db=d)
    except Exception as e:
        if is_library_error(e):
            rec.case(key, (entry, how, 'BiogemeError'), outcome='refused')
            return
        rec.case(key, (entry, how, type(e).__name__), outcome=('wrong-error', type(e).__name__))
        rec.violation(f'C12|wrong-error-type-{type(e).__name__}|structural:table-emptied-after-creation:entry={entry}',
                      f'history [Database made on a non-empty table; remove() deletes every row ({how}); {entry}]: '
                      f'{type(e).__name__}: {str(e)[:160]} instead of the library error', case, observed=repr(e)[:300])
        return
    rec.case(key, (entry, how, 'accepted'), outcome='accepted')
    if any(v == v and v != 0.0 for v in out):
        rec.violation(f'C12|faulty-specification-accepted|structural:table-emptied-after-creation:entry={entry}',
                      f'history [.. remove() deletes every row ({how}); {entry}]: returned {out}', case, observed=out)
    else:
        # an empty answer / an empty sum is not a number produced from data: counted, not a violation of the statement's letter
        rec.count('emptied_table_entry_returned_nothing_or_zero')


# ------------------------------------------------------------------ (d') valid data
VD_DTYPES = ['int64', 'int32', 'int16', 'int8', 'uint8', 'uint16', 'uint32', 'uint64', 'float32', 'float64']
VD_INT_COLS = ['choice', 'av2', 'z', 'unused']          # whole-number columns: every numeric dtype represents them exactly
VD_ROLES = {
    # role of the late column in a valid formula ('late' holds whole numbers 0/1/2 like z, or 1/0 like av2)
    'utility': ('loglogit', ('var', 'choice'), ((1, ('*', ('beta', 'b_z'), ('var', 'late')), None),
                                                 (2, ('*', ('beta', 'B2'), ('var', 'x2')), ('var', 'av2')), (3, ('num', 0.25), None))),
    'availability': ('loglogit', ('var', 'choice'), ((1, ('*', ('beta', 'b_z'), ('var', 'x1')), None),
                                                      (2, ('*', ('beta', 'B2'), ('var', 'x2')), ('var', 'late')), (3, ('num', 0.25), None))),
    'condition': ('+', ('*', ('>', ('var', 'late'), ('num', 0.5)), ('var', 'x1')), ('beta', 'b_z')),
    'key': ('elem', ('var', 'late'), ((0, ('var', 'x1')), (1, ('beta', 'b_z')), (2, ('*', ('var', 'x2'), ('beta', 'B2'))))),
}
VD_WAYS = ['at-creation', 'assigned-to-data-afterwards', 'add_column', 'define_variable']


def _valid_literals(rec):
    """A specification without a fault is never rejected: plain numbers written into a formula under every numeric type a user
    meets (Python int / float / bool, numpy integers and floats of several widths, numpy bool) x every binary operator, on
    either side of a variable or a parameter; the value must be the ordinary one."""
    import math
    import numpy as np
    import biogeme.expressions as ex
    from vf.engine import make_db
    rows = [dict(x=1.5), dict(x=2.0), dict(x=0.5)]
    db = make_db(rows, ['x'])
    lits = [('int', 2), ('float', 2.0), ('bool', True), ('np.int64', np.int64(2)), ('np.int32', np.int32(2)), ('np.uint8', np.uint8(2)),
            ('np.float64', np.float64(2.0)), ('np.float32', np.float32(2.0)), ('np.float16', np.float16(2.0)), ('np.bool_', np.bool_(True))]
    ops = {
        '+': (lambda a, b: a + b, lambda u, v: u + v), '-': (lambda a, b: a - b, lambda u, v: u - v),
        '*': (lambda a, b: a * b, lambda u, v: u * v), '/': (lambda a, b: a / b, lambda u, v: u / v),
        '**': (lambda a, b: a ** b, lambda u, v: math.pow(u, v)),
        'min': (lambda a, b: ex.bioMin(a, b), min), 'max': (lambda a, b: ex.bioMax(a, b), max),
        '>': (lambda a, b: a > b, lambda u, v: float(u > v)), '<=': (lambda a, b: a <= b, lambda u, v: float(u <= v)),
    }
    for tname, lit in lits:
        for op, (mk, ref) in ops.items():
            for side in ('right', 'left'):
                for partner in ('variable', 'parameter'):
                    if side == 'left' and op in ('min', 'max', '>', '<=', '**'):
                        continue            # (a literal on the left of these is written with the operands swapped by Python itself)
                    e = ex.Variable('x') if partner == 'variable' else ex.Beta('bq', 1.5, None, None, 0)
                    key = ('valid_literals', tname, op, side, partner)
                    case = dict(part='valid_literals')
                    try:
                        expr = mk(e, lit) if side == 'right' else mk(lit, e)
                        got = [float(v) for v in np.atleast_1d(expr.get_value_c(database=db, prepare_ids=True))]
                    except Exception as exc:
                        rec.case(key, (tname, op, side, partner, type(exc).__name__), outcome='rejected')
                        rec.violation(f'C12|valid-specification-rejected-{type(exc).__name__}|number-literal-of-type:{tname}',
                                      f'x {op} {tname}(2) ({side}, {partner}): {type(exc).__name__}: {str(exc)[:160]}', case)
                        from vf.engine import is_engine_error
                        if is_engine_error(exc):
                            rec.retire = True
                            return
                        continue
                    lv = float(lit)
                    want = [ref(r['x'] if partner == 'variable' else 1.5, lv) if side == 'right' else ref(lv, r['x'] if partner == 'variable' else 1.5)
                            for r in rows]
                    if partner == 'parameter' and len(got) == 1:
                        want = want[:1]
                    ok = len(got) == len(want) and all(R.close(a, b, rel=1e-9) for a, b in zip(got, want))
                    rec.case(key, (tname, op, side, partner, [round(v, 8) for v in got]), outcome=('accepted', ok))
                    if not ok:
                        rec.violation(f'C12|valid-specification-wrong-value|number-literal-of-type:{tname}',
                                      f'x {op} {tname}(2) ({side}, {partner}): {got} expected {want}', case)


def _valid_status(rec):
    """The status of a parameter (0 = to be estimated, anything else = fixed) written under every type an 'int' may take in
    Python: int, bool (a subclass of int), numpy integers; the formula is accepted, evaluates to its value, and the parameter is
    free / fixed accordingly."""
    import numpy as np
    import biogeme.expressions as ex
    from vf.engine import make_db, is_engine_error
    from biogeme.expressions.elementary_types import TypeOfElementaryExpression as T
    rows = [dict(x=1.0), dict(x=-2.0)]
    for sname, status, fixed in (('int-0', 0, False), ('int-1', 1, True), ('int-2', 2, True), ('bool-False', False, False),
                                 ('bool-True', True, True), ('numpy-int64-1', np.int64(1), True), ('numpy-int64-0', np.int64(0), False),
                                 ('numpy-bool-True', np.bool_(True), True)):
        case = dict(part='valid_status', status=sname)
        key = ('valid_status', sname)
        try:
            b = ex.Beta('bs', 0.75, None, None, status)
            e = b * ex.Variable('x') + 0.5
            got = [float(v) for v in e.get_value_c(database=make_db(rows, ['x']), prepare_ids=True)]
            free = sorted(e.set_of_elementary_expression(T.FREE_BETA))
        except Exception as exc:
            rec.case(key, (sname, type(exc).__name__), outcome='rejected')
            rec.violation(f'C12|valid-specification-rejected-{type(exc).__name__}|parameter-status-of-type:{sname}',
                          f'Beta("bs", 0.75, None, None, {status!r}) * x + 0.5: {type(exc).__name__}: {str(exc)[:160]}', case)
            if is_engine_error(exc):
                rec.retire = True
                return
            continue
        ok = got == [1.25, -1.0] and free == ([] if fixed else ['bs'])
        rec.case(key, (sname, got, free), outcome=('accepted', ok))
        if not ok:
            rec.violation(f'C12|valid-specification-wrong-value|parameter-status-of-type:{sname}',
                          f'status {status!r}: values {got} (expected [1.25, -1.0]), free parameters {free}', case)


def _valid_data(task, rec):
    """A specification without a fault is never rejected: the same valid formulas on tables whose whole-number columns have
    every numeric dtype (signed / unsigned / float, every width), and on tables one of whose columns joined after the
    Database object was made (plain assignment to database.data, add_column, define_variable) -- every role of that column
    (utility, availability, condition, selection key), every entry form; the value must be the reference value."""
    import numpy as np
    import pandas as pd
    import biogeme.database as bdb
    full = dict(G.PARAMS)
    full['x1'] = 0.5
    entries = BIOGEME_ENTRIES + EXPR_ENTRIES

    def run(entry, term, mkdb, rows, label, case):
        refs = [R.evaluate(term, row, full) for row in rows]
        if entry in ROW_ENTRIES:
            want = refs
        elif entry == 'biogeme_weight_formula':
            want = [sum(w * R.evaluate(LL_FOR_WEIGHT, row, full) for w, row in zip(refs, rows))]
        else:
            want = [sum(refs)]
        key = ('valid_data', label, entry)
        try:
            out = enter(entry, term, db=mkdb())
        except Exception as e:
            rec.case(key, (label, entry, type(e).__name__), outcome='rejected')
            rec.violation(f'C12|valid-specification-rejected-{type(e).__name__}|entry={entry}:data={label[0]}',
                          f'valid formula {R.show(term)} on valid data ({label}) rejected by {entry}: {type(e).__name__}: {str(e)[:200]}',
                          case, observed=repr(e)[:300])
            from vf.engine import is_engine_error
            if is_engine_error(e):
                rec.retire = True
                raise StopTask()
            return
        ok = len(out) == len(want) and all(R.close(a, b, rel=1e-9) for a, b in zip(out, want))
        rec.case(key, (label, entry, [round(v, 8) for v in out]), outcome=('accepted', ok))
        if not ok:
            rec.violation(f'C12|valid-specification-wrong-value|entry={entry}:data={label[0]}',
                          f'{R.show(term)} on {label} via {entry}: {out} expected {want}', case, expected=want, observed=out)

    try:
        if task['what'] == 'dtypes':
            term = VD_ROLES['availability']
            term = R.subst(term, {('var', 'late'): ('var', 'av2')})
            term2 = R.subst(VD_ROLES['key'], {('var', 'late'): ('var', 'z')})
            for dt in VD_DTYPES:
                for cols in [[c] for c in VD_INT_COLS] + [list(VD_INT_COLS)]:
                    def mkdb(dt=dt, cols=cols):
                        df = pd.DataFrame({c: [r[c] for r in G.ROWS] for c in G.COLUMNS})
                        for c in cols:
                            df[c] = df[c].astype(dt)
                        return bdb.Database('t', df)
                    for ti, tm in enumerate((term, term2)):
                        for entry in entries:
                            label = ('dtype', dt, '+'.join(cols), ti)
                            run(entry, tm, mkdb, G.ROWS, label, dict(part='valid_data', what='dtypes'))
        else:
            for role, term in VD_ROLES.items():
                src = 'av2' if role in ('availability', 'condition') else 'z'
                rows = [dict(r, late=r[src]) for r in G.ROWS]
                for way in VD_WAYS:
                    def mkdb(way=way, src=src):
                        cols = G.COLUMNS + (['late'] if way == 'at-creation' else [])
                        df = pd.DataFrame({c: [r[c] for r in rows] for c in cols})
                        d = bdb.Database('t', df)
                        if way == 'assigned-to-data-afterwards':
                            d.data['late'] = [r['late'] for r in rows]
                        elif way == 'add_column':
                            d.add_column(R.Builder(spec()).build(('*', ('var', src), ('num', 1.0))), 'late')
                        elif way == 'define_variable':
                            d.define_variable('late', R.Builder(spec()).build(('*', ('var', src), ('num', 1.0))))
                        return d
                    for entry in entries:
                        run(entry, term, mkdb, rows, ('late-column', way, role), dict(part='valid_data', what='late'))
    except StopTask:
        rec.count('valid_data_cut_short_after_engine_error')


# ------------------------------------------------------------------ (b) structural faults
def _structural(rec):
    import numpy as np
    import pandas as pd
    import biogeme.database as bdb
    import biogeme.expressions as ex
    from biogeme import models
    from biogeme.nests import OneNestForNestedLogit, NestsForNestedLogit, OneNestForCrossNestedLogit, NestsForCrossNestedLogit
    from vf.engine import make_biogeme

    def V():
        return {1: ex.Beta('b1', 0.5, None, None, 0) * ex.Variable('x1'), 2: ex.Beta('b2', -0.5, None, None, 0) * ex.Variable('x2'),
                3: ex.Numeric(0)}

    def av():
        return {1: 1, 2: ex.Variable('av2'), 3: 1}

    def db():
        return make_database()

    def via(entry, expr):
        if entry.endswith('-in-a-catalog'):
            # the model is the selected member of a Catalog (one more operator kind a fault can sit under)
            from biogeme.catalog import Catalog
            expr = Catalog.from_dict(catalog_name='cat_s', dict_of_expressions={'the_formula': expr, 'one': ex.Numeric(1.0)})
            entry = entry[:-len('-in-a-catalog')]
        if entry == 'biogeme':
            b = make_biogeme(db(), expr)
            return b.calculate_likelihood(np.array(b.id_manager.free_betas_values), scaled=False)
        return expr.get_value_c(database=db(), prepare_ids=True)

    mu = lambda: ex.Beta('mu', 1.5, 1, 10, 0)  # noqa: E731
    cases = {
        'choice-outside-utility-keys': lambda e: via(e, models.loglogit({1: V()[1], 2: V()[2]}, None, ex.Variable('choice'))),
        'availability-keys-differ-from-utility-keys': lambda e: via(e, models.loglogit(V(), {1: 1, 2: 1}, ex.Variable('choice'))),
        'availability-extra-key': lambda e: via(e, models.loglogit(V(), {1: 1, 2: 1, 3: 1, 4: 1}, ex.Variable('choice'))),
        'overlapping-nests': lambda e: via(e, models.lognested(V(), av(), NestsForNestedLogit(
            choice_set=[1, 2, 3], tuple_of_nests=(OneNestForNestedLogit(mu(), [1, 2], 'a'), OneNestForNestedLogit(ex.Beta('mu2', 1.2, 1, 10, 0), [2, 3], 'b'))),
            ex.Variable('choice'))),
        'nest-leaves-choice-set': lambda e: via(e, models.lognested(V(), av(), NestsForNestedLogit(
            choice_set=[1, 2, 3], tuple_of_nests=(OneNestForNestedLogit(mu(), [1, 4], 'a'),)), ex.Variable('choice'))),
        'overlapping-nests-legacy-tuples': lambda e: via(e, models.lognested(V(), av(), ((mu(), [1, 2]), (ex.Beta('mu2', 1.2, 1, 10, 0), [2, 3])),
                                                                           ex.Variable('choice'))),
        'cnl-nest-leaves-choice-set': lambda e: via(e, models.logcnl(V(), av(), NestsForCrossNestedLogit(
            choice_set=[1, 2, 3], tuple_of_nests=(OneNestForCrossNestedLogit(mu(), {1: 1.0, 2: 0.5, 3: 1.0, 7: 1.0}, 'a'),
                                                  OneNestForCrossNestedLogit(ex.Beta('mu2', 1.2, 1, 10, 0), {2: 0.5}, 'b'))), ex.Variable('choice'))),
    }
    # tables that become invalid after the Database was created and already used (NaN introduced by a defined variable)
    def nan_history(kind):
        d = make_database(panel=(kind == 'panel-then-nan'))
        f0 = ex.Beta('b1', 0.5, None, None, 0) * ex.Variable('x2')
        if kind == 'panel-then-nan':
            f0 = ex.log(ex.PanelLikelihoodTrajectory(ex.exp(f0)))
        if kind == 'used-then-nan':
            make_biogeme(d, f0)                      # a first model on the same Database
        d.define_variable('lg', ex.log(ex.Variable('x1') - 1.75))   # NaN where x1 < 1.75
        b = make_biogeme(d, f0)
        return b.calculate_likelihood(np.array(b.id_manager.free_betas_values, dtype=float), scaled=False)

    for kind in ('fresh-then-nan', 'panel-then-nan', 'used-then-nan'):
        _expect_refusal(rec, f'nan-introduced-after-creation:{kind}', 'Database+BIOGEME', lambda kind=kind: nan_history(kind))
    # a declaration that is refused leaves the Database usable as it was: after panel() has refused a table whose
    # individuals' rows are not consecutive, a valid cross-sectional specification on the same Database is accepted and
    # gives the plain row-wise values
    from biogeme.exceptions import BiogemeError
    for ids in ([1, 2, 1, 3, 3], [2, 1, 2, 1, 2], [5, 5, 4, 5, 4]):
        for entry in ('biogeme_expr', 'biogeme_dict', 'biogeme_simulate', 'get_value_c'):
            rows = [dict(r, id=float(i)) for r, i in zip(G.ROWS, ids)]
            from vf.engine import make_db
            d = make_db(rows, G.COLUMNS + ['id'])
            case = dict(part='structural')
            try:
                d.panel('id')
                rec.violation('C12|faulty-specification-accepted|structural:panel-with-scattered-individuals', f'panel() accepted ids {ids}', case)
                continue
            except BiogemeError:
                pass
            term = ('*', ('beta', 'b_z'), ('var', 'x2'))
            full = dict(G.PARAMS)
            refs = [R.evaluate(term, r, full) for r in rows]
            want = refs if entry in ROW_ENTRIES else [sum(refs)]
            try:
                out = enter(entry, term, db=d)
            except Exception as e:
                rec.case(('refused-panel', tuple(ids), entry), ('rejected', type(e).__name__), outcome='rejected')
                rec.violation(f'C12|valid-specification-rejected-{type(e).__name__}|history=[panel()-refused, cross-sectional-model]:entry={entry}',
                              f'ids {ids}: panel() raised BiogemeError (rows of an individual not consecutive); afterwards the valid formula '
                              f'b_z * x2 on the same Database was rejected by {entry}: {type(e).__name__}: {str(e)[:160]}', case, observed=repr(e)[:200])
                continue
            ok = len(out) == len(want) and all(R.close(a, b_, rel=1e-9) for a, b_ in zip(out, want))
            rec.case(('refused-panel', tuple(ids), entry), (ids, entry, [round(v, 9) for v in out]), outcome=('accepted', ok))
            if not ok:
                rec.violation(f'C12|valid-specification-wrong-value|history=[panel()-refused, cross-sectional-model]:entry={entry}',
                              f'ids {ids}: after the refused panel(), b_z * x2 through {entry} gave {out}, expected {want}', case)
    # valid counterparts are accepted
    valid = {
        'logit': lambda e: via(e, models.loglogit(V(), av(), ex.Variable('choice'))),
        'nested': lambda e: via(e, models.lognested(V(), av(), NestsForNestedLogit(
            choice_set=[1, 2, 3], tuple_of_nests=(OneNestForNestedLogit(mu(), [1, 2], 'a'),)), ex.Variable('choice'))),
        'cnl': lambda e: via(e, models.logcnl(V(), av(), NestsForCrossNestedLogit(
            choice_set=[1, 2, 3], tuple_of_nests=(OneNestForCrossNestedLogit(mu(), {1: 1.0, 2: 0.5}, 'a'),
                                                  OneNestForCrossNestedLogit(ex.Beta('mu2', 1.2, 1, 10, 0), {2: 0.5, 3: 1.0}, 'b'))), ex.Variable('choice'))),
    }
    for name, fn in valid.items():
        for entry in ('biogeme', 'expression'):
            try:
                fn(entry)
                rec.case(None, ('structural-valid', name, entry), outcome='accepted')
            except Exception as e:
                rec.violation(f'C12|valid-specification-rejected-{type(e).__name__}|structural:{name}:{entry}',
                              f'valid {name} model rejected: {str(e)[:200]}', dict(part='structural'))
                rec.retire = True
    # an integration variable is 'inside an integral' only inside the integral over THAT variable
    import math as _m

    def _phi(om):
        return ex.exp(-0.5 * om * om) * (1.0 / _m.sqrt(2.0 * _m.pi))

    def _other_integral():
        o1, o2 = ex.RandomVariable('om1'), ex.RandomVariable('om2')
        return ex.Integrate(_phi(o2) * ex.exp(ex.Beta('b1', 0.5, None, None, 0) * o1), 'om2')

    def _absent_variable():
        o1 = ex.RandomVariable('om1')
        return ex.Integrate(_phi(o1) * ex.exp(ex.Beta('b1', 0.5, None, None, 0) * o1), 'om2')

    cases['integration-variable-inside-the-integral-over-another-variable'] = lambda e: via(e, _other_integral())
    cases['integral-over-a-variable-its-argument-does-not-contain'] = lambda e: via(e, _absent_variable())
    for name, fn in cases.items():
        for entry in ('biogeme', 'expression', 'biogeme-in-a-catalog', 'expression-in-a-catalog'):
            if name == 'integration-variable-inside-the-integral-over-another-variable' and entry.startswith('expression'):
                continue      # the placement rules are applied by the model object; at the expression level the engine raises (see plant_engine)
            _expect_refusal(rec, f'{name}', entry, lambda fn=fn, entry=entry: fn(entry))
    # nests: every position of an overlap / of an alternative outside the choice set, among three nests over six
    # alternatives, in both nest syntaxes, for the nested and the cross-nested logit
    def V6():
        return {1: ex.Beta('b1', 0.5, None, None, 0) * ex.Variable('x1'), 2: ex.Beta('b2', -0.5, None, None, 0) * ex.Variable('x2'),
                3: ex.Numeric(0), 4: ex.Variable('x1') * 0.25, 5: ex.Variable('x2') * 0.5, 6: ex.Numeric(0.25)}

    base_nests = [[1, 2], [3, 4], [5, 6]]
    mus = lambda k: ex.Beta(f'mu{k}', 1.2 + 0.1 * k, 1, 10, 0)  # noqa: E731
    variants = []
    for a, b_ in itertools.combinations(range(3), 2):
        nests = [list(n) for n in base_nests]
        nests[b_] = nests[b_] + [nests[a][0]]          # nest b shares an alternative with nest a
        variants.append((f'overlapping-nests:pair=({a},{b_})', nests))
    for k in range(3):
        nests = [list(n) for n in base_nests]
        nests[k] = nests[k][:1] + [9]                   # nest k contains an alternative that is not in the choice set
        variants.append((f'nest-leaves-choice-set:nest={k}', nests))
    for vname, nests in variants:
        def nl_objects(e, nests=nests):
            return via(e, models.lognested(V6(), None, NestsForNestedLogit(
                choice_set=[1, 2, 3, 4, 5, 6],
                tuple_of_nests=tuple(OneNestForNestedLogit(mus(k), n, f'n{k}') for k, n in enumerate(nests))), ex.Variable('choice')))

        def nl_tuples(e, nests=nests):
            return via(e, models.lognested(V6(), None, tuple((mus(k), n) for k, n in enumerate(nests)), ex.Variable('choice')))

        for entry in ('biogeme', 'expression'):
            _expect_refusal(rec, vname + ':objects', entry, lambda fn=nl_objects, entry=entry: fn(entry))
            _expect_refusal(rec, vname + ':legacy-tuples', entry, lambda fn=nl_tuples, entry=entry: fn(entry))
        if vname.startswith('nest-leaves'):
            def cnl_objects(e, nests=nests):
                return via(e, models.logcnl(V6(), None, NestsForCrossNestedLogit(
                    choice_set=[1, 2, 3, 4, 5, 6],
                    tuple_of_nests=tuple(OneNestForCrossNestedLogit(mus(k), {a_: 1.0 for a_ in n}, f'n{k}') for k, n in enumerate(nests))),
                    ex.Variable('choice')))
            for entry in ('biogeme', 'expression'):
                _expect_refusal(rec, vname + ':cnl', entry, lambda fn=cnl_objects, entry=entry: fn(entry))
    # the unfaulted three-nest structure is accepted
    for entry in ('biogeme', 'expression'):
        try:
            via(entry, models.lognested(V6(), None, NestsForNestedLogit(
                choice_set=[1, 2, 3, 4, 5, 6], tuple_of_nests=tuple(OneNestForNestedLogit(mus(k), n, f'n{k}') for k, n in enumerate(base_nests))),
                ex.Variable('choice')))
            rec.case(None, ('structural-valid', 'three-nests', entry), outcome='accepted')
        except Exception as e:
            rec.violation(f'C12|valid-specification-rejected-{type(e).__name__}|structural:three-nests:{entry}',
                          f'valid three-nest model rejected: {str(e)[:200]}', dict(part='structural'))
            rec.retire = True
    # a nests object that was valid when it was made and first used, then edited in place (its nests are kept by reference)
    # so that a nest overlaps another one / leaves the choice set: the next model built with the same object is refused
    for entry in ('biogeme', 'expression'):
        for what in ('overlap', 'leaves', 'leaves-by-append'):
            for k in range(3):
                def edited(e, what=what, k=k):
                    the_nests = tuple(OneNestForNestedLogit(mus(j), list(n), f'n{j}') for j, n in enumerate(base_nests))
                    holder = NestsForNestedLogit(choice_set=[1, 2, 3, 4, 5, 6], tuple_of_nests=the_nests)
                    via(e, models.lognested(V6(), None, holder, ex.Variable('choice')))          # valid: accepted
                    if what == 'overlap':
                        the_nests[k].list_of_alternatives.append(base_nests[(k + 1) % 3][0])
                    elif what == 'leaves':
                        the_nests[k].list_of_alternatives[-1] = 9
                    else:
                        the_nests[k].list_of_alternatives.append(9)
                    return via(e, models.lognested(V6(), None, holder, ex.Variable('choice')))
                try:
                    _expect_refusal(rec, f'nests-object-edited-after-a-first-use:{what}:nest={k}', entry, lambda fn=edited, entry=entry: fn(entry))
                except Exception as e:
                    rec.violation(f'C12|valid-specification-rejected-{type(e).__name__}|structural:three-nests-before-the-edit:{entry}',
                                  f'{type(e).__name__}: {str(e)[:200]}', dict(part='structural'))
    # second derivatives without first ones
    f = ex.Beta('b1', 0.5, None, None, 0) * ex.Variable('x1')
    _expect_refusal(rec, 'hessian-without-gradient', 'get_value_and_derivatives',
                    lambda: f.get_value_and_derivatives(database=db(), gradient=False, hessian=True, bhhh=False, prepare_ids=True))
    _expect_refusal(rec, 'bhhh-without-gradient', 'get_value_and_derivatives',
                    lambda: f.get_value_and_derivatives(database=db(), gradient=False, hessian=False, bhhh=True, prepare_ids=True))
    _expect_refusal(rec, 'hessian-without-gradient', 'create_function',
                    lambda: f.create_function(database=db(), gradient=False, hessian=True, bhhh=False))
    # bad tables
    good = {c: [r[c] for r in G.ROWS] for c in G.COLUMNS}
    for name, frame in {
        'non-numeric-column': dict(good, x1=['a', 'b', 'c', 'd', 'e']),
        'nan-entry': dict(good, x2=[1.0, float('nan'), 2.0, 0.5, 1.0]),
        'none-entry': dict(good, x2=[1.0, None, 2.0, 0.5, 1.0]),
        'empty-table': {c: [] for c in G.COLUMNS},
        # non-numeric columns under the other dtypes pandas gives to text: categories, the string extension type, bytes,
        # dates; mixed content
        'non-numeric-column:category': dict(good, x1=pd.Categorical(['a', 'b', 'a', 'c', 'b'])),
        'non-numeric-column:string-dtype': dict(good, x1=pd.array(['a', 'b', 'c', 'd', 'e'], dtype='string')),
        'non-numeric-column:bytes': dict(good, x1=[b'a', b'b', b'c', b'd', b'e']),
        'non-numeric-column:dates': dict(good, x1=pd.to_datetime(['2020-01-01'] * 5)),
        'non-numeric-column:mixed': dict(good, x1=[1.0, 'b', 2.0, 3.0, 4.0]),
        'non-numeric-column:unused-column': dict(good, unused=pd.Categorical(['a', 'b', 'a', 'c', 'b'])),
    }.items():
        def mk(frame=frame):
            d = bdb.Database('bad', pd.DataFrame(frame))
            b = make_biogeme(d, ex.Beta('b1', 0.5, None, None, 0) * ex.Variable('x2'))
            return b.calculate_likelihood(np.array([0.5]), scaled=False)
        _expect_refusal(rec, name, 'Database+BIOGEME', mk)
    rec.sample(dict(part='structural', faults=list(cases)))


def _structural_nodb(rec):
    """Formulas without any data variable, evaluated without a database: a constant choice that is not an alternative."""
    import biogeme.expressions as ex
    from biogeme import models
    from vf.engine import is_engine_error

    def Vc():
        return {1: ex.Beta('b1', 0.5, None, None, 0), 2: ex.Numeric(0.25), 3: ex.Beta('b2', -0.5, None, None, 0) * 2.0}
    nodb = {
        'choice-outside-utilities': lambda ch: models.loglogit(Vc(), {1: 1, 2: 1, 3: 1}, ch),
        'choice-outside-utilities:full-choice-set': lambda ch: models.loglogit(Vc(), None, ch),
        'choice-outside-utilities:probability': lambda ch: models.logit(Vc(), {1: 1, 2: 1, 3: 1}, ch),
    }
    for name, mk in nodb.items():
        for ch in (7, 0, -1, 4):
            for form in ('numeric', 'beta', 'number'):
                choice = ex.Numeric(ch) if form == 'numeric' else (ex.Beta('chosen', ch, None, None, 1) if form == 'beta' else ch)
                for entry, call in (('get_value', lambda e: e.get_value()),
                                    ('get_value_c', lambda e: e.get_value_c(prepare_ids=True)),
                                    ('get_value_and_derivatives', lambda e: e.get_value_and_derivatives(gradient=False, hessian=False, bhhh=False,
                                                                                                        prepare_ids=True).function)):
                    nviol = len(rec.violations)
                    _expect_refusal(rec, f'{name}:without-database:choice={form}', entry, lambda mk=mk, choice=choice, call=call: call(mk(choice)))
                    if len(rec.violations) > nviol and 'RuntimeError' in rec.violations[-1]['key']:
                        rec.count('structural_nodb_cut_short_after_engine_error')
                        return                       # the engine's error is sticky in this process
    # valid counterparts
    for ch in (1, 2, 3):
        for name, mk in nodb.items():
            try:
                v = float(mk(ex.Numeric(ch)).get_value_c(prepare_ids=True))
                rec.case(None, ('structural-nodb-valid', name, ch, round(v, 9)), outcome='accepted')
            except Exception as e:
                rec.violation(f'C12|valid-specification-rejected-{type(e).__name__}|structural:{name}:without-database', f'choice {ch}: {str(e)[:160]}',
                              dict(part='structural_nodb'))
                if is_engine_error(e):
                    return


def _expect_refusal(rec, name, entry, fn):
    case = dict(part='structural', name=name, entry=entry)
    try:
        out = fn()
    except Exception as e:
        if is_library_error(e):
            rec.case(('structural', name, entry), (name, entry, 'refused'), outcome='refused')
            return
        rec.case(('structural', name, entry), (name, entry, type(e).__name__), outcome='wrong-error')
        rec.violation(f'C12|wrong-error-type-{type(e).__name__}|structural:{name}:entry={entry}',
                      f'{name} through {entry}: raised {type(e).__name__}: {str(e)[:200]} instead of the library error', case,
                      observed=repr(e)[:300])
        rec.retire = True
        return
    rec.case(('structural', name, entry), (name, entry, 'accepted'), outcome='accepted')
    rec.violation(f'C12|faulty-specification-accepted|structural:{name}:entry={entry}', f'{name} through {entry}: accepted, returned {str(out)[:100]}',
                  case, observed=str(out)[:200])
    rec.retire = True


# ------------------------------------------------------------------ (c) missing data
MD_COLS = ['x1', 'x2', 'k', 'c']
MD_TABLE = dict(x1=[1.0, 2.0, 0.5], x2=[-1.0, 0.5, 2.0], k=[0, 1, 2], c=[1, 2, 2])
MD_PARAMS = dict(b=0.5)


def _v(n):
    return ('var', n)


MD_FORMULAS = [
    ('+', ('*', ('beta', 'b'), _v('x1')), _v('x2')),
    ('elem', _v('k'), ((0, _v('x1')), (1, _v('x2')), (2, ('num', 7.0)))),
    ('condsum', ((('==', _v('k'), ('num', 0)), _v('x1')), (('>=', _v('k'), ('num', 1)), _v('x2')))),
    ('loglogit', _v('c'), ((1, ('*', ('beta', 'b'), _v('x1')), ('<=', _v('k'), ('num', 1))), (2, _v('x2'), None))),
    ('*', _v('x1'), ('num', 2.0)),
    ('*', ('==', _v('k'), ('num', 1)), _v('x2')),
    ('exp', ('*', ('beta', 'b'), ('elem', _v('c'), ((1, _v('x1')), (2, ('num', 0.5)))))),
]
CODES = {'default': 99999.0, 'custom': -77.0}


def md_entries(tier, code_kind):
    if code_kind == 'default':
        return ['get_value_c', 'biogeme'] if tier == 'thorough' else ['get_value_c']
    return ['biogeme', 'simulate'] if tier == 'thorough' else ['biogeme']


def md_rows(task):
    rows = [{c: float(MD_TABLE[c][i]) for c in MD_COLS} for i in range(3)]
    rows[task['row']][MD_COLS[task['col']]] = CODES[task['code']]
    return rows


def md_expect(task):
    """('error', reason) when some observation reads the cell holding the code, else ('values', [...])."""
    term = MD_FORMULAS[task['formula']]
    rows = md_rows(task)
    col = MD_COLS[task['col']]
    vals = []
    for i, row in enumerate(rows):
        try:
            touched = R.reads(term, row, MD_PARAMS)
        except (R.OutOfDomain, R.Fragile, KeyError):
            return ('error', 'reference leaves the domain (the code is used as a key / choice)')
        if i == task['row'] and col in touched:
            return ('error', f'row {i} reads column {col}')
        try:
            vals.append(R.evaluate(term, row, MD_PARAMS, strict=False))
        except (R.OutOfDomain, R.Fragile):
            return ('error', 'reference leaves the domain')
    return ('values', vals)


def md_expect_error(task):
    return md_expect(task)[0] == 'error'


def _missing(task, rec):
    import numpy as np
    from vf.engine import make_db, make_biogeme
    term = MD_FORMULAS[task['formula']]
    rows = md_rows(task)
    kind, want = md_expect(task)
    entry, code = task['entry'], CODES[task['code']]
    sp = {'b': (0.5, None, None, 0)}
    key = ('missing', task['formula'], task['row'], task['col'], task['code'], entry)
    where = f'formula#{task["formula"]}:{R.kinds(term) & {"elem", "condsum", "loglogit", "*", "+"}}'
    if kind == 'error':
        rec.retire = True
    try:
        db = make_db(rows, MD_COLS)
        expr = R.Builder(sp).build(term)
        if entry == 'get_value_c':
            got = [float(v) for v in expr.get_value_c(database=db, prepare_ids=True)]
        elif entry == 'biogeme':
            b = make_biogeme(db, expr, missing_data=code)
            got = [float(b.calculate_likelihood(np.array(b.id_manager.free_betas_values, dtype=float), scaled=False))]
            if kind == 'values':
                want = [sum(want)]
        else:
            b = make_biogeme(db, {'f': expr}, missing_data=code)
            got = [float(v) for v in b.simulate({nm: 0.5 for nm in b.free_beta_names})['f']]
    except Exception as e:
        rec.case(key, (task['formula'], task['row'], task['col'], task['code'], entry, 'raised'), outcome=('raised', kind))
        if kind == 'values':
            rec.violation(f'C12|harmless-missing-code-rejected|entry={entry}:code={task["code"]}',
                          f'{R.show(term)}: cell (row {task["row"]}, {MD_COLS[task["col"]]}) = {code} is not read by that observation but '
                          f'{entry} raised {type(e).__name__}: {str(e)[:200]}', dict(task), observed=repr(e)[:300])
            rec.retire = True
        return
    rec.case(key, (task['formula'], task['row'], task['col'], task['code'], entry, [round(v, 8) for v in got]), outcome=('returned', kind))
    if kind == 'error':
        import math as _m
        offending = got[task['row']] if entry != 'biogeme' and len(got) > task['row'] else got[0]
        if _m.isnan(offending):
            # no number was produced for the observation, but no error either
            rec.violation(f'C12|missing-data-read-yields-nan-instead-of-an-error|entry={entry}',
                          f'{R.show(term)}: {want}; cell = {code}: {entry} returned {got} (NaN for the observation) instead of failing', dict(task),
                          observed=got)
        else:
            rec.violation(f'C12|missing-data-code-used-in-calculation|entry={entry}:code={task["code"]}',
                          f'{R.show(term)}: {want}; cell = {code}, yet {entry} returned {got}', dict(task), observed=got)
    elif len(got) != len(want) or any(not R.close(a, b, rel=1e-9) for a, b in zip(got, want)):
        rec.violation(f'C12|value-with-harmless-missing-code|entry={entry}:code={task["code"]}',
                      f'{R.show(term)} with cell (row {task["row"]}, {MD_COLS[task["col"]]}) = {code}: {got} expected {want}', dict(task),
                      expected=want, observed=got)


def _stale_model(task, rec):
    """History [valid model of two simulated formulas built; the table is edited in place; simulate()].  simulate audits the
    formulas against the table as it is now: a formula that refers to a column that is no longer there, or whose choice
    column now holds a value that is not an alternative, is refused with the library error; an edit that leaves the
    specification valid is accepted."""
    from biogeme.exceptions import BiogemeError
    from vf.engine import make_db, make_biogeme
    kind = task['kind']
    rows = [dict(x1=1.0, x2=-1.0, c=1.0, u=3.0), dict(x1=2.0, x2=0.5, c=2.0, u=4.0), dict(x1=0.5, x2=2.0, c=2.0, u=5.0)]
    sp = {'b': (0.5, None, None, 0)}
    ll_t = ('loglogit', ('var', 'c'), ((1, ('*', ('beta', 'b'), ('var', 'x1')), None), (2, ('*', ('beta', 'b'), ('var', 'x2')), None)))
    f_t = ('*', ('beta', 'b'), ('var', 'u'))
    case = {k: v for k, v in task.items() if k != 'fresh'}
    rec.retire = True
    db = make_db(rows, ['x1', 'x2', 'c', 'u'])
    b = make_biogeme(db, {'prob': R.Builder(sp).build(ll_t), 'f': R.Builder(sp).build(f_t)})
    first = b.simulate({'b': 0.5})
    if kind == 'column-dropped':
        db.data.drop(columns=['u'], inplace=True)
    elif kind == 'invalid-choice-written':
        db.data.loc[db.data.index[1], 'c'] = 7.0
    elif kind == 'nan-written':
        db.data.loc[db.data.index[2], 'x1'] = float('nan')
    else:
        db.data.loc[db.data.index[0], 'u'] = 30.0
    key = ('stale_model', kind)
    try:
        out = b.simulate({'b': 0.5})
    except BiogemeError:
        rec.case(key, (kind, 'refused'), outcome='refused')
        if kind == 'valid-edit':
            rec.violation('C12|valid-specification-rejected-BiogemeError|history=[model, valid in-place edit, simulate]', 'refused', case)
        return
    except Exception as e:
        rec.case(key, (kind, type(e).__name__), outcome='wrong-error')
        if kind != 'valid-edit':
            rec.violation(f'C12|wrong-error-type-{type(e).__name__}|history=[model, {kind}, simulate]', f'{type(e).__name__}: {str(e)[:200]}', case)
        return
    rec.case(key, (kind, 'accepted'), outcome='accepted')
    if kind in ('column-dropped', 'invalid-choice-written'):
        rec.violation(f'C12|faulty-specification-accepted|history=[model, {kind}, simulate]',
                      f'after {kind} simulate() returned numbers: {out.values.tolist()}', case, observed=out.values.tolist())
    elif kind == 'nan-written':
        rec.count('stale_model_nan_written_accepted_by_simulate')      # the statement lists NaN data for the data, judged at creation


def _stale_emptied(task, rec):
    """History [valid model built and used; Database.remove deletes every row; two requests in a row on the same object].  Empty
    data are refused with the library error 'before any number is produced' - by the first request and again by the next one
    (a refusal leaves nothing behind that makes the object believe its data are current)."""
    import numpy as np
    from biogeme.exceptions import BiogemeError
    from vf.engine import make_db, make_biogeme
    rows = [dict(x1=1.0, x2=-1.0, c=1.0, u=3.0), dict(x1=2.0, x2=0.5, c=2.0, u=4.0), dict(x1=0.5, x2=2.0, c=2.0, u=5.0)]
    sp = {'b': (0.5, None, None, 0)}
    ll_t = ('loglogit', ('var', 'c'), ((1, ('*', ('beta', 'b'), ('var', 'x1')), None), (2, ('*', ('beta', 'b'), ('var', 'x2')), None)))
    case = {k: v for k, v in task.items() if k != 'fresh'}
    rec.retire = True
    db = make_db(rows, ['x1', 'x2', 'c', 'u'])
    b = make_biogeme(db, {'log_like': R.Builder(sp).build(ll_t), 'f': R.Builder(sp).build(('*', ('beta', 'b'), ('var', 'u')))})
    b.calculate_likelihood(np.array([0.5]), scaled=False)
    db.remove(R.Builder(sp).build(('>', ('var', 'x1'), ('num', -1000.0))))
    if len(db.data) != 0:
        rec.violation('C12|harness|emptied-table-not-empty', f'{len(db.data)} rows left', case)
        return
    for k, req in enumerate(task['requests']):
        hist = task['requests'][:k + 1]
        key = ('stale_emptied', tuple(hist))
        try:
            if req == 'll':
                out = [float(b.calculate_likelihood(np.array([0.5]), scaled=False))]
            elif req == 'lld':
                out = [float(b.calculate_likelihood_and_derivatives(np.array([0.5]), scaled=False, hessian=False, bhhh=False).function)]
            else:
                out = [float(v) for v in b.simulate({'b': 0.5})['f']]
        except BiogemeError:
            rec.case(key, (tuple(hist), 'refused'), outcome='refused')
            continue
        except Exception as e:
            rec.case(key, (tuple(hist), type(e).__name__), outcome='wrong-error')
            rec.violation(f'C12|wrong-error-type-{type(e).__name__}|history=[model, table emptied by remove, requests]',
                          f'requests {hist} after the table was emptied: {type(e).__name__}: {str(e)[:200]}', case)
            return
        rec.case(key, (tuple(hist), 'accepted'), outcome='accepted')
        if any(v == v and v != 0.0 for v in out):
            rec.violation('C12|faulty-specification-accepted|history=[model, table emptied by remove, requests]',
                          f'requests {hist} after Database.remove deleted every row: the last one returned {out}', case, observed=out)
            return
        rec.count('stale_emptied_request_returned_nothing_or_zero')


def _missing_model(task, rec):
    """A weighted logit model under a declared missing-data code of -77.  `what` = a cell holds 99999 (an ordinary number under
    that declaration: the model is accepted and the log likelihood is the weighted sum computed with 99999) / a cell holds
    -77 in a column every observation reads (refused, no number)."""
    import numpy as np
    from vf.engine import make_db, make_biogeme
    col, what = task['col'], task['what']
    code = 0.0 if what.endswith('code-zero') else -77.0      # 0 is a legal declaration (no cell of the table is 0)
    # column a2 is read by the availability CONDITION of alternative 2 only (a2 > 0): 99999 there is an ordinary positive number
    rows = [dict(x1=1.0, x2=-1.0, c=1.0, w=1.5, a2=1.0), dict(x1=2.0, x2=0.5, c=2.0, w=0.5, a2=2.0), dict(x1=0.5, x2=2.0, c=2.0, w=2.0, a2=3.0)]
    value = 99999.0 if what.startswith('default-code-value') else code
    if col not in ('w', 'a2') and value == 99999.0:
        # 99999 is not an alternative, and as an attribute it leaves the regular domain of the logit (overflow)
        rec.case(None, ('missing_model', col, what, 'n/a'), outcome='not-applicable')
        return
    rows[1][col] = value
    ll_t = ('loglogit', ('var', 'c'), ((1, ('*', ('beta', 'b'), ('var', 'x1')), None),
                                       (2, ('*', ('beta', 'b'), ('var', 'x2')), ('>', ('var', 'a2'), ('num', 0.0)))))
    w_t = ('var', 'w')
    sp = {'b': (0.5, None, None, 0)}
    case = {k: v for k, v in task.items() if k != 'fresh'}
    rec.retire = True
    key = ('missing_model', col, what)
    try:
        db = make_db(rows, ['x1', 'x2', 'c', 'w', 'a2'])
        b = make_biogeme(db, {'log_like': R.Builder(sp).build(ll_t), 'weight': R.Builder(sp).build(w_t)}, missing_data=code)
        got = float(b.calculate_likelihood(np.array([0.5]), scaled=False))
    except Exception as e:
        rec.case(key, (col, what, 'raised', type(e).__name__), outcome=('raised', what))
        if what.startswith('default-code-value'):
            rec.violation(f'C12|valid-specification-rejected-{type(e).__name__}|value-99999-under-declared-code-{code:g}:column={col}',
                          f'declared missing-data code {code:g}; column {col} holds the ordinary value 99999 in one row: the weighted model is '
                          f'rejected with {type(e).__name__}: {str(e)[:200]}', case, observed=repr(e)[:300])
        return
    rec.case(key, (col, what, round(got, 6)), outcome=('returned', what))
    if what.startswith('declared-'):
        rec.violation(f'C12|missing-data-code-used-in-calculation|entry=weighted-model:column={col}:code={code:g}',
                      f'declared code {code:g} stands in column {col}, which every observation reads, yet the log likelihood {got} was returned', case,
                      observed=got)
        return
    want = sum(R.evaluate(w_t, r, {'b': 0.5}) * R.evaluate(ll_t, r, {'b': 0.5}) for r in rows)
    if not R.close(got, want, rel=1e-9):
        rec.violation(f'C12|value-with-harmless-missing-code|entry=weighted-model:column={col}', f'LL={got}, expected {want}', case,
                      expected=want, observed=got)


def _sticky(rec):
    """History [evaluation that fails inside the engine, valid evaluation] in one process."""
    from vf.engine import make_db
    rows = [{c: float(MD_TABLE[c][i]) for c in MD_COLS} for i in range(3)]
    bad = [dict(r) for r in rows]
    bad[1]['x1'] = 99999.0
    sp = {'b': (0.5, None, None, 0)}
    term = MD_FORMULAS[0]
    rec.retire = True
    try:
        R.Builder(sp).build(term).get_value_c(database=make_db(bad, MD_COLS), prepare_ids=True)
        rec.violation('C12|missing-data-code-used-in-calculation|sticky-setup', 'the failing evaluation returned a number', dict(part='sticky'))
        return
    except Exception:
        pass
    try:
        got = [float(v) for v in R.Builder(sp).build(term).get_value_c(database=make_db(rows, MD_COLS), prepare_ids=True)]
        want = [R.evaluate(term, r, MD_PARAMS) for r in rows]
        rec.case(('sticky',), ('sticky', 'accepted'), outcome='valid-accepted-after-error')
        if any(not R.close(a, b) for a, b in zip(got, want)):
            rec.violation('C12|valid-spec-wrong-value|history=[engine-error, valid-evaluation]', f'{got} expected {want}', dict(part='sticky'))
    except Exception as e:
        rec.case(('sticky',), ('sticky', 'rejected'), outcome='valid-rejected-after-error')
        rec.violation('C12|valid-spec-rejected|history=[engine-error, valid-evaluation]',
                      f'after one evaluation that failed inside the engine (missing data), a valid formula on valid data is rejected in the same '
                      f'process: {type(e).__name__}: {str(e)[:200]}', dict(part='sticky'), observed=repr(e)[:300])


# ------------------------------------------------------------------ (e) histories of one formula object
_RL = ('loglogit', ('var', 'choice'), ((1, ('*', ('beta', 'b_z'), ('var', 'x1')), None),
                                       (2, ('*', ('beta', 'B2'), ('var', 'x2')), ('var', 'av2')), (3, ('num', 0.25), None)))
REUSE_FORMULAS = {
    'logit': _RL,
    'logit-under-an-operator': ('+', _RL, ('*', ('beta', 'b_z'), ('var', 'x1'))),
    'linear': ('+', ('*', ('beta', 'b_z'), ('var', 'x2')), ('var', 'x1')),
}
REUSE_ENTRIES = ('biogeme_expr', 'biogeme_dict', 'biogeme_simulate', 'get_value_c', 'get_value_and_derivatives')
REUSE_NEW = ('new:clean', 'new:other-clean-sample', 'new:choice-without-utility', 'new:column-absent')
REUSE_EDIT = ('remove-rows-with-the-invalid-choice', 'write-an-invalid-choice-in-place')
REUSE_BAD_CHOICE = 7.0
REUSE_ABSENT = 'x1'


def reuse_histories(depth):
    """Every sequence of steps of length exactly `depth` whose first step makes a Database (shorter ones are its prefixes:
    every use along a history is judged)."""
    return [(a,) + rest for a in REUSE_NEW for rest in itertools.product(REUSE_NEW + REUSE_EDIT, repeat=depth - 1)]


def _reuse_step(step, db, rows, cols):
    """Applies one step to the library's Database and to the reference table (rows, cols); returns the three."""
    import biogeme.expressions as ex
    from vf.engine import make_db
    if step.startswith('new:'):
        rows, cols = [dict(r) for r in G.ROWS], list(G.COLUMNS)
        if step == 'new:other-clean-sample':
            rows = [dict(r, x1=r['x1'] + 0.25) for r in reversed(rows[1:])]
        elif step == 'new:choice-without-utility':
            for i in (1, 3):
                rows[i]['choice'] = REUSE_BAD_CHOICE
        elif step == 'new:column-absent':
            cols = [c for c in cols if c != REUSE_ABSENT]
        return make_db(rows, cols), rows, cols
    if step == 'remove-rows-with-the-invalid-choice':
        db.remove(ex.Variable('choice') == REUSE_BAD_CHOICE)
        rows = [r for r in rows if r['choice'] != REUSE_BAD_CHOICE]
    else:
        db.data.loc[db.data.index[0], 'choice'] = REUSE_BAD_CHOICE
        rows = [dict(r) for r in rows]
        rows[0]['choice'] = REUSE_BAD_CHOICE
    return db, rows, cols


def _reuse_history(fname, entry, history, rec, done):
    """One formula object along one history; every use not judged before (prefix in `done`) is judged.  Returns False when the
    process must not go on (engine error)."""
    from vf.engine import is_engine_error
    term = REUSE_FORMULAS[fname]
    is_logit = 'loglogit' in R.kinds(term)
    full = dict(G.PARAMS)
    expr = R.Builder(spec()).build(term)          # ONE object for the whole history
    db = rows = cols = None
    for k, step in enumerate(history):
        db, rows, cols = _reuse_step(step, db, rows, cols)
        if len(db.data) != len(rows):
            rec.violation('C12|harness|reuse-reference-table-out-of-step', f'{history[:k + 1]}: {len(db.data)} rows, reference {len(rows)}',
                          dict(part='reuse', formula=fname, entry=entry, history=history[:k + 1]))
            return True
        hist = tuple(history[:k + 1])
        faults = []
        if REUSE_ABSENT not in cols:
            faults.append(REUSE_ABSENT)
        if is_logit and any(r['choice'] not in (1.0, 2.0, 3.0) for r in rows):
            faults += ['choice', 'alternative']
        judged = hist not in done
        done.add(hist)
        key = ('reuse', fname, entry, hist) if k >= 1 else None
        case = dict(part='reuse', formula=fname, entry=entry, history=list(hist))
        prev = 'first-use' if k == 0 else history[k - 1]
        where = f'formula-object-used-again:after={prev}:now={step}'
        try:
            out = enter(entry, term, db=db, expr=expr)
        except Exception as e:
            if not judged:
                if is_engine_error(e):
                    rec.retire = True
                    return False
                continue
            if is_library_error(e) and faults:
                named = any(f in str(e).lower() for f in faults)
                rec.case(key, (fname, entry, hist, 'BiogemeError', named), outcome=('refused', named))
                if not named:
                    rec.violation(f'C12|error-does-not-name-the-element|{where}', f'{fname} via {entry} along {list(hist)}: message does not '
                                  f'mention any of {faults}: {str(e)[:200]}', case)
                continue
            if faults:
                rec.case(key, (fname, entry, hist, type(e).__name__), outcome=('wrong-error', type(e).__name__))
                rec.violation(f'C12|wrong-error-type-{type(e).__name__}|{where}',
                              f'the formula object {fname} applied along {list(hist)} through {entry}: the data hold the fault {faults[0]} but '
                              f'{type(e).__name__}: {str(e)[:160]} was raised instead of the library error', case, observed=repr(e)[:300])
            else:
                rec.case(key, (fname, entry, hist, type(e).__name__), outcome='rejected')
                rec.violation(f'C12|valid-specification-rejected-{type(e).__name__}|{where}',
                              f'the formula object {fname} applied along {list(hist)} through {entry}: the data at hand ({len(rows)} rows, choices '
                              f'{sorted(set(r["choice"] for r in rows))}, columns {cols}) hold no fault, yet the last use was rejected: '
                              f'{type(e).__name__}: {str(e)[:200]}', case, observed=repr(e)[:300])
            if is_engine_error(e):
                rec.retire = True
                return False
            return True                           # the state of the object after a wrong verdict is not modelled: the history stops
        if not judged:
            continue
        if faults:
            rec.case(key, (fname, entry, hist, 'accepted'), outcome='accepted')
            rec.violation(f'C12|faulty-specification-accepted|{where}',
                          f'the formula object {fname} applied along {list(hist)} through {entry}: the data hold the fault {faults[0]} yet '
                          f'{out} was returned', case, observed=out)
            rec.retire = True
            return False
        refs = [R.evaluate(term, r, full) for r in rows]
        want = refs if entry in ROW_ENTRIES else [sum(refs)]
        ok = len(out) == len(want) and all(R.close(a, b, rel=1e-9) for a, b in zip(out, want))
        rec.case(key, (fname, entry, hist, [round(v, 8) for v in out]), outcome=('accepted', ok))
        rec.count('reuse_valid_uses')
        if not ok:
            rec.violation(f'C12|valid-specification-wrong-value|{where}',
                          f'the formula object {fname} applied along {list(hist)} through {entry}: {out} expected {want}', case,
                          expected=want, observed=out)
            return True
    return True


def _reuse(task, rec):
    done = set()
    hs = reuse_histories(task['depth'])
    rec.sample(dict(part='reuse', formula=task['formula'], entry=task['entry'], histories=len(hs), example=list(hs[-1])))
    for h in hs:
        if not _reuse_history(task['formula'], task['entry'], list(h), rec, done):
            rec.count('capped')
            rec.count('reuse_tasks_cut_short_after_engine_error')
            return


def replay(case):
    rec = Rec()
    part = case['part']
    if part == 'plant':
        wrapper = tuple(case['wrapper']) if case.get('wrapper') else None
        panel = case['fault'] == 'panel-variable-outside-trajectory'
        term = build_faulty(case['p'], case['s'], case['fault'], wrapper, novar=panel or case['entry'] in NODB_ENTRIES)
        if panel and case['entry'] != 'biogeme_weight_formula':
            term = ('*', ('traj', ('exp', ('*', ('beta', 'b_z'), ('var', 'x2')))), term)
        try:
            _judge(rec, case['fault'], case['entry'], case['p'], case['s'], wrapper, term, panel, case, catalog=case.get('catalog'))
        except StopTask:
            pass
    elif part == 'plant_engine':
        _plant_engine(case, rec)
    elif part == 'valid_data':
        _valid_data(case, rec)
    elif part == 'valid_literals':
        _valid_literals(rec)
        _valid_status(rec)
    elif part == 'structural_nodb':
        _structural_nodb(rec)
    elif part == 'missing_model':
        _missing_model(case, rec)
    elif part == 'stale_model':
        _stale_model(case, rec)
    elif part == 'stale_emptied':
        _stale_emptied(case, rec)
    elif part == 'emptied':
        # replayed in a child process: the engine may abort
        import multiprocessing as mp
        ctx = mp.get_context('spawn')
        p = ctx.Process(target=_emptied_child, args=(dict(case),))
        p.start()
        p.join(300)
        if p.exitcode not in (0, 3):
            return [on_abort(dict(case), dict(exitcode=p.exitcode, log_tail=''))]
        return [dict(key='replayed-in-child', what='violation reproduced in the child process', case=case)] if p.exitcode == 3 else []
    elif part in ('valid', 'valid_panel'):
        st = list(sites())
        idx = [i for i, (p, s) in enumerate(st) if p == case.get('p') and s == case.get('s')]
        lo = idx[0] if idx else 0
        _valid(dict(lo=lo, hi=lo + 1, tier=case.get('tier', 'quick')), rec)
    elif part == 'structural':
        _structural(rec)
        rec.violations = [v for v in rec.violations if v['case'].get('name') == case.get('name')] or rec.violations
    elif part == 'missing':
        _missing(case, rec)
    elif part == 'sticky':
        _sticky(rec)
    elif part == 'reuse':
        _reuse_history(case['formula'], case['entry'], list(case['history']), rec, set())
    return rec.violations
