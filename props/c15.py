"""C15 — the saved-iteration file is always a sound restart point.

Bounded exhaustive exploration on the real BIOGEME object:
 (a) every sequence of derivative evaluations (alphabet: 6 real parameter points of a
     real 2-parameter model x scaled flag) up to a depth, the file inspected after
     every call and compared with a reference model (best finite-derivative point so far);
     plus an explicit-state BFS with state = (best-so-far marker, file bytes) run to a
     fixpoint (no new state), which covers sequences of every length;
 (b) real optimiser traces (every algorithm x bounds x start), file inspected after
     every evaluation the optimiser issues, also through a bootstrap phase whose
     resamples are enumerated;
 (c) restart: a fresh BIOGEME of the same model must begin at exactly the saved point
     (parameter names / values from adversarial pools);
 (d) crash points: the file layer under biogeme.biogeme is replaced by an in-memory
     one that logs operations; every prefix of the log and every byte cut of every write
     is taken as a crash image, checked, and recovered from.
"""
from __future__ import annotations

import itertools
import math
import os
import struct

from vf.rec import Rec

ID = 'C15'
LEVEL = 'fault_enumeration'
TECHNIQUE = ('bounded exhaustive enumeration of evaluation histories and of all crash points / torn '
             'writes of the save log on the real BIOGEME object, against a reference model')
RULE = ('cases: (a) all call sequences over 6 points x scaled flag to the depth bound, one case per call; '
        '(bfs) histories merged on (best marker, file bytes, reference state) until no new state; '
        '(b) one case per evaluation issued by a real optimiser run; (c) one case per (name pool, value) restart; '
        '(d) one case per crash image (every log prefix, every byte cut). A case is non-trivial when the file '
        'exists at that moment, or the crash image differs from both the pre- and post-save image; '
        'distinct = distinct (part, history/trace position, image) keys.')
ASSUMPTIONS = [
    'crash model: a stopped process leaves exactly a prefix of its logged file operations (any byte cut of the '
    'write in progress); no reordering between operations, no power-loss semantics',
    'the iteration file is written through builtins.open / os.replace|rename as seen from module biogeme.biogeme '
    '(the in-memory seam); a bypass is detected (real file appears) and reported as a harness error',
    'reference log likelihood is computed in plain Python; points of the alphabet have well separated values',
]
ANCHOR_FILES = ['src/biogeme/biogeme.py']
DETERMINISM_SLICE = 3

# --------------------------------------------------------------------------- model
# VERIF_SEED selects one of a few data alphabets (never sampling: each run is exhaustive over its own space)
_SEED = int(os.environ.get('VERIF_SEED', '0') or 0)
X = [1.0, 2.0, 3.0, 4.0]
Y = [[0.5, 1.0, 2.0, 3.5], [0.75, 1.5, 2.0, 3.25], [0.5, 1.25, 2.25, 3.0], [1.0, 1.0, 2.5, 3.5]][_SEED % 4]
POINTS = {
    'P0': (0.0, 0.0),      # the start
    'P1': (0.5, 0.0),      # the best of the alphabet (with the data of seed 0)
    'P2': (0.8, -1.0),     # between P3 and P1
    'P3': (0.7, -2.0),     # better than the start (the histories P0, P3, P2, P1 are three successive improvements)
    'P4': (0.5, 800.0),    # exp overflow: value -inf, gradient not finite
    'P5': (3.0, 0.0),      # far below the start
    'P6': (2.0, 0.0),      # between P5 and PN
    'PN': (-1.0, 0.5),     # FINITE value (between P6 and P0) but infinite gradient: d/db1 (b1+1)**0.5 at b1 = -1
    'PQ': (0.3, -4.0),     # value NOT A NUMBER (log of a negative number) while every derivative is finite
    'PM': (0.55, -2.5),    # finite value (between P3 and P0); the gradient entry of the SECOND parameter is NaN (+inf and -inf
                           # added over the rows), the entry of the first one is finite
    'PH': (0.6, 9.25),     # finite value (far below everything) and FINITE derivatives, one of them of the order of 1e200 (its
                           # square is not a double): the only way to see it in the file is to evaluate it first
}
MODEL_NAME = 'm15'
ITER = f'__{MODEL_NAME}.iter'


def ref_ll(p, x=X, y=Y):
    """Reference value and finiteness of the gradient, plain Python.
    log likelihood = - sum_rows [ (y - b1 x - exp(b2))**2 + (b1 + 1)**0.5 - log(b2 + 3) ]
    (a point whose value is not a number is not a candidate for "the best point", whatever its derivatives)"""
    b1, b2 = p
    try:
        e = math.exp(b2)
    except OverflowError:
        return float('-inf'), False
    if b1 < -1.0 or b2 <= -3.0:
        return float('nan'), False
    f = -sum((yy - b1 * xx - e) ** 2 + (b1 + 1.0) ** 0.5 - math.log(b2 + 3.0) for xx, yy in zip(x, y))
    # (the two extra terms of the model are exactly 0 at every point of the alphabet; at PM the first one makes the
    # derivative with respect to b2 not a number; at PH the derivatives are finite)
    return f, math.isfinite(f) and b1 > -1.0 and not (b1 == 0.55 and b2 == -2.5)


def bits(v: float) -> str:
    return struct.pack('>d', float(v)).hex()


class RefModel:
    """Boring reference: remembers the best finite-derivative evaluation."""

    def __init__(self):
        self.best_f = None
        self.best_pts = []  # all points attaining the best value (ties)
        self.evaluated = []
        self.nan_before_first_finite = False

    def evaluate(self, p, f, finite):
        self.evaluated.append((tuple(p), f, finite))
        if f != f and self.best_f is None:
            self.nan_before_first_finite = True
        if not finite:
            return
        if self.best_f is None or f > self.best_f:
            self.best_f, self.best_pts = f, [tuple(p)]
        elif f == self.best_f and tuple(p) not in self.best_pts:
            self.best_pts.append(tuple(p))

    def acceptable(self, tol=0.0):
        if self.best_f is None:
            return []
        thr = self.best_f - tol * max(1.0, abs(self.best_f))
        return [p for p, f, fin in self.evaluated if fin and f >= thr]


def make_biogeme(names=('b1', 'b2'), start=(0.0, 0.0), fs=None, bounds=None, algo=None,
                 extreme=False, x=X, y=Y, extra=None, spikes=True):
    import numpy as np
    import pandas as pd
    import biogeme.biogeme as bb
    import biogeme.database as db
    from biogeme.expressions import Beta, Variable, exp
    from biogeme.parameters import Parameters

    if fs is not None:
        bb.open = fs.open
        bb.os = fs.os()
    df = pd.DataFrame({'x': list(x), 'y': list(y)})
    d = db.Database('t15', df)
    bnd = bounds or {}
    ba = Beta(names[0], start[0], *bnd.get(0, (None, None)), 0)
    bbeta = Beta(names[1], start[1], *bnd.get(1, (None, None)), 0)
    if extreme:
        ll = -((Variable('y') - 1e-305 * ba) ** 2) - (bbeta * 1e-3 - Variable('x')) ** 2 * 1e-3
    else:
        from biogeme.expressions import log
        ll = -((Variable('y') - ba * Variable('x') - exp(bbeta)) ** 2) - (ba + 1.0) ** 0.5 + log(bbeta + 3.0)
        # (not for the runs of real optimisers, which leave the alphabet)
        # two terms whose VALUE is exactly 0 at every point of the alphabet: the first one has, at PM only, a derivative of
        # +inf on some rows and -inf on others (their sum is not a number); the second one has, at PH only, a finite
        # derivative of the order of 1e200
        if spikes:
            ll = ll + (bbeta + 2.5) * exp(700.0 - 1e6 * (ba - 0.55) ** 2) * (Variable('x') - 2.5) * 1e10 \
                - (ba - 0.6) * 1e100 * exp(230.0 - 50.0 * (bbeta - 9.25) ** 2)
    kw = dict(save_iterations=True, generate_html=False, generate_pickle=False)
    if algo:
        kw['optimization_algorithm'] = algo
    if extra:
        kw.update(extra)
    b = bb.BIOGEME(d, ll, parameters=Parameters(), **kw)
    b.modelName = MODEL_NAME
    return b


def unpatch():
    import biogeme.biogeme as bb
    import os as real_os
    if 'open' in bb.__dict__:
        del bb.open
    if 'os' in bb.__dict__ and type(bb.os).__name__ == 'FakeOs':
        # restore: either the module imported os (fixed tree) or had none
        bb.os = real_os


def read_file(fs=None):
    if fs is not None:
        return fs.files.get(ITER)
    try:
        with open(ITER, 'rb') as f:
            return f.read()
    except FileNotFoundError:
        return None


def write_file(content: bytes):
    with open(ITER, 'wb') as f:
        f.write(content)


def parse_strict(content: bytes, names):
    """Independent strict reader: exactly one complete 'name = value' line per free
    parameter (sorted names as the library reports them).  Returns dict or an error string."""
    try:
        text = content.decode('utf-8')
    except UnicodeDecodeError:
        return 'not utf-8'
    if text and not text.endswith('\n'):
        return 'last line incomplete (no newline)'
    lines = text.split('\n')[:-1] if text else []
    if len(lines) != len(names):
        return f'{len(lines)} lines for {len(names)} free parameters'
    out = {}
    for ln in lines:
        name, sep, val = ln.rpartition(' = ')
        if not sep:
            return f'malformed line {ln!r}'
        try:
            out[name] = float(val)
        except ValueError:
            return f'malformed value in {ln!r}'
    if sorted(out) != sorted(names):
        return f'names {sorted(out)} != free parameters {sorted(names)}'
    return out


def check_file(content, names, ref: RefModel, tol=0.0):
    """Returns (clause, detail) or None."""
    if content is None:
        if ref.best_f is not None and not ref.nan_before_first_finite:
            return ('file-missing-after-finite-evaluation', f'best={ref.best_pts}')
        # (after a first value that is not a number the library stops saving for good: no file, so the statement - which
        # speaks of the file "whenever it exists" - is not contradicted; not judged)
        return None
    if ref.best_f is None:
        return ('file-exists-without-finite-evaluation', repr(content))
    parsed = parse_strict(content, names)
    if isinstance(parsed, str):
        return ('file-incomplete-or-malformed', parsed + ' :: ' + repr(content[:120]))
    got = tuple(bits(parsed[n]) for n in sorted(names))
    evaluated = [tuple(bits(v) for v in _by_sorted(names, p)) for p, f, fin in ref.evaluated]
    if got not in evaluated:
        return ('file-holds-a-point-never-evaluated', repr(content))
    ok = [tuple(bits(v) for v in _by_sorted(names, p)) for p in ref.acceptable(tol)]
    if got not in ok:
        return ('file-not-the-best-finite-point-so-far',
                f'file={content!r} best={ref.best_pts} best_f={ref.best_f}')
    return None


def _by_sorted(names, p):
    # p is given in the order of `names`; the library reports sorted names
    order = sorted(range(len(names)), key=lambda i: names[i])
    return [p[i] for i in order]


def pattern(history):
    """Abstract pattern of a history relative to the reference state (finding key witness):
    I improves on best, E equals best, W worse than best but >= first, L below first, N non-finite."""
    ref_best = None
    first = None
    out = []
    for ev in history:
        f, fin = ref_ll(POINTS[ev[0]])
        if not fin:
            out.append('G' if math.isfinite(f) else 'N')
            continue
        if ref_best is None:
            out.append('I')
            ref_best = f
            first = f
            continue
        if f > ref_best:
            out.append('I')
            ref_best = f
        elif f == ref_best:
            out.append('E')
        elif f >= first:
            out.append('W')
        else:
            out.append('L')
    return ''.join(out)


def clean_real():
    for fn in os.listdir('.'):
        if fn.endswith('.iter') or fn.endswith('.iter.tmp') or fn.startswith('__'):
            try:
                os.remove(fn)
            except OSError:
                pass


def run_history(history, rec: Rec | None, case_desc, fs=None, collect=None):
    """Replays a history of events (point name, scaled) on a fresh BIOGEME; checks the file after
    every call.  Returns (biogeme object, ref model, first violation or None)."""
    import numpy as np

    if fs is None:
        clean_real()
    b = make_biogeme(fs=fs)
    names = list(b.free_beta_names)
    ref = RefModel()
    bad = None
    shared = np.zeros(2, dtype=float)       # ONE array that the caller keeps and updates in place (flag 6)
    for i, ev in enumerate(history):
        p = POINTS[ev[0]]
        x = np.array(p, dtype=float)
        flags = ev[2] if len(ev) > 2 else 0   # 0: gradient only, 1: + hessian, 2: + bhhh, 3: both
        if flags == 4:
            # the vector of values is a plain list of Python numbers (the declared type allows it)
            x, flags = [float(v) for v in p], 0
        elif flags == 6:
            # ... or the caller's own iterate: one array object, overwritten in place before every such call (the library
            # is handed the same object again with other values in it)
            shared[:] = p
            x, flags = shared, 0
        elif flags == 5:
            # ... or a single-precision array: the point evaluated is the double each entry converts to
            x, flags = np.array(p, dtype=np.float32), 0
            p = tuple(float(v) for v in x)
        try:
            b.calculate_likelihood_and_derivatives(x, scaled=bool(ev[1]), hessian=bool(flags & 1), bhhh=bool(flags & 2))
        except Exception as e:
            from vf.engine import is_engine_error
            if is_engine_error(e):
                raise
            # an evaluation an optimiser may issue (any point, any of the declared forms of the vector) is answered, at
            # worst with a warning about the derivatives: it does not raise
            kind = {4: 'list', 5: 'float32-array', 6: 'array-reused-in-place'}.get(ev[2] if len(ev) > 2 else 0, 'float64-array')
            bad = (i, (f'evaluation-raises-{type(e).__name__}|vector={kind}', f'{type(e).__name__}: {str(e)[:150]}'))
            if rec is not None:
                rec.case(('a', tuple(map(tuple, history[: i + 1]))), (ev, 'raised'), outcome=('raised', type(e).__name__))
            break
        f, fin = ref_ll(p)
        ref.evaluate(p, f, fin)
        content = read_file(fs)
        res = check_file(content, ['b1', 'b2'], ref)
        if rec is not None:
            key = ('a', tuple(map(tuple, history[: i + 1])))
            rec.case(key if content is not None else None, (ev, content), outcome=(content is not None, res is None))
        if res and bad is None:
            bad = (i, res)
            break  # first failure of this history only (prefix-minimal witness)
    return b, ref, bad


# --------------------------------------------------------------------------- tasks
def events(with_scaled):
    """(point, scaled, derivative flags): the flags vary which second-order quantities are requested with the
    evaluation (0 none, 1 Hessian, 2 BHHH, 3 both); saving must not depend on them.  Flags 4 and 5: the vector of values
    is handed over as a plain list / as a single-precision array; flag 6: as one array object that the caller keeps and overwrites
    in place between the calls (an optimiser's own iterate)."""
    pts = list(POINTS)
    if not with_scaled:
        return [(p, 0, 0) for p in pts]
    return [(p, s, f) for p in pts for (s, f) in ((0, 0), (1, 0), (0, 1), (0, 3), (0, 4), (0, 5), (0, 6))
            if not (f == 5 and p in ('PM', 'PH'))]      # (the two spikes sit on double-precision values)


def tasks(tier, seed):
    t = []
    # (a) all sequences of exactly `depth` events (every prefix is checked on the way); one task per pair of
    # leading events.  With the flag variants: depth 2 (quick) / 3 (thorough); points only: depth 3 / 5.
    evs = events(True)
    for e0 in evs:
        for e1 in evs:
            t.append(dict(part='a', prefix=[e0, e1], depth=2 if tier == 'quick' else 3, scaled=True))
    ev0 = events(False)
    for e0 in ev0:
        for e1 in ev0:
            t.append(dict(part='a', prefix=[e0, e1], depth=3 if tier == 'quick' else 5, scaled=False))
    # (b) optimiser traces
    algos = ['automatic', 'scipy', 'LS-newton', 'TR-newton', 'LS-BFGS', 'TR-BFGS',
             'simple_bounds', 'simple_bounds_newton', 'simple_bounds_BFGS']
    bcfgs = ['none', 'active'] if tier == 'quick' else ['none', 'active', 'wide', 'lower']
    starts = [(0.0, 0.0)] if tier == 'quick' else [(0.0, 0.0), (0.3, -0.5), (1.0, 0.0)]
    for a in algos:
        for bc in bcfgs:
            for s in starts:
                t.append(dict(part='b', algo=a, bounds=bc, start=list(s), boot=None))
    # bootstrap phase: every resample (multiset of rows, as an index vector) of a family
    boots = _boot_vectors(tier)
    for i in range(0, len(boots), 6):
        t.append(dict(part='b', algo='simple_bounds', bounds='none', start=[0.0, 0.0], boot=boots[i:i + 6]))
    # bootstrap phase left by an exception at its k-th evaluation (an interrupted run, caught by the caller), after a
    # first estimation cut short; the same object is then estimated again: the file must follow the best point
    ks = [1, 2, 3] if tier == 'quick' else [1, 2, 3, 4, 5, 8]
    for a in (['simple_bounds', 'LS-BFGS'] if tier == 'quick' else algos):
        for k in ks:
            t.append(dict(part='b', algo=a, bounds='none', start=[0.0, 0.0], boot=[boots[7]], interrupt=k))
    # (e) the file follows the current model name
    t.append(dict(part='e'))
    # (c) restart
    for ni, nm in enumerate(NAME_POOL):
        t.append(dict(part='c', names=ni))
    # (d) crash points
    pts = ['P0', 'P1', 'P2', 'P3', 'P5', 'P4', 'PN']
    maxlen = 2 if tier == 'quick' else 3
    hs = []
    for n in range(1, maxlen + 1):
        for tail in itertools.product(pts, repeat=n - 1):
            hs.append(['P0', *tail])
    for h in hs:
        t.append(dict(part='d', history=h))
    return t


def _boot_vectors(tier):
    n = len(X)
    if tier == 'quick':
        vecs = [v for v in itertools.combinations_with_replacement(range(n), n)]  # 35 multisets
    else:
        vecs = [v for v in itertools.product(range(n), repeat=n)]  # all 256 index vectors
    # a resample in which all rows coincide gives a degenerate (flat) problem: still a legal answer
    return [list(v) for v in vecs]


NAME_POOL = [
    ('b1', 'b2'),
    ('b2', 'b1'),  # first formula parameter sorts last
    ('B_TIME_' + 'x' * 60, 'asc car'),
    ('beta[1]', 'β_temps'),
    ('a=b', 'c'),
    ('lambda', 'mu ='),
    ('b1 ', ' b2'),             # blanks at the ends of a name are part of the name
    ('a\tb', 'c  '),
]
VALUE_POOL = [0.1, 1.0 / 3.0, 5e-324, 2.2250738585072014e-308, 1e300, -1e300, -0.0,
              123456789.12345678, 1e-7, 2, -3]


def run_task(task):
    rec = Rec()
    try:
        if task['part'] == 'a':
            _part_a(task, rec)
        elif task['part'] == 'b':
            _part_b(task, rec)
        elif task['part'] == 'c':
            _part_c(task, rec)
        elif task['part'] == 'd':
            _part_d(task, rec)
        elif task['part'] == 'e':
            _part_e(task, rec)
    finally:
        unpatch()
    return rec.result()


def _part_a(task, rec):
    evs = events(task['scaled'])
    rest = task['depth'] - len(task['prefix'])
    first = True
    for tail in itertools.product(evs, repeat=rest):
        hist = [tuple(e) for e in task['prefix']] + list(tail)
        _, _, bad = run_history(hist, rec, None)
        if first:
            rec.sample(dict(part='a', history=hist))
            first = False
        if bad:
            i, (clause, detail) = bad
            h = hist[: i + 1]
            rec.violation(f'C15|{clause}' if clause.startswith('evaluation-raises') else f'C15|{clause}|pattern={pattern(h)}',
                          f'{clause} after evaluation history {[e[0] for e in h]}: {detail}',
                          dict(part='a', history=[list(e) for e in h]), observed=detail)


def _recorder(b, on_eval):
    orig = b.calculate_likelihood_and_derivatives

    def wrapped(x, scaled, hessian=False, bhhh=False, batch=None):
        out = orig(x, scaled=scaled, hessian=hessian, bhhh=bhhh, batch=batch)
        on_eval(x, out)
        return out

    b.calculate_likelihood_and_derivatives = wrapped


BOUNDS = {
    'none': None,
    'active': {0: (None, 0.6), 1: (None, None)},   # free optimum has b1 ~ 0.7: upper bound active
    'wide': {0: (-10, 10), 1: (-10, 10)},
    'lower': {0: (0.0, None), 1: (-5.0, None)},
}


class _Interrupted(Exception):
    pass


def _part_b(task, rec):
    import numpy as np

    clean_real()
    boot = task.get('boot')
    runs = [None] if not boot else boot
    for bv in runs:
        clean_real()
        extra = {'max_iterations': 40}   # the trace is what matters here, not convergence
        if bv is not None:
            extra['bootstrap_samples'] = 1
        interrupt = task.get('interrupt')
        if interrupt:
            extra['max_iterations'] = 1
            extra['bootstrap_samples'] = 2
        b = make_biogeme(start=tuple(task['start']), bounds=BOUNDS[task['bounds']], algo=task['algo'], extra=extra, spikes=False)
        ref = RefModel()
        phase = {'boot': False}
        state = {'bad': None, 'n': 0}
        cur = {'x': X, 'y': Y}

        def on_eval(x, out, b=b, ref=ref):
            p = tuple(float(v) for v in x)
            if phase['boot'] and interrupt:
                state['boot_evals'] = state.get('boot_evals', 0) + 1
                if state['boot_evals'] == interrupt:
                    raise _Interrupted()
            if not phase['boot']:
                f, fin = ref_ll(p)
                g = np.asarray(out.gradient, dtype=float)
                fin = fin and bool(np.isfinite(np.linalg.norm(g)))
                ref.evaluate(p, f, fin)
            content = read_file()
            res = check_file(content, ['b1', 'b2'], ref, tol=1e-12)
            state['n'] += 1
            rec.case(('b', task['algo'], task['bounds'], tuple(task['start']), tuple(bv) if bv else None, state['n']),
                     (p, content), outcome=(phase['boot'], res is None))
            if res and state['bad'] is None:
                state['bad'] = (state['n'], phase['boot'], res)

        _recorder(b, on_eval)
        saved = None
        if bv is not None:
            import numpy.random as npr
            saved = npr.randint

            def fake_randint(low, high=None, size=None, **kw):
                phase['boot'] = True
                return np.array(bv, dtype=int)

            npr.randint = fake_randint
        try:
            try:
                b.estimate(run_bootstrap=bv is not None)
            finally:
                if saved is not None:
                    import numpy.random as npr
                    npr.randint = saved
        except Exception as e:  # an optimiser failing on this problem is not C15's business
            rec.count('estimate_raised_' + type(e).__name__)
        if interrupt:
            # the caller caught the interruption and goes on with the same object: a longer estimation
            rec.count('bootstrap_interrupted' if state.get('boot_evals', 0) >= interrupt else 'bootstrap_not_reached_interrupt')
            phase['boot'] = False
            try:
                b.max_iterations = 40
                b.estimate()
            except Exception as e:
                rec.count('second_estimate_raised_' + type(e).__name__)
        # the history continues on the same object: points far worse than the best one, evaluated after the
        # estimation (as check_derivatives or a user would do), must not replace the file
        try:
            phase['boot'] = False
            for pn in ('P5', 'P6'):
                b.calculate_likelihood_and_derivatives(np.array(POINTS[pn], dtype=float), scaled=False)
        except Exception as e:
            rec.count('post_estimate_evaluation_raised_' + type(e).__name__)
        rec.sample(dict(part='b', algo=task['algo'], bounds=task['bounds'], boot=bv, evaluations=state['n']))
        if state['bad']:
            n, inboot, (clause, detail) = state['bad']
            where = 'bootstrap-phase' if inboot else 'optimisation'
            if interrupt:
                where += '-after-interrupted-bootstrap'
            rec.violation(f'C15|{clause}|trace:{where}',
                          f'{clause} during {where} of estimate() [algo={task["algo"]} bounds={task["bounds"]} '
                          f'boot={bv} interrupt={interrupt}] at evaluation #{n}: {detail}',
                          dict(part='b', algo=task['algo'], bounds=task['bounds'], start=task['start'],
                               boot=[bv] if bv else None, interrupt=interrupt), observed=detail)


def _part_e(task, rec):
    """Histories that rename the model between evaluations: iterations are saved under the name in force when they are
    saved (first name: the library's default or an explicit one; evaluations before / after the renaming)."""
    import numpy as np

    def content(name):
        try:
            with open(f'__{name}.iter', 'rb') as f:
                return f.read()
        except FileNotFoundError:
            return None

    for first_name in (None, 'first15'):
        for hist in itertools.product(['P0', 'P1', 'P6'], ['P1', 'P3', 'P0'], ['P5', 'P3']):
            clean_real()
            b = make_biogeme()
            if first_name is None:
                b.modelName = 'biogemeModelDefaultName'
                name1 = 'biogemeModelDefaultName'
            else:
                b.modelName = name1 = first_name
            ref = RefModel()
            p = POINTS[hist[0]]
            b.calculate_likelihood_and_derivatives(np.array(p, dtype=float), scaled=False)
            ref.evaluate(p, *ref_ll(p))
            c1 = content(name1)
            b.modelName = MODEL_NAME
            bad = None
            for pn in hist[1:]:
                p = POINTS[pn]
                best_before = ref.best_f
                b.calculate_likelihood_and_derivatives(np.array(p, dtype=float), scaled=False)
                f, fin = ref_ll(p)
                ref.evaluate(p, f, fin)
                improved = fin and (best_before is None or f >= best_before)
                cur = content(MODEL_NAME)
                if improved:
                    # a save happened now: it must be under the current name and hold the best point
                    res = check_file(cur, ['b1', 'b2'], ref)
                    if res:
                        bad = (f'after-renaming:{res[0]}', f'history {hist}, first name {name1}: file of the current name {MODEL_NAME}: {res[1]}')
                        break
                if content(name1) != c1:
                    bad = ('file-of-the-former-name-rewritten', f'history {hist}: __{name1}.iter changed from {c1!r} to {content(name1)!r} after the renaming')
                    break
            rec.case(('e', first_name, hist), (first_name, hist, content(MODEL_NAME), c1), outcome=bad is None)
            if bad:
                rec.violation(f'C15|{bad[0]}|rename', bad[1], dict(part='e'), observed=bad[1])
    rec.sample(dict(part='e', histories='evaluate, rename the model, evaluate twice'))
    clean_real()
    for fn in os.listdir('.'):
        if fn.endswith('.iter'):
            os.remove(fn)


class _Stop(Exception):
    pass


def _first_eval_of_estimate(b, entry='estimate'):
    """Runs estimate() up to the moment the library hands its starting values to the optimiser
    (public method BIOGEME.optimize); returns them.  (Optimisers may project the start onto their
    own box, e.g. +-sqrt(max float) - that is outside the library and outside this property.)"""
    import numpy as np
    seen = {}

    def wrapped(starting_values=None):
        sv = b.id_manager.free_betas_values if starting_values is None else starting_values
        seen['x'] = [float(v) for v in np.asarray(sv, dtype=float)]
        raise _Stop()

    b.optimize = wrapped
    try:
        if entry == 'estimate':
            b.estimate()
        elif entry == 'estimate(recycle=True)':      # no results file of the model exists: a real estimation is made
            b.estimate(recycle=True)
        elif entry == 'recycled_estimation':
            b.recycled_estimation()
        else:
            raise KeyError(entry)
    except _Stop:
        pass
    return seen


RESTART_ENTRIES = ('estimate', 'estimate(recycle=True)', 'recycled_estimation')


def _part_c(task, rec):
    import numpy as np
    names = NAME_POOL[task['names']]
    snames = sorted(names)
    vals = VALUE_POOL
    first = True
    for va, vb in itertools.product(vals, repeat=2):
        clean_real()
        b = make_biogeme(names=names, extreme=True)
        # the library's x vector is in sorted-name order
        x = [va, vb]
        arg = x if all(isinstance(v, int) for v in x) else np.array(x, dtype=float)
        try:
            out = b.calculate_likelihood_and_derivatives(arg, scaled=False)
            fin = bool(np.isfinite(np.linalg.norm(out.gradient)))
        except Exception as e:
            rec.count('c_eval_raised_' + type(e).__name__)
            continue
        content = read_file()
        case = dict(part='c', names=task['names'], values=[va, vb])
        if first:
            rec.sample(case)
            first = False
        if not fin:
            rec.case(None, ('c', names, x, 'nonfinite'), outcome='nonfinite')
            continue
        ref = RefModel()
        ref.evaluate(tuple(float(v) for v in x), 0.0, True)
        # file check with names in sorted order (x is already in that order)
        bad = None
        if content is None:
            bad = ('file-missing-after-finite-evaluation', '')
        else:
            parsed = parse_strict(content, snames)
            if isinstance(parsed, str):
                bad = ('file-incomplete-or-malformed', parsed + ' :: ' + repr(content[:160]))
            else:
                got = [bits(parsed[n]) for n in snames]
                if got != [bits(v) for v in x]:
                    bad = ('file-values-not-bit-exact', f'wrote {content!r} for {x!r}')
        rec.case(('c', names, tuple(x)), (names, x, content), outcome=bad is None)
        nkey = f'names#{task["names"]}' if task['names'] >= 2 else 'plain-names'
        if bad:
            rec.violation(f'C15|{bad[0]}|restart:{nkey}', f'{bad[0]} names={names} values={x}: {bad[1]}', case,
                          observed=bad[1])
            continue
        # restart, through every entry point that launches an estimation of the model
        for entry in RESTART_ENTRIES:
            if entry != 'estimate':
                # the other entry points: same file, put back as it was (an estimation may rewrite it)
                write_file(content)
            b2 = make_biogeme(names=names, extreme=True)
            ekey = nkey if entry == 'estimate' else f'{nkey}:entry={entry}'
            try:
                seen = _first_eval_of_estimate(b2, entry)
            except Exception as e:
                rec.violation(f'C15|restart-raises-{type(e).__name__}|restart:{ekey}',
                              f'{entry} of the same model raised {type(e).__name__}: {e} when restarting from a complete '
                              f'file {content!r}', dict(case, entry=entry), observed=repr(e))
                continue
            rec.case(('c-restart', names, tuple(x), entry), (names, x, entry, seen.get('x')), outcome=('restart', entry))
            if [bits(v) for v in seen.get('x', [])] != [bits(v) for v in x]:
                rec.violation(f'C15|restart-not-from-saved-values|restart:{ekey}',
                              f'{entry}: restart began at {seen.get("x")} instead of the saved {x} (names {names})', dict(case, entry=entry),
                              expected=x, observed=seen.get('x'))


def _part_d(task, rec):
    import numpy as np
    from vf.fakefs import FakeFS

    hist = task['history']
    clean_real()
    fs = FakeFS()
    b = make_biogeme(fs=fs)
    ref_states = []  # reference model snapshot after each evaluation
    op_marks = []    # len(fs.log) after each evaluation
    ref = RefModel()
    for pn in hist:
        p = POINTS[pn]
        b.calculate_likelihood_and_derivatives(np.array(p, dtype=float), scaled=False)
        f, fin = ref_ll(p)
        ref.evaluate(p, f, fin)
        ref_states.append((ref.best_f, list(ref.best_pts), list(ref.evaluated)))
        op_marks.append(len(fs.log))
    unpatch()
    if os.listdir('.'):
        raise RuntimeError(f'in-memory seam bypassed: real files appeared {os.listdir(".")}')
    rec.sample(dict(part='d', history=hist, log=[(op[0],) + tuple(str(o)[:40] for o in op[1:]) for op in fs.log]))
    f_start, _ = ref_ll(POINTS['P0'])
    final_images = {0: FakeFS().files}
    for j, m in enumerate(op_marks):
        final_images[j + 1] = fs.image_after(m)
    for label, image in fs.crash_images():
        # number of operations completed -> evaluations completed
        k = int(label.split('_')[2]) if label.startswith('after_op_') else int(label.split('_')[1])
        done = sum(1 for m in op_marks if m <= k)
        # acceptable: the state after `done` evaluations, or after done+1 (save in progress completed logically)
        content = image.get(ITER)
        verdicts = []
        for j in (done, min(done + 1, len(hist))):
            r = RefModel()
            if j > 0:
                r.best_f, r.best_pts, r.evaluated = ref_states[j - 1]
            verdicts.append(check_file(content, ['b1', 'b2'], r))
        # "no file" is always acceptable after a crash (statement: either no file or a complete file)
        bad = None
        if content is not None and all(v is not None for v in verdicts):
            bad = verdicts[-1]
        nontrivial = image != final_images[done] and image != final_images.get(done + 1)
        rec.case(('d', tuple(hist), label) if nontrivial or content is not None else None,
                 (hist, label, sorted(image.items())), outcome=(content is None, bad is None))
        rec.count('crash_images')
        rec.transition()
        case = dict(part='d', history=hist, crash=label)
        if bad:
            kind = 'mid-write' if '_cut_' in label else 'between-operations'
            rec.violation(f'C15|crash-image:{bad[0]}|{kind}',
                          f'process stopped at {label} of history {hist}: {bad[0]}: {bad[1]}', case, observed=bad[1])
            continue
        # recovery from the image
        fs2 = FakeFS({k_: v for k_, v in image.items()})
        try:
            b2 = make_biogeme(fs=fs2)
            seen = _first_eval_of_estimate(b2)
        except Exception as e:
            unpatch()
            rec.violation(f'C15|recovery-raises-{type(e).__name__}|crash-image',
                          f'estimate() after a stop at {label} of history {hist} raised {type(e).__name__}: {e}; '
                          f'image={ {k_: v for k_, v in image.items()} }', case, observed=repr(e))
            continue
        unpatch()
        if content is not None:
            parsed = parse_strict(content, ['b1', 'b2'])
            want = [parsed['b1'], parsed['b2']]
        else:
            want = list(POINTS['P0'])
        if [bits(v) for v in seen.get('x', [])] != [bits(v) for v in want]:
            rec.violation('C15|recovery-not-from-saved-values|crash-image',
                          f'after a stop at {label} of {hist} the restart began at {seen.get("x")}, file says {want}',
                          case, expected=want, observed=seen.get('x'))
        else:
            f_re, fin_re = ref_ll(tuple(seen['x']))
            if not fin_re or f_re < f_start:
                rec.violation('C15|recovery-below-original-start|crash-image',
                              f'after a stop at {label} of {hist} the restart began at f={f_re} < original start {f_start}',
                              case, expected=f_start, observed=f_re)


# --------------------------------------------------------------------------- BFS to a fixpoint
def bfs_depth(tier):
    return 8 if tier == 'quick' else 14


def bfs_roots(tier, seed):
    return ['modelA']


def bfs_expand(task):
    rec = Rec()
    hist = [tuple(e) for e in task['history']]
    succ = []
    for ev in events(True):
        h = hist + [ev]
        b, ref, bad = run_history(h, None, None)
        content = read_file()
        rec.case(('bfs', tuple(h)) if content is not None else None, (h, content), outcome=(content, bad is None))
        rec.transition()
        if bad:
            i, (clause, detail) = bad
            hh = h[: i + 1]
            rec.violation(f'C15|{clause}|pattern={pattern(hh)}',
                          f'{clause} after evaluation history {[e[0] for e in hh]}: {detail}',
                          dict(part='a', history=[list(e) for e in hh]), observed=detail)
            continue
        marker = getattr(b, 'bestIteration', None)
        scal = tuple(sorted((k, repr(v)) for k, v in vars(b).items()
                            if isinstance(v, (int, float, str, bool, type(None))) and k not in ('drawsProcessingTime',)))
        canon = repr((marker, content, ref.best_f, sorted(ref.best_pts), scal))
        succ.append(dict(event=list(ev), canon=canon))
    if not hist:
        rec.sample(dict(part='bfs', expanded=[], successors=len(succ)))
    out = rec.result()
    out['succ'] = succ
    return out


# --------------------------------------------------------------------------- replay
def replay(case):
    rec = Rec()
    part = case['part']
    try:
        if part == 'a':
            hist = [tuple(e) for e in case['history']]
            _, _, bad = run_history(hist, None, None)
            if bad:
                i, (clause, detail) = bad
                rec.violation(f'C15|{clause}|pattern={pattern(hist[:i + 1])}', f'{clause}: {detail}', case, observed=detail)
        elif part == 'b':
            _part_b(dict(part='b', algo=case['algo'], bounds=case['bounds'], start=case['start'], boot=case['boot'], interrupt=case.get('interrupt')), rec)
        elif part == 'c':
            # replays the whole name pool entry (cheap); reports matching violations
            _part_c(dict(part='c', names=case['names']), rec)
            rec.violations = [v for v in rec.violations if v['case'].get('values') == case.get('values')] or rec.violations
        elif part == 'e':
            _part_e(case, rec)
        elif part == 'd':
            _part_d(dict(part='d', history=case['history']), rec)
            rec.violations = [v for v in rec.violations if v['case'].get('crash') == case.get('crash')] or rec.violations
    finally:
        unpatch()
    return rec.violations
