"""C11 — every named draw type delivers the distribution and structure it advertises.

Bounded exhaustive exploration of the catalogue `biogeme.native_draws.native_random_number_generators`
on the real code, with the library's randomness *owned*:

  numpy.random.uniform / numpy.random.shuffle (the only RNG functions biogeme.draws calls) are replaced,
  inside the worker, by an answer tape.  The uniform numbers handed to the library come from a fixed family
  of deterministic tapes (value alphabets selected by VERIF_SEED); the answer of every shuffle is enumerated:
  all n! permutations when the shuffled vector has n <= 5 entries (<= 120 answers), otherwise the fixed family
  {identity, reversal, every adjacent transposition, every rotation}.  The other legacy ways of obtaining the same
  kinds of answers are owned by the same tape: random / random_sample / ranf / sample / rand (the U[0,1) source),
  permutation (a rearranged copy) and choice.  A choice WITHOUT replacement is a rearrangement; for a choice WITH
  replacement every tuple of indices is a legal answer of the RNG: as soon as a run consumed one, the answers that
  are not rearrangements are enumerated too (all n^n - n! for n <= 3, else one element n times (first / last) and
  one repetition at the start / middle / end) - a generator that 'shuffles' by drawing with replacement loses
  elements of the Halton window / leaves strata empty under those answers.  Any other numpy.random function is
  trapped (calling it is a harness error: unowned randomness).

Parts
  gen    all catalogue entries x sizes (N, R) x tapes x shuffle answers: shape, support, Halton = radical inverse
         of the *advertised* base after the *advertised* skip (both parsed from the description text), MLHS strata,
         antithetic mirror, symmetric = 2u-1 of the unit partner under the same tape, normal variants = Phi^-1 of
         the underlying uniforms, different advertised bases => different sequences; the same through
         Database.generate_draws.
  q      the quantile transform draws.get_normal_wichura_draws(uniform_numbers=u) on an exhaustive grid
         u = (k + theta)/2^m, all tails 2^-j and 1 - 2^-j, and the ulp-neighbourhoods of every branch point,
         against a certified reference quantile (vf.ref_draws.norm_ppf), cross-checked with scipy.special.ndtri; plus the
         regular probability grids k/20, k/40, k/200, k/1000 (the doubles of decimal literals: 0.45, 0.425, 0.075 ... sit
         bit for bit on decimal limits between pieces).  An inaccurate point is keyed by its region and by whether the
         delivered number is the value of the published AS241 pieces under the piece selection |u| <= 0.45 of the open
         finding (key kept) or some other number ('...|not-the-as241-value'), so that no other defect of the transform
         hides behind the open finding.
  hskip  entries that advertise a base but no skip: one and the same skip must fit every size.
  hd     draws.get_halton_draws directly: more bases / skips / symmetric / shuffled (owned shuffle; whatever the RNG
         answers, the shuffled series is a rearrangement of the window).
  lhs    draws.get_latin_hypercube_draws / get_antithetic directly with explicit uniform numbers, supplied in every
         array form of the right total size (vector, (N, R) table, (R, N) table, column, row, strided view) and through
         the keyword uniform_numbers, its old name uniformNumbers and the deprecated alias getLatinHypercubeDraws.
  shape  Database.generate_draws shape enforcement with user generators returning wrong / right shapes.
  hist   histories of requests in ONE process (the statement holds whatever was requested before and whatever the
         caller did with the arrays it was given): every ordered pair (thorough: also every ordered triple) of
         catalogue entries x ordered pairs of sizes (same / different / same total, other shape) x entry point per step
         (catalogue generator, Database.generate_draws on a Database kept through the history) x the caller's in-place
         post-processing of the answer it received (none, multiply by 0, reshape in place to 1-D); the same request
         repeated 3 (4) times; two variables in one generate_draws call; bind: k = 2 (all ordered pairs of entries) and
         k = 3 (quick: ordered triples of a menu of 7 entries, thorough: all 21^3) variables of ONE request x every order of
         the list of names x every insertion order of the dictionary of types x an additional dictionary entry that is
         not asked for (none / inserted first / last), through Database.generate_draws and through the library's own
         caller (a formula of bioDraws terms handed to IdManager, which sorts the names): the slice of every variable
         must hold the draws of the type requested for THAT variable; ureg: histories of 1..2 (thorough 3) registrations
         of user-defined generators on ONE Database (valid name / name differing by case only / empty / the reserved name
         of the entry requested afterwards / another reserved name / valid + reserved in both insertion orders x old
         tuple format or RandomNumberGeneratorTuple x set_random_number_generators or the deprecated alias; accepted or
         refused), the catalogue entry being requested through that Database after every registration (alone, or together
         with a variable of the user's type when one is registered): it must deliver what it advertises and what the
         catalogue generator delivers under the same RNG answers.  Every answer of every step is checked against
         every clause of part gen.  Each hist task runs in a worker process of its own, so that the process history
         of a case is exactly the task's histories before it (recorded in the case; replay re-executes them).
"""
from __future__ import annotations

import hashlib
import itertools
import math
import os
import re
from fractions import Fraction

from vf.rec import Rec
from vf import ref_draws as R_

ID = 'C11'
LEVEL = 'exploration'
TECHNIQUE = ('bounded exhaustive enumeration of catalogue entries x sizes x owned RNG answers (uniform tapes, all/'
             'family of shuffle permutations, index tuples of a selection with replacement), of the array forms and '
             'keywords in which a caller supplies uniform numbers to the Latin-hypercube generator, of all request histories of depth 2 (3) over the catalogue x sizes x entry '
             'points x in-place caller actions in one process, of all requests of 2 (3) variables x orders of the names x '
             'insertion orders of the dictionary of types x entry points (Database.generate_draws, IdManager), of all histories of 1-2 (3) '
             'registrations of user-defined generators (valid / reserved names x formats x methods) on one Database before a request, and of an exhaustive grid of uniform inputs for the quantile transform, '
             'executed on the real generators and compared with an independent reference (exact radical inverse, '
             'strata, mirrors, certified erf/erfc Newton quantile)')
RULE = ('gen: one case per (catalogue entry, N, R, uniform tape, shuffle answer); N x R from the tier\'s size grid '
        '(quick N in {1,2,3,5} x R in {1,2,3,4,6,10}; thorough N in {1,2,3,4,5,7} x R in {1,2,3,4,5,6,8,10,12,16,20,50}; '
        'odd R only for non-antithetic entries, the others counted as out of domain); tapes: the seed\'s family of 9 '
        'deterministic uniform tapes (Halton entries consume none: 1 case); shuffle answers: all n! permutations when '
        'the shuffled part has n <= 5 entries, else identity, reversal, every adjacent transposition and every rotation '
        '(all tapes x {identity, reversal}, first two tapes x the rest); the first case of every (entry, N, R) also '
        'through Database.generate_draws; size sweeps ("any requested size"): every catalogue entry for every number of '
        'draws 1..128 (thorough 400) with one observation and, where 7 divides it, 7 observations (first tape, first answer), '
        'and get_latin_hypercube_draws for EVERY total size 1..256 (thorough 1024) as (1, T) and (7, T/7) (2 tapes x identity / '
        'reversal x symmetric); a legal request that raises is a violation; non-trivial = N*R >= 2; distinct = distinct (entry, N, R, tape, answer). '
        'q: one case per (path, uniform input u): every u = (k+theta)/2^m (m = 16 quick / 19 thorough, theta by seed), '
        'every 2^-j (15 <= j <= 1020) and 1-2^-j (j <= 53) with small multiples, +-0..8 ulp and +-2^-j '
        'neighbours of 0.075, 0.425, 0.45, 0.5, 0.55, 0.575, 0.925, e^-25, 1-e^-25, a 399-point comb and the regular grids '
        'k/20, k/40, k/200, k/1000 (not shifted by the seed: the doubles of decimal literals); the grid '
        'through the flat path, tails/branch points also through the (N, R)-shaped and the antithetic path; all '
        'non-trivial. hskip: one case per (entry without advertised skip, N, R). hd: get_halton_draws for bases '
        '{2,3,5,7[,11,13]} x skips x sizes with N*R <= 20 (60) x symmetric x {unshuffled, shuffled with every answer '
        '(n <= 5) / a family of ~8 answers}; when the run consumed a selection with replacement, also the answers that '
        'are not rearrangements (all n^n - n! for n <= 3, else 5) - the same extension in gen (first tape) and lhs. '
        'lhs: get_latin_hypercube_draws with explicit uniform numbers (every tape) x '
        'symmetric x shuffle answers, the numbers supplied as a vector through uniform_numbers (every shuffle answer of '
        'the family) and as {(N, R) table, (R, N) table, column, row, strided vector view} through uniform_numbers, '
        '{vector, (N, R) table} through the old keyword uniformNumbers and through the alias getLatinHypercubeDraws '
        '(3 shuffle answers each: one point per stratum, at the supplied positions, shape, no further RNG call; finding '
        'keys C11|lhs-generator-explicit-uniforms|symmetric=..,form=..), get_antithetic with a deterministic generator. '
        'q: the special points also as a one-dimensional vector. shape: Database.generate_draws '
        'with user generators returning 7 shapes x 6 sizes. hist: one case per step of a history of requests made in one '
        'process; a step = (entry, N, R, entry point in {generator, Database.generate_draws on one Database per sample '
        'size kept through the history}, what the caller then does in place with the array it received in {nothing, '
        'multiply by 0, reshape to 1-D}); RNG answers fixed by the position of the step (tapes weyl, ramp, weyl2, ramprev; '
        'shuffle answers rot1, rev, id, swap0). h2: all ordered pairs of entries (21 x 21) x ordered size pairs (quick: '
        '(2,2)(2,2), (3,4)(3,4), (2,2)(3,4), (3,4)(2,2), (3,4)(2,6); thorough: all 16 pairs of {(1,2),(2,2),(3,4),(2,6)}) x '
        '(entry point, entry point) in {gen-gen, db-db} (thorough also gen-db, db-gen) x caller action after step 1 '
        '(3 for gen, {nothing, multiply by 0} for db); rep: every entry x size x entry point x caller action, the same '
        'request 3 (thorough 4) times; multi: all ordered pairs of entries as two variables of ONE generate_draws call x '
        'sizes; h3 (thorough): all ordered triples of entries x sizes (s,s,s), (s,s\',s) x {gen, db} x caller action after '
        'every step in {nothing, reshape} (gen) / {nothing, multiply by 0} (db); bind: one case per (ordered k-tuple of '
        'entries, size, entry point, order of the list of names = one of the k! assignments of the seed\'s k variable '
        'names to the entries, insertion order of the dictionary of types = one of k!, additional dictionary entry not asked '
        'for in {none, first, last}); k = 2: all 21 x 21 pairs x the tier\'s hist sizes; k = 3: triples of the menu '
        '{UNIFORM, UNIFORM_ANTI, UNIFORM_HALTON2, UNIFORMSYM_HALTON3, UNIFORMSYM_MLHS, NORMAL_HALTON5, NORMAL_MLHS_ANTI} '
        'at (2,2) (thorough: (3,4), (2,6)) and, thorough only, all 21^3 triples at (2,2); entry points Database.'
        'generate_draws (k! x k! x 3 cases) and IdManager([sum of bioDraws(name, type)], database, R) (k! cases: the '
        'library orders the names itself, the slice of a variable is the one at IdManager.draws.indices[name]); all '
        'requests of a task go to one Database per sample size; the slice of every variable must be what its entry '
        'delivers when asked alone under the same continuing RNG answers, for some order (of the k!) in which the '
        'generators consumed them (finding keys C11|history|db-path-variable-binding|..., C11|history|db-path-several-'
        'variables|...). ureg: one case per prefix of a history of registrations of user-defined generators on one new '
        'Database followed by the request of a catalogue entry through it; a registration = (dictionary in {MINE, entry '
        'name in lower case, empty, the entry\'s own reserved name, the next entry\'s reserved name, MINE + reserved, '
        'reserved + MINE}, format in {tuple, RandomNumberGeneratorTuple}, method in {set_random_number_generators, '
        'setRandomNumberGenerators}) = 28 ops, the user generator returning a constant (7.0 / 0.5 by position) without '
        'touching the RNG; depth 1: all 28 ops x 21 entries x sizes (quick (2,2), (3,4); thorough the 4 hist sizes); '
        'depth 2: quick 14 x 14 ops (formats/methods (tuple, new), (named, old)), thorough all 28 x 28, x 21 entries at '
        '(2,2); depth 3 (thorough): 7^3 dictionaries (tuple, new) x 21 entries at (2,2); the entry is requested after '
        'EVERY registration, together with a variable of type MINE (alternating order of the names) when the last '
        'accepted dictionary holds MINE (finding keys C11|history|<clause>|type=<entry>, C11|history|db-path|type=<entry>). '
        'Every answer is checked with all the '
        'clauses of part gen (finding keys C11|history|<clause>|type=<entry>); distinct = distinct history prefix.')
ASSUMPTIONS = [
    'biogeme.draws obtains randomness only through numpy.random.uniform and numpy.random.shuffle looked up on the '
    'numpy.random module at call time (the owned seam); other legacy numpy.random functions are trapped and reported '
    'as a harness error if called; numpy.random.random / random_sample / ranf / sample / rand, permutation and choice '
    'are owned by the same tape (choice with replacement: answers that are not rearrangements are enumerated only '
    'after a run consumed such a selection, from a family of 5 when more than 3 elements are selected; the '
    'probabilities argument p of choice is ignored: every index tuple is taken as a possible answer)',
    'part lhs: the uniform numbers are supplied as C-contiguous arrays or a strided one-dimensional view; a '
    'two-dimensional array in Fortran order (which the library cannot reshape in place: AttributeError) is outside '
    'the explored domain; for the forms other than the vector the oracle is the statement (one point per stratum) plus '
    'the multiset of the positions inside the strata, not the order of the points',
    'uniform answers come from a fixed finite family of tapes with values in [2^-20, 1-2^-20] (plus AS241 branch '
    'neighbours), not from all of (0,1); shuffle answers are complete only for n <= 5',
    'libm erf/erfc (math.erf, math.erfc) are accurate to a few ulp: the reference quantile is certified by a '
    'bracket of relative half-width 3e-15 evaluated with them, and cross-checked against scipy.special.ndtri',
    'quantile comparison tolerance 3e-14*max(1,|z|) (a correct AS241 is within 1e-15 of the reference on all grids); '
    'denormal inputs u < 2^-1020 are outside the grid',
    'an entry that advertises a base but no skip may use any skip in 0..64, the same for every size',
    'histories: depth 2 (quick) / 3 (thorough) over the whole catalogue, depth 3 / 4 for one repeated request; the '
    'caller\'s in-place actions are multiplication by 0 and in-place reshape to 1-D only; one process per hist task '
    '(task[\'fresh\']), process state older than the task is not explored; state kept outside the process (files) is '
    'not reset between tasks',
    'two variables in one generate_draws call are compared with the two entries asked alone under one continuing '
    'tape (the clauses themselves are evaluated on single requests)',
    'part bind: at most 3 variables in one request, variable names from the seed\'s set of 3 (+1) names; a BiogemeError '
    'for a dictionary of types that holds an entry which is not in the list of names is counted as a refusal '
    '(bind_superset_dictionary_refused), any other exception is a violation; the order in which generate_draws lets '
    'the generators consume the RNG is not prescribed (all k! orders are accepted, bind_generators_called_in_another_'
    'order counts the cases that needed another order than that of the slices); the numbering of the variables by '
    'IdManager is taken as delivered (IdManager.draws.indices), not checked here; IdManager is exercised without the '
    'engine (no formula is evaluated)',
    'part ureg: whether a registration is accepted or refused is counted, not judged; the user generator is a constant '
    'array that consumes no RNG answer; what generate_draws delivers for the user\'s own types is not checked (not the '
    'statement\'s subject); other operations on the Database (panel, remove, ...) are not part of the histories',
    'finding keys of the quantile clause: "is the value of the AS241 pieces under the piece selection |u| <= 0.45" is '
    'decided with a transcription of the published algorithm (vf.ref_draws.as241, verified in every run against the '
    'certified quantile to 5e-15 under the published selection) to 1e-14 (or 1e-4 of the own error of that value); this only chooses the key, whether a point '
    'is a violation is decided by the certified reference alone',
    'a Latin-hypercube case in which a point lies within 1e-9 (in stratum units) of a stratum boundary is skipped and '
    'counted (skipped_fragile_stratum_boundary; arises only for the tape that contains 1e-12 and 1-1e-12)',
]
ANCHOR_FILES = ['src/biogeme/draws.py', 'src/biogeme/native_draws.py', 'src/biogeme/database.py']
DETERMINISM_SLICE = 3

_SEED = int(os.environ.get('VERIF_SEED', '0') or 0)
TOL_STRUCT = 1e-12          # structural identities (same operations on both sides)
TOL_Q = 3e-14               # quantile accuracy, relative to max(1, |z|)
TOL_AS241 = 1e-14          # "is the value of the AS241 pieces" (same operations in the same order; numpy log/sqrt vs
#                            libm: measured <= 1.5e-15).  Kept below TOL_Q: a point that is off the reference by more than
#                            TOL_Q and within TOL_AS241 of the AS241 value is a point where that AS241 value itself is off.
MAX_UNADVERTISED_SKIP = 64

# --------------------------------------------------------------------------- value alphabets (by seed)
_SEEDSETS = [
    dict(weyl=0.6180339887498949, weyl2=0.41421356237309515, eps=2.0 ** -20, alt=(0.25, 0.75), theta=0.0),
    dict(weyl=0.7548776662466927, weyl2=0.5698402909980532, eps=2.0 ** -19, alt=(0.125, 0.875), theta=1.0 / 3.0),
    dict(weyl=0.8191725133961645, weyl2=0.6710436067037893, eps=3 * 2.0 ** -21, alt=(0.3, 0.7), theta=0.5),
    dict(weyl=0.2360679774997898, weyl2=0.7320508075688772, eps=2.0 ** -18, alt=(0.4375, 0.5625), theta=0.2),
    dict(weyl=0.3027756377319946, weyl2=0.1415926535897931, eps=5 * 2.0 ** -22, alt=(0.0625, 0.9375), theta=1.0 / 7.0),
    dict(weyl=0.4655712318767680, weyl2=0.8556343548213108, eps=7 * 2.0 ** -23, alt=(0.2, 0.8), theta=0.75),
    dict(weyl=0.5497004779019701, weyl2=0.3247179572447460, eps=2.0 ** -17, alt=(0.46, 0.54), theta=1.0 / 11.0),
    dict(weyl=0.6823278038280193, weyl2=0.9128709291752769, eps=3 * 2.0 ** -20, alt=(0.07, 0.93), theta=0.6),
]
SS = _SEEDSETS[_SEED % len(_SEEDSETS)]
_BRANCHY = [0.074, 0.076, 0.44, 0.46, 0.5, 0.54, 0.56, 0.924, 0.926, 1e-12, 1.0 - 1e-12, 0.0749999, 0.9250001,
            0.45, 0.075, 0.925, 0.425, 0.55, 0.575]   # ... and the decimal limits themselves, bit for bit
TAPES = ['weyl', 'ramp', 'mid', 'lo', 'hi', 'alt', 'branchy', 'weyl2', 'ramprev']


def tape_value(tid: str, j: int, n: int, call: int) -> float:
    """j-th number of a call asking for n numbers (call = index of the uniform call within one generator run)."""
    eps = SS['eps']
    if tid == 'weyl':
        v = math.fmod((j + 1 + 7 * call) * SS['weyl'], 1.0)
    elif tid == 'weyl2':
        v = math.fmod((j + 3 + 5 * call) * SS['weyl2'], 1.0)
    elif tid == 'ramp':
        v = (j + 0.5) / n
    elif tid == 'ramprev':
        v = (n - j - 0.5) / n
    elif tid == 'mid':
        v = 0.5
    elif tid == 'lo':
        v = eps * (1 + j % 3)
    elif tid == 'hi':
        v = 1.0 - eps * (1 + j % 3)
    elif tid == 'alt':
        v = SS['alt'][j % 2]
    elif tid == 'branchy':
        v = _BRANCHY[(j + _SEED) % len(_BRANCHY)]
    else:
        raise KeyError(tid)
    return min(max(v, 1e-12 if tid == 'branchy' else eps), 1.0 - (1e-12 if tid == 'branchy' else eps))


class UnownedRandomness(Exception):
    pass


# Owned seams: uniform (and its legacy aliases random / random_sample / ranf / sample / rand: the same source of U[0,1)
# numbers), shuffle, permutation and choice (the legacy ways of rearranging / selecting the elements of a vector).
_OWNED = ['uniform', 'shuffle', 'random', 'random_sample', 'ranf', 'sample', 'rand', 'permutation', 'choice']
_TRAPPED = ['randint', 'random_integers',
            'normal', 'standard_normal', 'randn', 'default_rng', 'seed', 'beta', 'triangular', 'bytes']


def realise_perm(spec, n):
    kind = spec[0]
    if kind == 'id' or n <= 1:
        return list(range(n)), True
    if kind == 'rev':
        return list(range(n - 1, -1, -1)), True
    if kind == 'swap':
        k = spec[1] % (n - 1)
        p = list(range(n))
        p[k], p[k + 1] = p[k + 1], p[k]
        return p, True
    if kind == 'rot':
        k = spec[1] % n
        return [(i + k) % n for i in range(n)], True
    if kind == 'perm':
        if len(spec[1]) == n:
            return list(spec[1]), True
        return list(range(n)), False
    if kind in ('map', 'const', 'dup'):
        return list(range(n)), False        # not a rearrangement: no legal answer of shuffle / permutation
    raise KeyError(kind)


def realise_selection(spec, n, m):
    """Answer of a selection WITH replacement of m elements out of n (numpy.random.choice(..., replace=True)): any
    tuple of m indices is a legal answer.  The rearrangement answers (prefix of the permutation, cyclically continued)
    plus ('map', [i_0..]) an explicit tuple, ('const', k) the same element m times, ('dup', k) the identity except
    that position k+1 repeats element k.  Returns (indices, applicable)."""
    kind = spec[0]
    if n <= 0:
        return [], False
    if kind == 'map':
        if len(spec[1]) == m and all(0 <= i < n for i in spec[1]):
            return list(spec[1]), True
        return [i % n for i in range(m)], False
    if kind == 'const':
        return [spec[1] % n] * m, True
    if kind == 'dup':
        idx = [i % n for i in range(m)]
        if m >= 2:
            k = spec[1] % (m - 1)
            idx[k + 1] = idx[k]
        return idx, True
    p, ok = realise_perm(spec, n)
    return [p[i % n] for i in range(m)], ok


def noninjective_alphabet(n):
    """Answers of a selection with replacement of n out of n that are NOT rearrangements: all of them for n <= 3
    (n^n - n!), else a family (one element n times: first / last; one repetition at the start / middle / end)."""
    if n <= 1:
        return [], True
    if n <= 3:
        return [('map', list(t)) for t in itertools.product(range(n), repeat=n) if len(set(t)) < n], True
    return [('const', 0), ('const', n - 1), ('dup', 0), ('dup', n // 2), ('dup', n - 2)], False


class Tape:
    """Deterministic, recording stand-in for numpy.random inside one generator run."""

    def __init__(self, tid, perm):
        self.tid, self.perm = tid, perm
        self.log = []        # ('uniform', n) / ('shuffle', n) / ('permutation', n) / ('choice', n, m, replace)
        self.u = []          # every uniform number handed out, in order
        self.calls = 0
        self.size_mismatch = 0
        self.seams = set()   # which kinds of RNG answers the code under test consumed

    def uniform(self, low=0.0, high=1.0, size=None):
        import numpy as np
        n = 1 if size is None else int(np.prod(size))
        vals = [tape_value(self.tid, j, n, self.calls) for j in range(n)]
        self.calls += 1
        self.log.append(('uniform', n))
        self.u.extend(vals)
        arr = np.array(vals, dtype=float)
        if low != 0.0 or high != 1.0:
            arr = low + (high - low) * arr
        if size is None:
            return float(arr[0])
        return arr.reshape(size)

    def shuffle(self, x):
        n = len(x)
        p, ok = realise_perm(self.perm, n)
        if not ok:
            self.size_mismatch += 1
        self.log.append(('shuffle', n))
        self.seams.add('rearrangement')
        x[:] = x[p]

    # legacy aliases of the U[0,1) source
    def random(self, size=None):
        return self.uniform(size=size)

    def rand(self, *dims):
        return self.uniform(size=dims if dims else None)

    def permutation(self, x):
        """numpy.random.permutation: a rearranged COPY (of arange(x) for an integer)."""
        import numpy as np
        a = np.arange(x) if isinstance(x, (int, np.integer)) else np.array(x)
        n = len(a)
        p, ok = realise_perm(self.perm, n)
        if not ok:
            self.size_mismatch += 1
        self.log.append(('permutation', n))
        self.seams.add('rearrangement')
        return a[p]

    def choice(self, a, size=None, replace=True, p=None):
        """numpy.random.choice.  Without replacement the answer is the first m elements of a rearrangement; with
        replacement ANY tuple of m indices is a legal answer of the RNG (the seam 'selection-with-replacement' is
        recorded, so that the caller of the run enumerates the answers that are not rearrangements as well)."""
        import numpy as np
        pop = np.arange(a) if isinstance(a, (int, np.integer)) else np.asarray(a)
        n = len(pop)
        m = 1 if size is None else int(np.prod(size))
        if replace:
            idx, ok = realise_selection(self.perm, n, m)
            if m >= 2:
                self.seams.add('selection-with-replacement')
        else:
            if m > n:
                raise ValueError('Cannot take a larger sample than population when replace is False')
            q, ok = realise_perm(self.perm, n)
            idx = q[:m]
            self.seams.add('rearrangement')
        if not ok:
            self.size_mismatch += 1
        self.log.append(('choice', n, m, bool(replace)))
        out = pop[idx]
        if size is None:
            return out[0]
        return out.reshape(size)


class owned:
    """Context manager: numpy.random.uniform / shuffle answer from the tape, everything else is trapped."""

    def __init__(self, tape):
        self.tape = tape

    def __enter__(self):
        import numpy.random as npr
        self.saved = {}
        for name in _OWNED + _TRAPPED:
            if hasattr(npr, name):
                self.saved[name] = getattr(npr, name)
        npr.uniform = self.tape.uniform
        npr.shuffle = self.tape.shuffle
        npr.permutation = self.tape.permutation
        npr.choice = self.tape.choice
        npr.rand = self.tape.rand
        for name in ('random', 'random_sample', 'ranf', 'sample'):
            if name in self.saved:
                setattr(npr, name, self.tape.random)

        def trap(name):
            def f(*a, **k):
                raise UnownedRandomness(f'numpy.random.{name} called by the code under test: the seam is not owned')
            return f

        for name in _TRAPPED:
            if name in self.saved:
                setattr(npr, name, trap(name))
        return self.tape

    def __exit__(self, *exc):
        import numpy.random as npr
        for name, f in self.saved.items():
            setattr(npr, name, f)
        return False


def perm_alphabet(n):
    """Shuffle answers for a shuffled vector of n entries (see RULE)."""
    if n <= 1:
        return [('id',)], True
    if n <= 5:
        return [('perm', list(p)) for p in itertools.permutations(range(n))], True
    out = [('id',), ('rev',)]
    out += [('swap', k) for k in range(n - 1)]
    out += [('rot', k) for k in range(1, n)]
    return out, False


# --------------------------------------------------------------------------- catalogue access
def catalogue():
    from biogeme.native_draws import native_random_number_generators as cat
    out = {}
    for name, entry in cat.items():
        adv = R_.parse_description(entry.description)
        adv['name'] = name
        adv['desc'] = entry.description
        out[name] = (entry.generator, adv)
    return out


def unit_partner(cat, adv):
    """Entry with the same advertised construction on the unit interval (for symmetric entries)."""
    for name, (_, a) in cat.items():
        if (not a['normal'] and a['support'] == (0.0, 1.0)
                and (a['anti'], a['halton'], a['base'], a['skip'], a['mlhs'])
                == (adv['anti'], adv['halton'], adv['base'], adv['skip'], adv['mlhs'])):
            return name
    return None


def unit_mlhs(cat):
    for name, (_, a) in cat.items():
        if not a['normal'] and a['support'] == (0.0, 1.0) and a['mlhs'] and not a['anti'] and not a['halton']:
            return name
    return None


def call_gen(gen, n, r, tid, perm):
    """Runs gen(n, r) under an owned tape.  Returns (array or None, tape, exception or None)."""
    tape = Tape(tid, perm)
    with owned(tape):
        try:
            out = gen(n, r)
            err = None
        except UnownedRandomness:
            raise
        except Exception as e:  # noqa: BLE001 - an exception on a valid size is an observation
            out, err = None, e
    return out, tape, err


def flat(a):
    import numpy as np
    return [float(v) for v in np.asarray(a, dtype=float).reshape(-1)]


def digest(a):
    import numpy as np
    return hashlib.sha1(np.ascontiguousarray(np.asarray(a, dtype=float)).tobytes()).hexdigest()[:12]


def close(a, b, tol=TOL_STRUCT):
    return abs(a - b) <= tol * max(1.0, abs(a), abs(b))


def all_close(xs, ys, tol=TOL_STRUCT):
    return len(xs) == len(ys) and all(close(a, b, tol) for a, b in zip(xs, ys))


# --------------------------------------------------------------------------- oracle pieces
def strata_check(points, n):
    """points: values in (0,1) of the generated part (n of them).  Returns (ok, fragile, detail)."""
    seen = [0] * n
    for g in points:
        x = Fraction(g) * n
        k = math.floor(x)
        frac = float(x - k)
        if frac < 1e-9 or frac > 1 - 1e-9:
            return True, True, 'point on a stratum boundary'
        if not 0 <= k < n:
            return False, False, f'point {g!r} outside (0,1)'
        seen[k] += 1
    if all(c == 1 for c in seen):
        return True, False, ''
    empty = [k for k, c in enumerate(seen) if c == 0][:4]
    multi = [k for k, c in enumerate(seen) if c > 1][:4]
    return False, False, f'strata without a point {empty}, strata with several {multi} (of {n})'


def quantile_errors(us, zs):
    """Per point: (u, z, zref, relerr).  Reference certified; may raise ReferenceNotCertified."""
    out = []
    for u, z in zip(us, zs):
        zr = R_.norm_ppf(u)
        out.append((u, z, zr, abs(z - zr) / max(1.0, abs(zr)) if math.isfinite(z) else float('inf')))
    return out


def report_quantile(rec, errs, case, where):
    """One violation per (AS241 region, kind of wrong value) in which some point is off; witness = first point, text
    carries the worst.

    The oracle is the statement alone (error against the certified reference quantile above TOL_Q).  The *finding key*
    names the witness: the region of (0,1) and whether the delivered number is the value which the published AS241
    pieces give when the central piece is selected by |u| <= 0.45 (R_.as241(u, 'abs_u_le_0.45'): the piece selection
    of the open finding 'C11|normal-quantile-inaccurate|region=...', whose keys are kept) or some OTHER number
    ('...|region=...|not-the-as241-value': a point that belongs to no piece, a wrong coefficient, another limit between
    the pieces, ...).  Without this distinction every other defect of the transform would hide behind the open finding in
    the three regions it affects."""
    bygroup = {}
    for u, z, zr, e in errs:
        if e > TOL_Q:
            model = R_.as241(u, 'abs_u_le_0.45')
            # "is that value": to TOL_AS241, or - where that value itself is far off the quantile, which is where the
            # extrapolated pieces are ill-conditioned and numpy's log may differ from libm's in the last bit - to
            # 1e-4 of its own error
            explained = math.isfinite(z) and abs(z - model) <= max(TOL_AS241 * max(1.0, abs(model)),
                                                                   1e-4 * abs(model - zr))
            bygroup.setdefault((R_.region(u), explained), []).append((u, z, zr, e, model))
    for (reg, explained), bad in bygroup.items():
        u, z, zr, e, model = bad[0]
        wu, wz, wzr, we, _ = max(bad, key=lambda t: t[3])
        c = dict(case)
        c['witness_u'] = float(u).hex()
        rec.count('quantile_points_off_as241_piece_selection' if explained else 'quantile_points_off_other_value',
                  len(bad))
        rec.violation(
            f'C11|normal-quantile-inaccurate|region={reg}' + ('' if explained else '|not-the-as241-value'),
            f'{where}: the normal draw for uniform input u={u!r} is {z!r}, the standard-normal quantile is {zr!r} '
            f'(error {e:.3g} relative to max(1,|z|), tolerance {TOL_Q:g}); {len(bad)} such point(s) in this case, '
            f'worst u={wu!r}: {wz!r} vs {wzr!r} (error {we:.3g})'
            + ('' if explained else f'; the delivered number is not even what the AS241 pieces give for this u when the '
               f'central piece is selected by |u| <= 0.45 ({model!r})'),
            c, expected=zr, observed=z)
    return bool(bygroup)


def lib_quantile(us, n=None, r=None, antithetic=False):
    """The library's transform applied to explicit uniform numbers."""
    import numpy as np
    import biogeme.draws as dr
    u = np.array(us, dtype=float)
    if n is None:
        n, r = 1, len(us)
    if antithetic:
        u = u.reshape(n, r)
        return dr.get_normal_wichura_draws(n, 2 * r, uniform_numbers=u, antithetic=True)
    u = u.reshape(n, r)
    return dr.get_normal_wichura_draws(n, r, uniform_numbers=u, antithetic=False)


def best_halton_match(vals):
    """Diagnostics only: which (base, skip) does a delivered window actually follow?"""
    for base in (2, 3, 5, 7, 11, 13):
        for skip in range(0, 40):
            if all_close(vals, R_.halton_window(base, skip, len(vals))):
                return base, skip
    return None


# --------------------------------------------------------------------------- part gen
def gen_cases_for(adv, n, r):
    """(tape id, shuffle answer) pairs explored for one entry at one size, and whether the answers are complete."""
    n_g = n * (r // 2 if adv['anti'] else r)
    tapes = TAPES if not adv['halton'] else TAPES[:1]
    if not adv['mlhs']:
        return [(t, ('id',)) for t in tapes], True
    perms, complete = perm_alphabet(n_g)
    if complete:
        return [(t, p) for p in perms for t in tapes], True
    out = [(t, p) for p in perms[:2] for t in tapes]
    out += [(t, p) for p in perms[2:] for t in tapes[:2]]
    return out, False


def check_entry_case(rec, cat, name, n, r, tid, perm, cache, via_db=False, hist=None):
    """Runs one catalogue entry once and evaluates every clause of the statement on the result.
    Returns the flat output (or None).

    hist (part hist): the request is one step of a history of requests made in one process.  dict(case=JSON case
    of the whole history, key=case key, producer=callable (n, r) -> array that performs the request (direct
    generator or Database.generate_draws), where=text describing what was requested before).  The clauses are
    the same; findings are keyed 'C11|history|<clause>|type=<entry>'."""
    gen, adv = cat[name]
    ckey = (name, n, r, tid, repr(perm))
    if hist is None:
        case = dict(part='gen', type=name, N=n, R=r, tape=tid, perm=list(perm))
        key = ckey
        pre, where = 'C11|', ''
        oc = name
    else:
        case, key, gen = hist['case'], hist['key'], hist['producer']
        pre, where = 'C11|history|', ' ' + hist['where']
        oc = ('hist', name)
    out, tape, err = call_gen(gen, n, r, tid, perm)
    cache.setdefault(('seams', name), set()).update(tape.seams)
    nt = key if n * r >= 2 else None
    if err is not None:
        rec.case(nt, (key, 'raised', type(err).__name__), outcome=(oc, 'raised'))
        rec.violation(f'{pre}generator-raises-{type(err).__name__}|type={name}',
                      f'{name} ({adv["desc"]!r}) raised {type(err).__name__}: {err} for sample size {n}, {r} draws'
                      + where, case, expected='an array of shape (N, R)', observed=repr(err))
        return None
    import numpy as np
    shape = tuple(getattr(out, 'shape', ()))
    ok_all = True

    def bad(clause, what, expected=None, observed=None, k=None):
        nonlocal ok_all
        ok_all = False
        if hist is not None:
            hist['clause_broken'] = True
        rec.violation(k or f'{pre}{clause}|type={name}', f'{name} ({adv["desc"]!r}) N={n} R={r} tape={tid} '
                      f'shuffle={perm}{where}: {what}', case, expected=expected, observed=observed)

    if not isinstance(out, np.ndarray) or shape != (n, r):
        rec.case(nt, (key, 'shape', shape), outcome=(oc, 'shape'))
        bad('shape', f'returned shape {shape} instead of ({n}, {r})', expected=[n, r], observed=list(shape))
        return None
    vals = flat(out)
    cache[ckey] = vals
    if tape.size_mismatch:
        rec.count('shuffle_size_unexpected')
    # ---- support
    if not all(math.isfinite(v) for v in vals):
        bad('support', 'non-finite entries', observed=[v for v in vals if not math.isfinite(v)][:3])
        rec.case(nt, (key, digest(out)), outcome=(oc, 'nonfinite'))
        return vals
    if adv['support'] is not None:
        lo, hi = adv['support']
        outside = [v for v in vals if not lo <= v <= hi]
        if outside:
            bad('support', f'{len(outside)} entries outside the advertised [{lo:g}, {hi:g}], e.g. {outside[:3]}',
                expected=[lo, hi], observed=outside[:3])
    half = r // 2
    rows = [vals[i * r:(i + 1) * r] for i in range(n)]
    gen_part = [v for row in rows for v in row[:half]] if adv['anti'] else vals
    n_g = len(gen_part)
    sym = adv['support'] == (-1.0, 1.0)
    # ---- antithetic: second half = mirror image of the first
    if adv['anti']:
        first = [row[:half] for row in rows]
        second = [row[half:] for row in rows]
        mirror = (lambda v: 1.0 - v) if adv['support'] == (0.0, 1.0) else (lambda v: -v)
        exp = [[mirror(v) for v in f] for f in first]
        if not all(all_close(e, s) for e, s in zip(exp, second)):
            bad('antithetic-mirror', 'the second half of the draws is not the mirror image of the first half',
                expected=exp[0][:4], observed=second[0][:4])
    # ---- underlying uniforms of the generated part
    u_ref = None          # the advertised underlying uniform numbers of the generated part (flat), when known exactly
    if adv['halton']:
        if adv['base'] is None:
            rec.count('halton_entry_without_advertised_base')
        elif adv['skip'] is not None:
            u_ref = R_.halton_window(adv['base'], adv['skip'], n_g)
        else:
            # skip not advertised: any single skip (consistency over sizes is part hskip)
            u_ref = None
    # ---- non-normal entries
    if not adv['normal']:
        unit = [(v + 1.0) / 2.0 for v in gen_part] if sym else gen_part
        if adv['halton'] and u_ref is not None:
            exp = [2.0 * v - 1.0 for v in u_ref] if sym else u_ref
            if not all_close(gen_part, exp):
                m = best_halton_match(unit)
                bad('halton-not-advertised-sequence',
                    f'not the radical-inverse sequence of base {adv["base"]} after skipping {adv["skip"]}'
                    + (f'; it follows base {m[0]} skip {m[1]}' if m else '; it follows no (base<=13, skip<40) window'),
                    expected=exp[:5], observed=gen_part[:5])
        if adv['mlhs']:
            ok, fragile, detail = strata_check(unit, n_g)
            if fragile:
                rec.count('skipped_fragile_stratum_boundary')
            elif not ok:
                bad('mlhs-strata', f'not exactly one point in each of the {n_g} equal strata of the generated part: '
                    + detail, observed=sorted(unit)[:6])
        if not adv['halton'] and not adv['mlhs']:
            # plain (pseudo-)uniform: a rearrangement of the RNG's numbers (mapped to the support)
            exp = sorted((2.0 * v - 1.0) if sym else v for v in tape.u)
            if not all_close(sorted(gen_part), exp):
                bad('uniform-not-the-rng-numbers', 'the generated part is not the set of numbers delivered by the '
                    'uniform RNG (mapped to the advertised support)', expected=exp[:5], observed=sorted(gen_part)[:5])
        if sym:
            p = unit_partner(cat, adv)
            if p is None:
                rec.count('symmetric_entry_without_unit_partner')
            else:
                pk = (p, n, r, tid, repr(perm))
                if pk not in cache:
                    o2, _, e2 = call_gen(cat[p][0], n, r, tid, perm)
                    cache[pk] = flat(o2) if e2 is None and getattr(o2, 'shape', None) == (n, r) else None
                pv = cache[pk]
                if pv is None:
                    rec.count('unit_partner_failed')
                else:
                    exp = [2.0 * v - 1.0 for v in pv]
                    if not all_close(vals, exp):
                        bad('symmetric-not-2u-1', f'differs from 2u-1 of the unit entry {p} under the same RNG answers',
                            expected=exp[:5], observed=vals[:5])
    # ---- normal entries
    else:
        if adv['halton']:
            if u_ref is None and adv['base'] is not None:
                cands = []
                for s in range(MAX_UNADVERTISED_SKIP + 1):
                    w = R_.halton_window(adv['base'], s, n_g)
                    if all_close(gen_part, flat(lib_quantile(w)), 1e-9) or \
                            all(e[3] <= 1e-6 for e in quantile_errors(w, gen_part)):
                        cands.append(s)
                if cands:
                    u_ref = R_.halton_window(adv['base'], cands[0], n_g)
                else:
                    m2 = None
                    for base in (2, 3, 5, 7, 11, 13):
                        for s in range(40):
                            if all_close(gen_part, flat(lib_quantile(R_.halton_window(base, s, n_g))), 1e-9):
                                m2 = (base, s)
                                break
                        if m2:
                            break
                    bad('normal-variant-not-quantile-of-advertised-uniforms',
                        f'not the normal quantiles of a base-{adv["base"]} radical-inverse window (any skip 0..'
                        f'{MAX_UNADVERTISED_SKIP})'
                        + (f'; it is the library\'s transform of base {m2[0]} skip {m2[1]}' if m2 else ''),
                        expected=f'Phi^-1(radical inverse base {adv["base"]})', observed=gen_part[:5])
        elif adv['mlhs']:
            um = unit_mlhs(cat)
            if um is None:
                rec.count('normal_mlhs_without_unit_entry')
            else:
                rr = half if adv['anti'] else r
                pk = (um, n, rr, tid, repr(perm))
                if pk not in cache:
                    o2, _, e2 = call_gen(cat[um][0], n, rr, tid, perm)
                    cache[pk] = flat(o2) if e2 is None and getattr(o2, 'shape', None) == (n, rr) else None
                u_ref = cache[pk]
        else:
            u_ref = list(tape.u) if len(tape.u) == n_g else None
            if u_ref is None:
                rec.count('normal_entry_unexpected_rng_use')
        if u_ref is not None:
            errs = quantile_errors(u_ref, gen_part)
            if any(e[3] > TOL_Q for e in errs):
                lib = flat(lib_quantile(u_ref))
                if all_close(lib, gen_part, 1e-12):
                    ok_all = False
                    report_quantile(rec, errs, case, f'{name} N={n} R={r} tape={tid}' + where)
                else:
                    bad('normal-variant-not-quantile-of-advertised-uniforms',
                        'the draws are neither the standard-normal quantiles of the advertised underlying uniform '
                        'numbers nor the library\'s own transform of them', expected=[e[2] for e in errs[:5]],
                        observed=gen_part[:5])
            elif adv['mlhs']:
                # statement-level structure: Phi(z) puts one point in each stratum
                ok, fragile, detail = strata_check([R_.norm_cdf(z) for z in gen_part], n_g)
                if fragile:
                    rec.count('skipped_fragile_stratum_boundary')
                elif not ok:
                    bad('mlhs-strata', f'Phi(draws) does not put exactly one point in each of the {n_g} strata: '
                        + detail)
    # ---- the same entry through Database.generate_draws
    if via_db:
        import pandas as pd
        import biogeme.database as db
        d = db.Database('c11', pd.DataFrame({'x': [float(i + 1) for i in range(n)]}))
        tape2 = Tape(tid, perm)
        with owned(tape2):
            try:
                t = d.generate_draws({'v': name}, ['v'], r)
                e = None
            except UnownedRandomness:
                raise
            except Exception as ex:  # noqa: BLE001
                t, e = None, ex
        if e is not None:
            bad('db-path', f'Database.generate_draws raised {type(e).__name__}: {e}', observed=repr(e))
        elif tuple(t.shape) != (n, r, 1):
            bad('db-path', f'Database.generate_draws returned shape {tuple(t.shape)} instead of ({n}, {r}, 1)',
                expected=[n, r, 1], observed=list(t.shape))
        elif not all_close(flat(t[:, :, 0]), vals, 0.0):
            bad('db-path', 'Database.generate_draws differs from the catalogue generator under the same RNG answers',
                expected=vals[:5], observed=flat(t)[:5])
        rec.count('db_path_calls')
    rec.case(nt, (key, digest(out)), outcome=(oc, ok_all))
    return vals


def _part_gen(task, rec, only=None):
    cat = catalogue()
    n, r = task['N'], task['R']
    cache = {}
    first_out = {}
    sh_i, sh_k = task.get('shard', [0, 1])
    for name, (gen, adv) in cat.items():
        if only and name != only.get('type'):
            continue
        if adv['anti'] and r % 2:
            rec.count('skipped_out_of_domain_odd_R_antithetic')
            continue
        cases, complete = gen_cases_for(adv, n, r)
        if task.get('sweep'):
            cases = cases[:1]       # the sweep over every number of draws: first tape, first answer
        if only:
            cases = [(only['tape'], tuple(_detuple(only['perm'])))]
        if adv['mlhs']:
            if sh_i == 0:
                rec.count('shuffle_answers_complete' if complete else 'shuffle_answers_family', 1)
        for i, (tid, perm) in enumerate(cases):
            if i % sh_k != sh_i:
                continue
            vals = check_entry_case(rec, cat, name, n, r, tid, perm, cache, via_db=(i == 0))
            if i == 0:
                first_out[name] = vals
                if name in ('UNIFORM_HALTON3', 'NORMAL_MLHS_ANTI', 'UNIFORMSYM_MLHS') and (n, r) == (2, 2):
                    rec.sample(dict(part='gen', type=name, N=n, R=r, tape=tid, advertised={k: adv[k] for k in
                               ('normal', 'anti', 'halton', 'mlhs', 'base', 'skip', 'support')}, output=vals))
        # the entry consumed a selection WITH replacement (numpy.random.choice): every tuple of indices is a legal
        # answer of the RNG, so the answers that are not rearrangements are enumerated as well (no case on a library
        # that only shuffles)
        if not only and sh_i == 0 and 'selection-with-replacement' in cache.get(('seams', name), ()):
            n_g = n * (r // 2 if adv['anti'] else r)
            extra, _ = noninjective_alphabet(n_g)
            for perm in extra:
                rec.count('selection_with_replacement_answers')
                check_entry_case(rec, cat, name, n, r, TAPES[0], tuple(perm), cache)
    if only or sh_i != 0:
        return
    # ---- entries advertising different bases must yield different sequences
    hal = [(nm, a) for nm, (_, a) in cat.items() if a['halton'] and a['base'] is not None]
    for (na, a), (nb, b) in itertools.combinations(hal, 2):
        if (a['normal'], a['support'], a['anti']) != (b['normal'], b['support'], b['anti']) or a['base'] == b['base']:
            continue
        va, vb = first_out.get(na), first_out.get(nb)
        if va is None or vb is None:
            continue
        same = va == vb
        rec.case(('bases', na, nb, n, r), (na, nb, same), outcome=('bases', same))
        if same:
            rec.violation(f'C11|different-bases-same-sequence|{na}~{nb}',
                          f'{na} ({a["desc"]!r}) and {nb} ({b["desc"]!r}) advertise bases {a["base"]} and {b["base"]} '
                          f'but deliver the identical array for N={n}, R={r}',
                          dict(part='gen', N=n, R=r, pair=[na, nb]), expected='different sequences', observed=va[:5])


def _detuple(p):
    return tuple(p)


# --------------------------------------------------------------------------- part hskip
def _part_hskip(task, rec):
    cat = catalogue()
    rec.count('catalogue_entries', len(cat))
    for name, (gen, adv) in cat.items():
        if not (adv['halton'] and adv['base'] is not None and adv['skip'] is None):
            continue
        common = None
        per_size = {}
        for n, r in task['sizes']:
            out, _, err = call_gen(gen, n, r, TAPES[0], ('id',))
            if err is not None or getattr(out, 'shape', None) != (n, r):
                continue  # reported by part gen
            vals = flat(out)
            if adv['normal']:
                got = [R_.norm_cdf(z) for z in vals]
                tol = 1e-6
            else:
                got = [(v + 1) / 2 for v in vals] if adv['support'] == (-1.0, 1.0) else vals
                tol = TOL_STRUCT
            cands = {s for s in range(MAX_UNADVERTISED_SKIP + 1)
                     if all_close(got, R_.halton_window(adv['base'], s, n * r), tol)}
            per_size[(n, r)] = sorted(cands)
            common = cands if common is None else (common & cands)
            rec.case(('hskip', name, n, r), (name, n, r, sorted(cands)), outcome=('hskip', len(cands)))
        if per_size and all(per_size.values()) and not common:
            rec.violation(f'C11|unadvertised-skip-not-constant|type={name}',
                          f'{name} ({adv["desc"]!r}) follows base {adv["base"]} but with a skip that depends on the size: '
                          f'{ {str(k): v for k, v in per_size.items()} }',
                          dict(part='hskip', sizes=task['sizes']), expected='one skip for every size',
                          observed={str(k): v for k, v in per_size.items()})
        rec.sample(dict(part='hskip', type=name, base=adv['base'], skips_fitting_every_size=sorted(common or [])))


# --------------------------------------------------------------------------- part hd (get_halton_draws directly)
def _part_hd(task, rec, only=None):
    import numpy as np
    import biogeme.draws as dr
    base = task['base']
    for skip in task['skips']:
        for (n, r) in task['sizes']:
            ref = R_.halton_window(base, skip, n * r)
            for symmetric in (False, True):
                perms, _ = perm_alphabet(n * r)
                if n * r > 5:
                    perms = perms[:2] + perms[2::max(1, (len(perms) - 2) // 6)]
                todo = [(False, ('id',), 'new')] + [(True, p, 'new') for p in perms]
                # ... and through the deprecated alias getHaltonDraws (unshuffled; shuffled with the reversal)
                todo += [(False, ('id',), 'alias'), (True, ('rev',), 'alias')]
                extended = False
                if only and only.get('perm', ['id'])[0] in ('map', 'const', 'dup'):      # replay of such an answer
                    extended = True
                    todo += [(True, tuple(q), 'new') for q in noninjective_alphabet(n * r)[0]]
                while todo:
                    shuffled, perm, call = todo.pop(0)
                    case = dict(part='hd', base=base, skip=skip, N=n, R=r, symmetric=symmetric, shuffled=shuffled,
                                perm=list(perm))
                    if call != 'new':
                        case['call'] = call
                    if only and ({k: only.get(k) for k in case} != case or only.get('call', 'new') != call):
                        continue
                    tape = Tape(TAPES[0], perm)
                    with owned(tape):
                        try:
                            out = (dr.get_halton_draws if call == 'new' else dr.getHaltonDraws)(
                                n, r, symmetric=symmetric, base=base, skip=skip, shuffled=shuffled)
                        except UnownedRandomness:
                            raise
                        except Exception as e:  # noqa: BLE001
                            out = e
                    key = ('hd', base, skip, n, r, symmetric, shuffled, repr(perm)) + ((call,) if call != 'new' else ())
                    if isinstance(out, Exception) or tuple(out.shape) != (n, r):
                        rec.case(key, (key, 'bad'), outcome=('hd', 'bad'))
                        rec.violation(f'C11|halton-generator-shape-or-error|base={base}',
                                      f'{"get_halton_draws" if call == "new" else "getHaltonDraws"}({n}, {r}, symmetric={symmetric}, base={base}, skip={skip}, '
                                      f'shuffled={shuffled}) gave {out!r:.200}', case, expected=[n, r],
                                      observed=repr(out)[:200])
                        continue
                    if shuffled and 'selection-with-replacement' in tape.seams and not extended:
                        # the series was 'shuffled' by a selection WITH replacement: every tuple of indices is a legal
                        # answer of the RNG; enumerate those that are not rearrangements too
                        extended = True
                        todo += [(True, tuple(q), 'new') for q in noninjective_alphabet(n * r)[0]]
                    got = flat(out)
                    if perm[0] in ('map', 'const', 'dup'):
                        # whatever the RNG answers, a shuffled series is a rearrangement of the window
                        exp = sorted((2.0 * v - 1.0) if symmetric else v for v in ref)
                        ok = all_close(sorted(got), exp)
                        rec.count('selection_with_replacement_answers')
                        rec.case(key, (key, digest(out)), outcome=('hd', symmetric, shuffled, 'selection', ok))
                        if not ok:
                            rec.violation(
                                f'C11|halton-generator-shuffled-not-a-rearrangement|base={base},symmetric={symmetric}',
                                f'get_halton_draws({n}, {r}, symmetric={symmetric}, base={base}, skip={skip}, '
                                f'shuffled=True) draws the shuffled series by a selection with replacement '
                                f'(numpy.random.choice); with the RNG answer {perm} the result is not a rearrangement '
                                f'of the radical-inverse window {skip + 1}..{skip + n * r}: elements are missing / '
                                f'repeated', case, expected=exp[:6], observed=sorted(got)[:6])
                        continue
                    p, _ = realise_perm(perm, n * r)
                    exp = [ref[i] for i in p] if shuffled else list(ref)
                    if symmetric:
                        exp = [2.0 * v - 1.0 for v in exp]
                    ok = all_close(got, exp)
                    rec.case(key, (key, digest(out)), outcome=('hd', symmetric, shuffled, ok))
                    if not ok:
                        rec.violation(
                            f'C11|halton-generator-not-radical-inverse|base={base},symmetric={symmetric},shuffled={shuffled}',
                            f'{"get_halton_draws" if call == "new" else "getHaltonDraws"}({n}, {r}, symmetric={symmetric}, base={base}, skip={skip}, '
                            f'shuffled={shuffled}) with shuffle answer {perm} is not the radical-inverse window '
                            f'{skip + 1}..{skip + n * r}', case, expected=exp[:6], observed=got[:6])


# --------------------------------------------------------------------------- part lhs (generators with explicit uniforms)
# The caller may hand over the uniform numbers in any array form of the right total size: the one-dimensional vector,
# the (N, R) table every generator of the library returns, the (R, N) table, a column, a row, a strided (non-contiguous)
# one-dimensional view; through the keyword uniform_numbers, its old name uniformNumbers, or the deprecated alias
# getLatinHypercubeDraws.  ('flat', 'new') is the original loop of the part (every shuffle answer); the others run with
# three shuffle answers.  A two-dimensional array in Fortran order is outside the domain (the library reshapes the
# supplied array in place, which numpy refuses for such a layout).
LHS_FORMS = [('table', 'new'), ('tableT', 'new'), ('column', 'new'), ('row', 'new'), ('strided', 'new'),
             ('flat', 'oldkw'), ('table', 'oldkw'), ('flat', 'alias'), ('table', 'alias')]
LHS_FORM_TEXT = dict(flat='a vector', table='an (N, R) table', tableT='an (R, N) table', column='a column (N*R, 1)',
                     row='a row (1, N*R)', strided='a strided vector view')


def lhs_supplied(us, n, r, form):
    """A new array holding the numbers us (in C order) in the given form; None when the form coincides with another."""
    import numpy as np
    a = np.array(us, dtype=float)
    tot = n * r
    if form == 'flat':
        return a
    if form == 'table':
        return a.reshape(n, r)
    if form == 'tableT':
        return a.reshape(r, n) if n != r else None
    if form == 'column':
        return a.reshape(tot, 1) if r != 1 else None
    if form == 'row':
        return a.reshape(1, tot) if n != 1 else None
    if form == 'strided':
        return np.repeat(a, 2)[::2]
    raise KeyError(form)


def _part_lhs(task, rec, only=None):
    import numpy as np
    import biogeme.draws as dr
    for (n, r) in task['sizes']:
        tot = n * r
        perms, _ = perm_alphabet(tot)
        if tot > 5:
            perms = perms[:2] + perms[2::max(1, (len(perms) - 2) // 6)]
        if task.get('sweep'):
            # the sweep over EVERY total size up to a bound: identity and reversal as shuffle answers, two tapes
            perms = perms[:2]
        for tid in task.get('tapes', TAPES):
            us = [tape_value(tid, j, tot, 0) for j in range(tot)]
            for symmetric in (False, True):
                todo = list(perms)
                extended = False
                if only and only.get('perm', ['id'])[0] in ('map', 'const', 'dup'):      # replay of such an answer
                    extended = True
                    todo += [tuple(q) for q in noninjective_alphabet(tot)[0]]
                while todo:
                    perm = todo.pop(0)
                    case = dict(part='lhs', N=n, R=r, tape=tid, symmetric=symmetric, perm=list(perm))
                    if only and ({k: only.get(k) for k in case} != case or only.get('form')):
                        continue
                    tape = Tape('mid', perm)
                    key = ('lhs', n, r, tid, symmetric, repr(perm))
                    try:
                        with owned(tape):
                            out = dr.get_latin_hypercube_draws(n, r, symmetric=symmetric,
                                                               uniform_numbers=np.array(us, dtype=float))
                    except Exception as e:       # a size is a legal request: it is answered with an array
                        rec.case(key, (key, type(e).__name__), outcome=('lhs', symmetric, 'raised'))
                        rec.violation(f'C11|lhs-generator-explicit-uniforms-raises-{type(e).__name__}|symmetric={symmetric}',
                                      f'get_latin_hypercube_draws({n}, {r}, symmetric={symmetric}, uniform_numbers=tape {tid}) '
                                      f'with shuffle answer {perm} raises {type(e).__name__}: {str(e)[:160]}', case,
                                      expected=f'an ({n}, {r}) array with one point per stratum of {tot}',
                                      observed=f'{type(e).__name__}: {str(e)[:160]}')
                        continue
                    got = flat(out)
                    if 'selection-with-replacement' in tape.seams and not extended:
                        # the points were 'shuffled' by a selection WITH replacement: every tuple of indices is a legal
                        # answer of the RNG; those that are not rearrangements are enumerated too
                        extended = True
                        todo += [tuple(q) for q in noninjective_alphabet(tot)[0]]
                    if perm[0] in ('map', 'const', 'dup'):
                        unit = [(v + 1) / 2 for v in got] if symmetric else got
                        ok_s, fragile, detail = strata_check(unit, tot)
                        ok = tuple(out.shape) == (n, r) and (ok_s or fragile)
                        rec.count('selection_with_replacement_answers')
                        rec.case(key, (key, digest(out)), outcome=('lhs', symmetric, 'selection', ok))
                        if not ok:
                            rec.violation(f'C11|lhs-generator-explicit-uniforms|symmetric={symmetric}',
                                          f'get_latin_hypercube_draws({n}, {r}, symmetric={symmetric}, uniform_numbers=tape '
                                          f'{tid}) rearranges its points by a selection with replacement (numpy.random.'
                                          f'choice); with the RNG answer {perm}: not one point per stratum; {detail}',
                                          case, expected=f'one point per stratum of {tot}', observed=got[:6])
                        continue
                    p, _ = realise_perm(perm, tot)
                    base = [(i + us[i]) / tot for i in range(tot)]
                    exp = [base[i] for i in p]
                    if symmetric:
                        exp = [2.0 * v - 1.0 for v in exp]
                    unit = [(v + 1) / 2 for v in got] if symmetric else got
                    ok_s, fragile, detail = strata_check(unit, tot)
                    ok = tuple(out.shape) == (n, r) and all_close(got, exp) and (ok_s or fragile) \
                        and not any(k[0] == 'uniform' for k in tape.log)
                    rec.case(key, (key, digest(out)), outcome=('lhs', symmetric, ok))
                    if not ok:
                        rec.violation(f'C11|lhs-generator-explicit-uniforms|symmetric={symmetric}',
                                      f'get_latin_hypercube_draws({n}, {r}, symmetric={symmetric}, uniform_numbers=tape '
                                      f'{tid}) with shuffle answer {perm}: expected the shuffled (i+u_i)/{tot} '
                                      f'construction, one point per stratum, no further RNG call; {detail}', case,
                                      expected=exp[:6], observed=got[:6])
            # ---- the form in which the caller supplies the uniform numbers x the way the function is addressed
            for form, call in ([] if task.get('sweep') else LHS_FORMS):
                arr0 = lhs_supplied(us, n, r, form)
                if arr0 is None:
                    rec.count('lhs_form_not_applicable')
                    continue
                for symmetric in (False, True):
                    for perm in perms[:2] + perms[-1:]:
                        case = dict(part='lhs', N=n, R=r, tape=tid, symmetric=symmetric, perm=list(perm), form=form,
                                    call=call)
                        if only and {k: only.get(k) for k in case} != case:
                            continue
                        arr = lhs_supplied(us, n, r, form)
                        tape = Tape('mid', perm)
                        with owned(tape):
                            try:
                                if call == 'new':
                                    out = dr.get_latin_hypercube_draws(n, r, symmetric=symmetric, uniform_numbers=arr)
                                elif call == 'oldkw':
                                    out = dr.get_latin_hypercube_draws(n, r, symmetric=symmetric, uniformNumbers=arr)
                                else:
                                    out = dr.getLatinHypercubeDraws(n, r, symmetric=symmetric, uniformNumbers=arr)
                            except UnownedRandomness:
                                raise
                            except Exception as e:  # noqa: BLE001
                                out = e
                        key = ('lhs', n, r, tid, symmetric, repr(perm), form, call)
                        detail = ''
                        if isinstance(out, Exception):
                            ok, detail = False, f'raised {type(out).__name__}: {out}'
                        elif tuple(getattr(out, 'shape', ())) != (n, r):
                            ok, detail = False, f'shape {tuple(getattr(out, "shape", ()))} instead of ({n}, {r})'
                        else:
                            got = flat(out)
                            unit = [(v + 1) / 2 for v in got] if symmetric else got
                            ok_s, fragile, detail = strata_check(unit, tot)
                            ok = (ok_s or fragile) and not any(k[0] == 'uniform' for k in tape.log)
                            if ok and not fragile:
                                # modified LHS: the positions inside the strata are the supplied numbers
                                inside = sorted(v * tot - math.floor(v * tot) for v in unit)
                                if not all(abs(a - b) <= 1e-9 for a, b in zip(inside, sorted(us))):
                                    ok, detail = False, 'the positions inside the strata are not the supplied numbers'
                        rec.case(key, (key, digest(out) if not isinstance(out, Exception) else 'raised'),
                                 outcome=('lhs', form, call, symmetric, ok))
                        if not ok:
                            rec.violation(f'C11|lhs-generator-explicit-uniforms|symmetric={symmetric},form={form}',
                                          f'{"getLatinHypercubeDraws" if call == "alias" else "get_latin_hypercube_draws"}'
                                          f'({n}, {r}, symmetric={symmetric}, '
                                          f'{"uniform_numbers" if call == "new" else "uniformNumbers"}=tape {tid} supplied '
                                          f'as {LHS_FORM_TEXT[form]}) with shuffle answer {perm}: expected an ({n}, {r}) '
                                          f'array with one point in each of the {tot} equal strata, at the supplied '
                                          f'positions, no further RNG call; {detail}', case,
                                          expected=f'one point per stratum of {tot}',
                                          observed=repr(out)[:200] if isinstance(out, Exception) else flat(out)[:6])
            # get_antithetic with a deterministic unit generator
            if r % 2 == 0 and (not only or only.get('anti')):
                halfw = [tape_value(tid, j, n * (r // 2), 0) for j in range(n * (r // 2))]

                def g(nn, rr, halfw=halfw):
                    return np.array(halfw, dtype=float).reshape(nn, rr)

                out = dr.get_antithetic(g, n, r)
                key = ('anti', n, r, tid)
                okshape = tuple(out.shape) == (n, r)
                ok = okshape and all(
                    all_close(flat(out[i, : r // 2]), halfw[i * (r // 2):(i + 1) * (r // 2)], 0.0)
                    and all_close(flat(out[i, r // 2:]), [1.0 - v for v in halfw[i * (r // 2):(i + 1) * (r // 2)]])
                    for i in range(n))
                rec.case(key, (key, digest(out)), outcome=('anti', ok))
                if not ok:
                    rec.violation('C11|antithetic-generator-not-first-half-plus-mirror|get_antithetic',
                                  f'get_antithetic(g, {n}, {r}) is not [g(n, R/2), 1 - g(n, R/2)]',
                                  dict(part='lhs', N=n, R=r, tape=tid, anti=True), expected=halfw[:4],
                                  observed=flat(out)[:8])


# --------------------------------------------------------------------------- part shape
def _part_shape(task, rec):
    import numpy as np
    import pandas as pd
    import biogeme.database as db
    from biogeme.exceptions import BiogemeError
    for n, r in task['sizes']:
        variants = {
            'right': (n, r), 'one_more_draw': (n, r + 1), 'one_less_draw': (n, max(r - 1, 0)),
            'one_more_row': (n + 1, r), 'transposed': (r, n), 'flat': (n * r,), 'extra_axis': (n, r, 1),
        }
        for vname, shp in variants.items():
            want_ok = tuple(shp) == (n, r)

            def g(nn, rr, shp=shp):
                return np.arange(int(np.prod(shp)), dtype=float).reshape(shp) / 100.0

            d = db.Database('c11s', pd.DataFrame({'x': [float(i) for i in range(n)]}))
            d.set_random_number_generators({'MINE': (g, 'user generator')})
            key = ('shape', n, r, vname)
            try:
                t = d.generate_draws({'a': 'MINE', 'b': 'UNIFORM_HALTON2'}, ['a', 'b'], r)
                res = ('ok', tuple(t.shape))
            except BiogemeError:
                res = ('BiogemeError',)
            except Exception as e:  # noqa: BLE001
                res = ('other', type(e).__name__)
            good = (res == ('ok', (n, r, 2))) if want_ok else (res == ('BiogemeError',))
            if want_ok and good:
                good = flat(t[:, :, 0]) == flat(g(n, r)) and all_close(flat(t[:, :, 1]), R_.halton_window(2, 10, n * r))
            rec.case(key, (key, res), outcome=('shape', vname if not want_ok else 'right', good))
            if not good:
                rec.violation(f'C11|shape-enforcement|user-generator-{"right" if want_ok else "wrong"}-shape',
                              f'Database.generate_draws with a user generator returning shape {shp} for N={n}, R={r}: '
                              f'{res} (expected {"the (N, R, 2) table" if want_ok else "BiogemeError"})',
                              dict(part='shape', sizes=[[n, r]]), expected='ok' if want_ok else 'BiogemeError',
                              observed=list(res))


# --------------------------------------------------------------------------- part hist (histories of requests)
# The statement holds "for each catalogued draw type and any requested size": whatever was requested before in the
# same process, and whatever the caller did with the arrays it received.  A history is a sequence of steps
#   dict(type=<entry>, N=, R=, via='gen' | 'db', mut='none' | 'zero' | 'flat')
# 'gen' calls the catalogue generator, 'db' asks one Database object (one per sample size, kept for the whole history)
# through generate_draws; after the answer has been checked against every clause of the statement, the caller
# post-processes *its* array in place: 'zero' multiplies it by 0, 'flat' reshapes it in place to one dimension (what
# draws.get_normal_wichura_draws does to the uniform numbers it is given).  The RNG answers of step i are fixed by the
# position: tape HTAPES[i], shuffle answer HPERMS[i].
# Every hist task runs in a worker process of its own (task['fresh']): the process history of a case is exactly the
# task's list of histories up to it, which is what a violation's case records (task, hindex) and what replay re-executes.
HTAPES = ['weyl', 'ramp', 'weyl2', 'ramprev']
HPERMS = [('rot', 1), ('rev',), ('id',), ('swap', 0)]
MUTS = ['none', 'zero', 'flat']


def hist_text(steps, pos, hindex):
    def one(st):
        return (f"{st['type']}({st['N']},{st['R']})" + ('@Database.generate_draws' if st['via'] == 'db' else '')
                + ('' if st['mut'] == 'none' else f"+caller:{st['mut']}"))
    before = f'; {hindex} other histories of this task ran earlier in the process' if hindex else ''
    if pos == 0:
        return f'[first request of a history{before}]'
    return '[requested after ' + ', '.join(one(st) for st in steps[:pos]) + f' in the same process{before}]'


def run_history(rec, cat, steps, task, hindex):
    """Executes the steps in order on the real code and checks every answer against every clause."""
    import numpy as np
    import pandas as pd
    import biogeme.database as db
    dbs = {}
    hid = tuple((st['type'], st['N'], st['R'], st['via'], st['mut']) for st in steps)
    for pos, st in enumerate(steps):
        name, n, r = st['type'], st['N'], st['R']
        tid, perm = HTAPES[pos % len(HTAPES)], HPERMS[pos % len(HPERMS)]
        holder = {}
        if st['via'] == 'db':
            if n not in dbs:
                dbs[n] = db.Database(f'c11h{n}', pd.DataFrame({'x': [float(i + 1) for i in range(n)]}))
            d = dbs[n]

            def producer(n_, r_, d=d, name=name, pos=pos, holder=holder):
                t = d.generate_draws({f'v{pos}': name}, [f'v{pos}'], r_)
                holder['raw'] = t
                if getattr(t, 'ndim', 0) != 3 or t.shape[2] != 1:
                    return t
                return t[:, :, 0]
        else:
            def producer(n_, r_, g=cat[name][0], holder=holder):
                out = g(n_, r_)
                holder['raw'] = out
                return out
        hist = dict(case=dict(part='hist', task=task, hindex=hindex, pos=pos, steps=steps),
                    key=('hist', hid[:pos + 1]), producer=producer, where=hist_text(steps, pos, hindex))
        check_entry_case(rec, cat, name, n, r, tid, perm, {}, via_db=False, hist=hist)
        raw = holder.get('raw')
        if isinstance(raw, np.ndarray) and st['mut'] != 'none':
            try:
                if st['mut'] == 'zero':
                    raw *= 0.0
                elif st['mut'] == 'flat':
                    raw.shape = (raw.size,)
            except (AttributeError, ValueError):
                rec.count('hist_mutation_not_applicable')


def _hist_sizes(tier):
    return [(2, 2), (3, 4), (2, 6)] if tier == 'quick' else [(1, 2), (2, 2), (3, 4), (2, 6)]


def hist_iter(task, cat):
    """The task's histories in their (deterministic) order of execution.  Items: ('steps', [step...]),
    ('multi', a, b, n, r) or ('skip',) (a size outside the domain of one of the entries)."""
    names = list(cat)
    sh_i, sh_k = task['shard']
    kind = task['kind']
    S = [tuple(s) for s in task.get('sizes', [])]

    def ok_size(name, s):
        return not (cat[name][1]['anti'] and s[1] % 2)

    pairs = [(a, b) for a in names for b in names][sh_i::sh_k]
    if kind == 'rep':
        # the same request repeated k times with the caller's action after every answer
        for a in names[sh_i::sh_k]:
            for s in S:
                if not ok_size(a, s):
                    yield ('skip',)
                    continue
                for via in ('gen', 'db'):
                    for mut in task['muts']:
                        yield ('steps', [dict(type=a, N=s[0], R=s[1], via=via, mut=mut) for _ in range(task['k'])])
    elif kind == 'multi':
        for a, b in pairs:
            for (n, r) in S:
                if (cat[a][1]['anti'] or cat[b][1]['anti']) and r % 2:
                    yield ('skip',)
                else:
                    yield ('multi', a, b, n, r)
    elif kind == 'h2':
        # every ordered pair of entries x the task's ordered pairs of sizes x (via, via) x what the caller does in between
        for a, b in pairs:
            for sa, sb in task['combos']:
                sa, sb = tuple(sa), tuple(sb)
                if not (ok_size(a, sa) and ok_size(b, sb)):
                    yield ('skip',)
                    continue
                for va, vb, muts in task['plan']:
                    for mut in muts:
                        yield ('steps', [dict(type=a, N=sa[0], R=sa[1], via=va, mut=mut),
                                         dict(type=b, N=sb[0], R=sb[1], via=vb, mut='none')])
    elif kind == 'h3':
        # every ordered triple of entries; sizes s, s', s (s' = s and s' != s); the caller's action after every step
        for a, b in pairs:
            for c in names:
                for sa, sb in task['combos']:
                    sa, sb = tuple(sa), tuple(sb)
                    if not (ok_size(a, sa) and ok_size(b, sb) and ok_size(c, sa)):
                        yield ('skip',)
                        continue
                    for via, muts in task['plan']:
                        for mut in muts:
                            yield ('steps', [dict(type=a, N=sa[0], R=sa[1], via=via, mut=mut),
                                             dict(type=b, N=sb[0], R=sb[1], via=via, mut=mut),
                                             dict(type=c, N=sa[0], R=sa[1], via=via, mut='none')])
    elif kind == 'bind':
        # k variables of ONE request: every ordered k-tuple of entries (of the task's menu) x sizes x entry point x
        # every order of the list of names x every insertion order of the dictionary of types x an additional
        # dictionary entry that is not asked for (see _hist_bind)
        k = task['k']
        menu = task.get('menu') or names
        tuples = list(itertools.product(menu, repeat=k))[sh_i::sh_k]
        orders = [list(p) for p in itertools.permutations(range(k))]
        for types in tuples:
            for s in S:
                if not all(ok_size(a, s) for a in types):
                    yield ('skip',)
                    continue
                for via in task['vias']:
                    for norder in orders:
                        if via == 'idm':
                            # the library orders the names itself; the formula is traversed in the order of `types`
                            yield ('bind', dict(types=list(types), N=s[0], R=s[1], via=via, names=norder,
                                                dict=list(range(k)), extra=None))
                            continue
                        for dorder in orders:
                            for extra in task['extras']:
                                yield ('bind', dict(types=list(types), N=s[0], R=s[1], via=via, names=norder,
                                                    dict=dorder, extra=extra))
    elif kind == 'ureg':
        # histories of registrations of user-defined generators on ONE Database, the catalogue entry being requested
        # through that Database after every registration (see _hist_ureg)
        tuples = list(itertools.product([tuple(o) for o in task['ops']], repeat=task['depth']))
        jobs = [(a, ops) for a in names for ops in tuples][sh_i::sh_k]
        for a, ops in jobs:
            for s in S:
                if not ok_size(a, s):
                    yield ('skip',)
                    continue
                yield ('ureg', dict(type=a, N=s[0], R=s[1], ops=[list(o) for o in ops]))
    else:
        raise KeyError(kind)


def _part_hist(task, rec, stop_after=None):
    cat = catalogue()
    hindex = 0
    state = {}
    for item in hist_iter(task, cat):
        if item[0] == 'skip':
            rec.count('skipped_out_of_domain_odd_R_antithetic')
            continue
        if stop_after is not None and hindex > stop_after:
            break
        if item[0] == 'steps':
            run_history(rec, cat, item[1], task, hindex)
        elif item[0] == 'bind':
            _hist_bind(rec, cat, item[1], task, hindex, state)
        elif item[0] == 'ureg':
            _hist_ureg(rec, cat, item[1], task, hindex)
        else:
            _hist_multi(rec, cat, item[1], item[2], item[3], item[4], task, hindex)
        rec.count('histories')
        hindex += 1
    if hindex and task['shard'][0] == 0:
        rec.sample(dict(part='hist', kind=task['kind'], histories_in_this_task=hindex,
                        last=item[1] if item[0] == 'steps' else list(item[1:])))


# Names of the draw variables of part bind (by seed): three names and one additional name whose dictionary entry is
# not asked for.  Python's string order of the names (the order the library's IdManager uses) is in general neither the
# order of the list of names nor the insertion order of the dictionary: both are enumerated.
_BIND_NAMES = [
    (['alpha', 'mid', 'zeta'], 'beta'), (['b1', 'b10', 'b2'], 'b11'), (['Z', '_k', 'a'], 'Za'),
    (['x_1', 'x_10', 'x_2'], 'x_0'), (['B', 'a', 'c'], 'b'), (['draw3', 'drawA', 'draw_1'], 'draw'),
    (['xi', 'Xi', 'eta'], 'nu'), (['r2', 'r1', 'r0'], 'r3'),
]
BIND_MENU = ['UNIFORM', 'UNIFORM_ANTI', 'UNIFORM_HALTON2', 'UNIFORMSYM_HALTON3', 'UNIFORMSYM_MLHS', 'NORMAL_HALTON5',
             'NORMAL_MLHS_ANTI']


def bind_names():
    base, extra = _BIND_NAMES[_SEED % len(_BIND_NAMES)]
    return sorted(base), extra


def _hist_bind(rec, cat, b, task, hindex, state):
    """k variables in ONE request: whatever the order of the list of names, the insertion order of the dictionary of
    types and the alphabetical order of the names are, the slice of every variable must hold the draws of the type
    requested FOR THAT VARIABLE.

    b = dict(types=[t_0..t_k-1], N, R, via, names=<order>, dict=<order>, extra)
      via 'db'   Database.generate_draws(types_dict, names_list, R): position j of names_list is the variable
                 BASE[names[j]] of type types[j]; the dictionary is filled in the order dict[0], dict[1], ... (positions
                 of names_list); extra in {None, 'first', 'last'}: one more dictionary entry, of a variable that is not
                 in names_list, inserted before / after the others.
      via 'idm'  the formula bioDraws(BASE[names[0]], types[0]) + bioDraws(BASE[names[1]], types[1]) + ... handed to
                 biogeme.expressions.idmanager.IdManager, which asks the Database itself; the slice of a variable is
                 the one at the index IdManager assigned to it (IdManager.draws.indices).
    One Database per sample size is kept through the task (a history of requests on one object).
    Oracle: the table has shape (N, R, k) and there is an order in which the k generators consumed the owned RNG
    (the order of the slices first, then the other k!-1) such that every slice is exactly what its entry delivers when
    asked alone in that order under the same continuing RNG answers."""
    import numpy as np
    import pandas as pd
    import biogeme.database as db
    from biogeme.exceptions import BiogemeError
    types, n, r, via = list(b['types']), b['N'], b['R'], b['via']
    k = len(types)
    base, extra_name = bind_names()
    vnames = [base[i] for i in b['names']]                 # names list position j -> variable name
    tid, perm = HTAPES[hindex % len(HTAPES)], HPERMS[(hindex + 1) % len(HPERMS)]
    case = dict(part='hist', task=task, hindex=hindex, pos=0, bind=b)
    key = ('bind', via, tuple(types), tuple(b['names']), tuple(b['dict']), b['extra'], n, r)
    dbs = state.setdefault('dbs', {})
    if n not in dbs:
        dbs[n] = db.Database(f'c11b{n}', pd.DataFrame({'x': [float(i + 1) for i in range(n)]}))
    d = dbs[n]
    before = f' [{hindex} other requests of this task ran earlier in the process, on the same Database]' if hindex else ''
    type_of = dict(zip(vnames, types))
    tape = Tape(tid, perm)
    t = e = None
    if via == 'db':
        dct = {}
        if b['extra'] == 'first':
            dct[extra_name] = list(cat)[(list(cat).index(types[0]) + 1) % len(cat)]
        for j in b['dict']:
            dct[vnames[j]] = types[j]
        if b['extra'] == 'last':
            dct[extra_name] = list(cat)[(list(cat).index(types[0]) + 1) % len(cat)]
        slots = list(vnames)                               # slice j belongs to slots[j]
        what = f'Database.generate_draws({dct}, {vnames}, {r}) on {n} rows'
        with owned(tape):
            try:
                t = d.generate_draws(dct, list(vnames), r)
            except UnownedRandomness:
                raise
            except Exception as ex:  # noqa: BLE001
                e = ex
    else:
        from biogeme.expressions import bioDraws
        from biogeme.expressions.idmanager import IdManager
        what = ('IdManager([' + ' + '.join(f'bioDraws({v!r}, {ty!r})' for v, ty in zip(vnames, types))
                + f'], database of {n} rows, {r})')
        slots = None
        with owned(tape):
            try:
                f = bioDraws(vnames[0], types[0])
                for v, ty in zip(vnames[1:], types[1:]):
                    f = f + bioDraws(v, ty)
                m = IdManager([f], d, r)
                t = d.theDraws
                slots = [None] * k
                for v in vnames:
                    slots[m.draws.indices[v]] = v
            except UnownedRandomness:
                raise
            except Exception as ex:  # noqa: BLE001
                e = ex
        if e is None and (None in slots or sorted(slots) != sorted(vnames)):
            rec.count('bind_idmanager_indices_unusable')    # the numbering of the variables is another property's subject
            rec.case(key, (key, 'indices'), outcome=('bind', via, k, 'indices'))
            return
    if e is not None:
        if b['extra'] and isinstance(e, BiogemeError):
            # a dictionary with an entry that is not asked for: a refusal is not against the statement
            rec.count('bind_superset_dictionary_refused')
            rec.case(key, (key, 'refused'), outcome=('bind', via, k, 'refused'))
            return
        rec.case(key, (key, 'raised', type(e).__name__), outcome=('bind', via, k, 'raised'))
        rec.violation(f'C11|history|db-path-several-variables|raises-{type(e).__name__},via={via}',
                      f'{what}: raised {type(e).__name__}: {e}{before}', case,
                      expected=f'the (N, R, {k}) table of the entries', observed=repr(e)[:300])
        return
    shape = tuple(getattr(t, 'shape', ()))
    if shape != (n, r, k):
        rec.case(key, (key, 'shape', shape), outcome=('bind', via, k, 'shape'))
        rec.violation(f'C11|history|db-path-several-variables|shape,via={via}',
                      f'{what}: table of shape {shape} instead of ({n}, {r}, {k}){before}', case,
                      expected=[n, r, k], observed=list(shape))
        return
    slot_types = [type_of[v] for v in slots]
    got = [flat(t[:, :, j]) for j in range(k)]

    def singles(order):
        """Every entry asked alone, the generators consuming one continuing tape in the given order of the slices."""
        tp = Tape(tid, perm)
        out = [None] * k
        with owned(tp):
            for j in order:
                try:
                    o = cat[slot_types[j]][0](n, r)
                except UnownedRandomness:
                    raise
                except Exception:  # noqa: BLE001 - reported by the gen / history parts
                    return None
                if getattr(o, 'shape', None) != (n, r):
                    return None
                out[j] = flat(o)
        return out

    matched = None
    refs = []
    for order in itertools.permutations(range(k)):
        s = singles(order)
        if s is None:
            rec.count('hist_multi_single_requests_failed')
            rec.case(key, (key, 'single-failed'), outcome=('bind', via, k, 'single-failed'))
            return
        refs.append(s)
        if all(all_close(got[j], s[j], 0.0) for j in range(k)):
            matched = order
            break
    natural = matched == tuple(range(k))
    rec.case(key, (key, digest(t)), outcome=('bind', via, k, matched is not None, natural))
    if matched is not None:
        if not natural:
            rec.count('bind_generators_called_in_another_order')
        return
    # diagnosis: which slice is wrong (under the natural order), and does it hold what another variable asked for?
    s0 = refs[0]
    j = next(i for i in range(k) if not all_close(got[i], s0[i], 0.0))
    other = None
    for s in refs + [singles(o) or [] for o in list(itertools.permutations(range(k)))[len(refs):]]:
        for i in range(len(s)):
            if i != j and slot_types[i] != slot_types[j] and all_close(got[j], s[i], 0.0):
                other = i
                break
        if other is not None:
            break
    if other is not None:
        rec.violation(f'C11|history|db-path-variable-binding|slice-holds-the-type-of-another-variable,via={via}',
                      f'{what}: the slice of variable {slots[j]!r} (index {j}), for which {slot_types[j]} '
                      f'({cat[slot_types[j]][1]["desc"]!r}) was requested, holds the draws of {slot_types[other]}, the '
                      f'type requested for variable {slots[other]!r}{before}', case,
                      expected=s0[j][:5], observed=got[j][:5])
    else:
        rec.violation(f'C11|history|db-path-several-variables|type={slot_types[j]}',
                      f'{what}: the slice of variable {slots[j]!r} (index {j}, type {slot_types[j]}) differs from the '
                      f'entry asked alone under the same RNG answers, whatever the order in which the {k} generators '
                      f'consumed them{before}', case, expected=s0[j][:5], observed=got[j][:5])


# Registrations of user-defined generators (part hist, kind 'ureg').  A Database carries, besides the catalogue, the
# generators its user registered with set_random_number_generators; the library refuses (ValueError) a dictionary that
# uses the name of a catalogue entry.  Whatever was registered - or refused - before on the object, a request for a
# catalogue entry must deliver what that entry advertises.  A registration op is (dictionary, format, method):
#   dictionary  'user'       {MINE: g}                     a valid name
#               'case'       {<entry in lower case>: g}    a valid name that differs from the entry's only by case
#               'empty'      {}
#               'same'       {<entry>: g}                  the name of the entry requested afterwards (reserved)
#               'other'      {<next entry of the catalogue>: g}   another reserved name
#               'user+same'  {MINE: g, <entry>: g}         a valid and a reserved name, in both insertion orders
#               'same+user'  {<entry>: g, MINE: g}
#   format      'tuple' (generator, description) - the documented old format - or 'named' (RandomNumberGeneratorTuple)
#   method      'new' set_random_number_generators or 'old' setRandomNumberGenerators (deprecated alias)
# g is a deterministic user generator that never touches the RNG: g(n, r) = constant array, the constant being
# UREG_VALUES[index of the op in the history % 2] (one value outside every advertised support, one inside all of them).
UREG_DICTS = ['user', 'case', 'empty', 'same', 'other', 'user+same', 'same+user']
UREG_FORMATS = ['tuple', 'named']
UREG_METHODS = ['new', 'old']
UREG_OPS_ALL = [[d, f, m] for d in UREG_DICTS for f in UREG_FORMATS for m in UREG_METHODS]
UREG_OPS_2 = [[d, f, m] for d in UREG_DICTS for f, m in (('tuple', 'new'), ('named', 'old'))]
UREG_OPS_3 = [[d, 'tuple', 'new'] for d in UREG_DICTS]
UREG_VALUES = [7.0, 0.5]
UREG_USER_NAME = 'MINE'


def _ureg_dictionary(cat, entry, kind):
    """Ordered list of names of the dictionary handed to the registration, and whether it holds a reserved name."""
    names = list(cat)
    other = names[(names.index(entry) + 1) % len(names)]
    lower = entry.lower()
    keys = {'user': [UREG_USER_NAME], 'case': [lower], 'empty': [], 'same': [entry], 'other': [other],
            'user+same': [UREG_USER_NAME, entry], 'same+user': [entry, UREG_USER_NAME]}[kind]
    return keys, any(k in cat for k in keys)


def _hist_ureg(rec, cat, u, task, hindex):
    """u = dict(type=<entry>, N, R, ops=[[dictionary, format, method], ...]).  On ONE new Database: apply the ops in
    order; after every op request the entry through Database.generate_draws (alone, or - when the reference model of the
    registry says that MINE is registered, i.e. the last op was accepted and held MINE - together with a variable of
    the user's type, in alternating order of the two names) and check the answer against every clause of part gen
    (finding keys C11|history|<clause>|type=<entry>) and against the catalogue generator asked directly under the same
    RNG answers (C11|history|db-path|type=<entry>).  Whether a registration is accepted or refused is observed and
    counted, not judged: the statement speaks about what the catalogue entries deliver."""
    import numpy as np
    import pandas as pd
    import biogeme.database as db
    from biogeme.exceptions import BiogemeError
    from biogeme.native_draws import RandomNumberGeneratorTuple
    name, n, r, ops = u['type'], u['N'], u['R'], [list(o) for o in u['ops']]
    d = db.Database(f'c11u{n}', pd.DataFrame({'x': [float(i + 1) for i in range(n)]}))
    registered = set()          # reference model of the registry: names of the last ACCEPTED dictionary
    done = []
    hid = ('ureg', name, n, r)
    for pos, (kind, fmt, meth) in enumerate(ops):
        value = UREG_VALUES[pos % len(UREG_VALUES)]

        def g(nn, rr, value=value):
            return np.full((nn, rr), value)

        keys, reserved = _ureg_dictionary(cat, name, kind)
        entry = (lambda: (g, 'user-defined')) if fmt == 'tuple' else \
            (lambda: RandomNumberGeneratorTuple(generator=g, description='user-defined'))
        dct = {k: entry() for k in keys}
        method = d.set_random_number_generators if meth == 'new' else d.setRandomNumberGenerators
        try:
            method(dct)
            res = 'accepted'
            registered = set(keys)
        except ValueError:
            res = 'ValueError'
        except Exception as ex:  # noqa: BLE001 - observed, not judged
            res = type(ex).__name__
        rec.count(f'ureg_{"reserved" if reserved else "valid"}_dictionary_{res}')
        done.append(f'{"set_random_number_generators" if meth == "new" else "setRandomNumberGenerators"}'
                    f'({{{", ".join(keys)}}} as {fmt}, g = {value}) -> {res}')
        tid, perm = HTAPES[pos % len(HTAPES)], HPERMS[pos % len(HPERMS)]
        with_user = UREG_USER_NAME in registered
        holder = {}

        def producer(n_, r_, d=d, name=name, pos=pos, with_user=with_user, holder=holder):
            if with_user:
                order = ['w', 'v'] if pos % 2 == 0 else ['v', 'w']
                try:
                    t = d.generate_draws({'w': UREG_USER_NAME, 'v': name}, order, r_)
                    if getattr(t, 'ndim', 0) == 3 and t.shape[2] == 2:
                        holder['two'] = True
                        return t[:, :, order.index('v')]
                    return t
                except BiogemeError:
                    holder['user_type_unknown'] = True      # the user's types are not the statement's subject
            t = d.generate_draws({'v': name}, ['v'], r_)
            if getattr(t, 'ndim', 0) != 3 or t.shape[2] != 1:
                return t
            return t[:, :, 0]

        where = '[Database.generate_draws on a Database after ' + '; '.join(done) + ']'
        case = dict(part='hist', task=task, hindex=hindex, pos=pos, ureg=u)
        key = (hid, tuple(tuple(o) for o in ops[:pos + 1]))
        hist = dict(case=case, key=key, producer=producer, where=where)
        cache = {}
        vals = check_entry_case(rec, cat, name, n, r, tid, perm, cache, via_db=False, hist=hist)
        if holder.get('user_type_unknown'):
            rec.count('ureg_registered_user_type_unknown_to_generate_draws')
        if holder.get('two'):
            rec.count('ureg_requests_together_with_a_user_type')
        if vals is None or hist.get('clause_broken'):
            continue                                             # already reported under the clause it breaks
        # the same request put to the catalogue generator directly, under the same RNG answers
        o2, _, e2 = call_gen(cat[name][0], n, r, tid, perm)
        if e2 is not None or getattr(o2, 'shape', None) != (n, r):
            rec.count('hist_multi_single_requests_failed')       # reported by the gen / history parts
            continue
        if not all_close(vals, flat(o2), 0.0):
            rec.violation(f'C11|history|db-path|type={name}',
                          f'{name} ({cat[name][1]["desc"]!r}) N={n} R={r} tape={tid} shuffle={perm} {where}: '
                          'Database.generate_draws differs from the catalogue generator under the same RNG answers',
                          case, expected=flat(o2)[:5], observed=vals[:5])


def _hist_multi(rec, cat, a, b, n, r, task, hindex):
    """Two variables in ONE Database.generate_draws call: the call must deliver the (N, R, 2) table, and slice j must
    be what entry j delivers when it is asked alone under the same RNG answers (the tape simply continues from the
    first generator to the second)."""
    import pandas as pd
    import biogeme.database as db
    tid, perm = HTAPES[0], HPERMS[1]
    case = dict(part='hist', task=task, hindex=hindex, pos=0, multi=[a, b, n, r])
    key = ('multi', a, b, n, r)
    d = db.Database('c11m', pd.DataFrame({'x': [float(i + 1) for i in range(n)]}))
    tape = Tape(tid, perm)
    with owned(tape):
        try:
            t, e = d.generate_draws({'a': a, 'b': b}, ['a', 'b'], r), None
        except UnownedRandomness:
            raise
        except Exception as ex:  # noqa: BLE001
            t, e = None, ex
    tape2 = Tape(tid, perm)
    oa = ob = None
    with owned(tape2):
        try:
            oa = cat[a][0](n, r)
            ob = cat[b][0](n, r)
            e2 = None
        except UnownedRandomness:
            raise
        except Exception as ex:  # noqa: BLE001
            e2 = ex
    singles = e2 is None and getattr(oa, 'shape', None) == (n, r) and getattr(ob, 'shape', None) == (n, r)
    culprit = None
    if e is not None:
        good, obs = False, f'raised {type(e).__name__}: {e}'
        m = re.search(r'generator for (a|b) must', str(e))
        culprit = {'a': a, 'b': b}[m.group(1)] if m else None
    elif tuple(getattr(t, 'shape', ())) != (n, r, 2):
        good, obs = False, f'table of shape {tuple(getattr(t, "shape", ()))} instead of ({n}, {r}, 2)'
    elif not singles:
        rec.count('hist_multi_single_requests_failed')   # reported by the history / gen parts
        rec.case(key, (key, 'single-failed'), outcome=('multi', 'single-failed'))
        return
    else:
        ga = all_close(flat(t[:, :, 0]), flat(oa), 0.0)
        gb = all_close(flat(t[:, :, 1]), flat(ob), 0.0)
        good = ga and gb
        culprit = a if not ga else b
        obs = '' if good else ('slice of variable ' + ('a' if not ga else 'b') + ' differs from the entry '
                               'asked alone under the same RNG answers')
    rec.case(key, (key, digest(t) if e is None else 'raised'), outcome=('multi', good))
    if not good:
        before = f' [{hindex} other requests of this task ran earlier in the process]' if hindex else ''
        rec.violation(f'C11|history|db-path-two-variables|type={culprit or (a + "+" + b)}',
                      f'Database.generate_draws({{a: {a}, b: {b}}}, [a, b], {r}) on {n} rows: {obs}{before}', case,
                      expected='the (N, R, 2) table of the two entries', observed=obs)


# --------------------------------------------------------------------------- part q
def _ulps(x, k):
    for _ in range(abs(k)):
        x = math.nextafter(x, math.inf if k > 0 else -math.inf)
    return x


DECIMAL_GRIDS = (20, 40, 200, 1000)


def special_points():
    """Tails and branch-point neighbourhoods (deterministic, sorted by 'simplicity': branch points first)."""
    pts = []
    e25 = R_.E25
    branch = [0.5, 0.075, 0.925, 0.425, 0.575, 0.45, 0.55, e25, 1.0 - e25]
    for b in branch:
        for k in range(-8, 9):
            pts.append(_ulps(b, k))
        for j in range(12, 53, 2):
            for s in (-1.0, 1.0):
                pts.append(b + s * 2.0 ** -j * (b if b < 1e-6 else 1.0))
    for j in range(15, 1021):
        for m in (1.0, 1.5, 1.0 + 2.0 ** -30, 2.0 - 2.0 ** -40):
            pts.append(m * 2.0 ** -j)
    for j in range(15, 54):
        for m in (1.0, 1.5, 1.25):
            pts.append(1.0 - m * 2.0 ** -j)
    th = SS['theta']
    for k in range(1, 400):  # a coarse non-dyadic comb over everything, seed-shifted
        pts.append((k + th * 0.5) / 400.0)
    # regular probability grids k/D, NOT shifted by the seed: the doubles a caller gets from np.arange(1, D)/D or
    # from decimal literals (0.45 = 9/20, 0.425 = 17/40, 0.075 = 3/40, ...), i.e. the numbers that sit bit for bit on
    # decimal limits between the pieces of a piecewise approximation
    for D in DECIMAL_GRIDS:
        for k in range(1, D):
            pts.append(k / D)
    out, seen = [], set()
    for p in pts:
        if 0.0 < p < 1.0 and p >= 2.0 ** -1020 and p not in seen:
            seen.add(p)
            out.append(p)
    return out


def grid_points(m, lo, hi):
    th = SS['theta']
    d = float(2 ** m)
    return [(k + th) / d for k in range(lo, hi) if (k + th) > 0]


def _scipy_crosscheck(rec, us, refs):
    try:
        from scipy.special import ndtri
    except Exception:  # noqa: BLE001
        rec.count('scipy_crosscheck_unavailable')
        return
    import numpy as np
    s = ndtri(np.array(us, dtype=float))
    worst = 0.0
    for u, a, b in zip(us, refs, s):
        e = abs(a - float(b)) / max(1.0, abs(a))
        worst = max(worst, e)
    if worst > 1e-14:
        raise RuntimeError(f'reference quantile and scipy.special.ndtri disagree by {worst:g}: the oracle is not trusted')
    rec.count('reference_points_crosschecked_with_scipy', len(us))


def run_q_points(rec, us, path, case_base):
    """path: 'flat' (1 x n), 'shaped' (N x R arrangement kept), 'anti' (explicit uniforms + antithetic=True)."""
    import numpy as np
    n = len(us)
    if path == 'flat':
        zs = flat(lib_quantile(us))
    elif path == 'vector':
        # the uniform numbers supplied as a one-dimensional vector (the other paths hand over two-dimensional tables)
        import biogeme.draws as dr
        out = dr.get_normal_wichura_draws(1, n, uniform_numbers=np.array(us, dtype=float))
        if tuple(out.shape) != (1, n):
            rec.violation('C11|quantile-transform-shape|vector', f'get_normal_wichura_draws returned {out.shape}',
                          dict(case_base), expected=[1, n], observed=list(out.shape))
            return
        zs = flat(out)
    elif path == 'shaped':
        rr = 7
        pad = (-n) % rr
        uu = list(us) + [0.5] * pad
        out = lib_quantile(uu, n=len(uu) // rr, r=rr)
        if tuple(out.shape) != (len(uu) // rr, rr):
            rec.violation('C11|quantile-transform-shape|shaped', f'get_normal_wichura_draws returned {out.shape}',
                          dict(case_base), expected=[len(uu) // rr, rr], observed=list(out.shape))
            return
        zs = flat(out)[:n]
    else:
        rr = 5
        pad = (-n) % rr
        uu = list(us) + [0.5] * pad
        nn = len(uu) // rr
        out = lib_quantile(uu, n=nn, r=rr, antithetic=True)
        if tuple(out.shape) != (nn, 2 * rr):
            rec.violation('C11|quantile-transform-shape|antithetic', f'get_normal_wichura_draws returned {out.shape}',
                          dict(case_base), expected=[nn, 2 * rr], observed=list(out.shape))
            return
        first = flat(out[:, :rr])
        second = flat(out[:, rr:])
        if not all_close(second, [-v for v in first], 0.0):
            rec.violation('C11|antithetic-mirror|get_normal_wichura_draws(antithetic=True)',
                          'second half is not the negative of the first half', dict(case_base),
                          expected=[-v for v in first[:4]], observed=second[:4])
        zs = first[:n]
    errs = quantile_errors(us, zs)
    _scipy_crosscheck(rec, us, [e[2] for e in errs])
    for u, z, zr, e in errs:
        reg = R_.region(u)
        rec.case((path, float(u).hex()), (float(u).hex(), float(z).hex()),
                 outcome=(path, reg, zr < 0, e <= TOL_Q))
    report_quantile(rec, errs, dict(case_base, path=path), f'get_normal_wichura_draws(uniform_numbers=u) [{path} path]')
    return max((e[3] for e in errs), default=0.0)


def _part_q(task, rec):
    if task['kind'] == 'special':
        pts = special_points()
        us = pts[task['lo']:task['hi']]
        if task['lo'] == 0:
            w = R_.selftest_as241()
            if w > 5e-15:
                raise RuntimeError(f'the transcription of AS241 (vf.ref_draws.as241) is off the certified quantile by {w:g}: '
                                   'finding keys of the quantile clause are not trusted')
            rec.count('as241_transcription_selftests')
    else:
        us = grid_points(task['m'], task['lo'], task['hi'])
    if not us:
        return
    for path in task['paths']:
        worst = run_q_points(rec, us, path, dict(part='q', kind=task['kind'], m=task.get('m'), lo=task['lo'],
                                                 hi=task['hi']))
    if task['lo'] == 0 or task.get('sample'):
        u = us[len(us) // 2]
        rec.sample(dict(part='q', kind=task['kind'], u=u, library=flat(lib_quantile([u]))[0], reference=R_.norm_ppf(u)))


# --------------------------------------------------------------------------- tasks
def sizes(tier):
    if tier == 'quick':
        ns, rs = [1, 2, 3, 5], [1, 2, 3, 4, 6, 10]
    else:
        ns, rs = [1, 2, 3, 4, 5, 7], [1, 2, 3, 4, 5, 6, 8, 10, 12, 16, 20, 50]
    out = [(n, r) for n in ns for r in rs]
    out.sort(key=lambda t: (t[0] * t[1], t[0]))
    return out


HIST_SHARDS = 21   # h2 / h3 / multi tasks deal the ordered pairs of entries round-robin over a multiple of this


def hist_tasks(tier):
    t = []
    hs = [list(x) for x in _hist_sizes(tier)]
    quick = tier == 'quick'
    k = 3
    for i in range(k):
        t.append(dict(part='hist', kind='rep', shard=[i, k], sizes=hs, muts=MUTS, k=3 if quick else 4))
    for i in range(k):
        t.append(dict(part='hist', kind='multi', shard=[i, k], sizes=hs))
    if quick:
        combos = [[[2, 2], [2, 2]], [[3, 4], [3, 4]], [[2, 2], [3, 4]], [[3, 4], [2, 2]], [[3, 4], [2, 6]]]
        plan = [['gen', 'gen', MUTS], ['db', 'db', ['none', 'zero']]]
        k2 = HIST_SHARDS
    else:
        combos = [[sa, sb] for sa in hs for sb in hs]
        plan = [['gen', 'gen', MUTS], ['db', 'db', ['none', 'zero']], ['gen', 'db', MUTS], ['db', 'gen', ['none', 'zero']]]
        k2 = 4 * HIST_SHARDS
    for i in range(k2):
        t.append(dict(part='hist', kind='h2', shard=[i, k2], combos=combos, plan=plan))
    if not quick:
        k3 = 4 * HIST_SHARDS
        for i in range(k3):
            t.append(dict(part='hist', kind='h3', shard=[i, k3],
                          combos=[[[2, 2], [2, 2]], [[2, 2], [3, 4]]],
                          plan=[['gen', ['none', 'flat']], ['db', ['none', 'zero']]]))
    # bind: k variables of one request x order of the names x insertion order of the dictionary x entry point
    ex = [None, 'first', 'last']
    kb = 3 if quick else 6
    for i in range(kb):
        t.append(dict(part='hist', kind='bind', k=2, shard=[i, kb], sizes=hs, vias=['db', 'idm'], extras=ex))
    for i in range(kb):
        t.append(dict(part='hist', kind='bind', k=3, menu=BIND_MENU, shard=[i, kb],
                      sizes=[[2, 2]] if quick else [[3, 4], [2, 6]], vias=['db', 'idm'], extras=ex))
    if not quick:
        k3 = 4 * HIST_SHARDS
        for i in range(k3):
            t.append(dict(part='hist', kind='bind', k=3, shard=[i, k3], sizes=[[2, 2]], vias=['db', 'idm'],
                          extras=ex))
    # ureg: registrations of user-defined generators (valid / reserved names) on one Database, then the request
    ku = 2 if quick else 6
    for i in range(ku):
        t.append(dict(part='hist', kind='ureg', depth=1, ops=UREG_OPS_ALL, shard=[i, ku],
                      sizes=[[2, 2], [3, 4]] if quick else hs))
    ku = 6 if quick else 4 * HIST_SHARDS
    for i in range(ku):
        t.append(dict(part='hist', kind='ureg', depth=2, ops=UREG_OPS_2 if quick else UREG_OPS_ALL, shard=[i, ku],
                      sizes=[[2, 2]]))
    if not quick:
        ku = 2 * HIST_SHARDS
        for i in range(ku):
            t.append(dict(part='hist', kind='ureg', depth=3, ops=UREG_OPS_3, shard=[i, ku], sizes=[[2, 2]]))
    for x in t:
        x['fresh'] = True
    return t


def tasks(tier, seed):
    t = []
    sz = sizes(tier)
    for n, r in sz:
        if n * r <= 60:
            t.append(dict(part='gen', N=n, R=r))
        else:  # large sizes: every entry's list of (tape, shuffle answer) cases is dealt round-robin over k tasks
            k = 8
            for i in range(k):
                t.append(dict(part='gen', N=n, R=r, shard=[i, k]))
    # "any requested size", every catalogue entry: every number of draws 1..T for one observation (and 7 observations where 7
    # divides it), first tape / first shuffle answer, all clauses of part gen
    top_g = 128 if tier == 'quick' else 400
    have = {tuple(q) for q in sz}
    for rr in range(1, top_g + 1):
        for nn in ((1, 7) if rr % 7 == 0 else (1,)):
            if (nn, rr // nn) not in have:
                t.append(dict(part='gen', N=nn, R=rr // nn, sweep=True))
    t.append(dict(part='hskip', sizes=[list(s) for s in sz]))
    small = [list(s) for s in sz if s[0] * s[1] <= (20 if tier == 'quick' else 60)]
    for base in ([2, 3, 5, 7] if tier == 'quick' else [2, 3, 5, 7, 11, 13]):
        t.append(dict(part='hd', base=base, skips=[0, 1, 9, 10, 11, 25] if tier == 'quick' else
                      [0, 1, 2, 3, 9, 10, 11, 24, 25, 26, 124, 125], sizes=small))
    for i in range(0, len(small), 4):
        t.append(dict(part='lhs', sizes=small[i:i + 4]))
    # "any requested size": every total size 1..T once as (1, T) and, where 7 divides it, as (7, T/7) (the strata are built
    # from the total number of points: a construction that goes wrong for particular totals - rounding of 1/T - shows here)
    top = 256 if tier == 'quick' else 1024
    sweep = [[1, n] for n in range(1, top + 1)] + [[7, n // 7] for n in range(7, top + 1, 7)]
    sweep = [q for q in sweep if q not in small]
    for i in range(0, len(sweep), 24):
        t.append(dict(part='lhs', sizes=sweep[i:i + 24], sweep=True, tapes=['weyl', 'hi']))
    t.append(dict(part='shape', sizes=[[1, 1], [1, 2], [2, 2], [3, 2], [2, 3], [5, 4]]))
    t += hist_tasks(tier)
    nsp = len(special_points())
    chunk = 1500
    for lo in range(0, nsp, chunk):
        t.append(dict(part='q', kind='special', lo=lo, hi=min(nsp, lo + chunk), paths=['flat', 'shaped', 'anti', 'vector']))
    m = 16 if tier == 'quick' else 19
    chunk = 4096 if tier == 'quick' else 8192
    for lo in range(0, 2 ** m, chunk):
        t.append(dict(part='q', kind='grid', m=m, lo=lo, hi=lo + chunk, paths=['flat']))
    return t


def run_task(task):
    rec = Rec()
    part = task['part']
    if part == 'gen':
        _part_gen(task, rec)
    elif part == 'hskip':
        _part_hskip(task, rec)
    elif part == 'hd':
        _part_hd(task, rec)
    elif part == 'lhs':
        _part_lhs(task, rec)
    elif part == 'shape':
        _part_shape(task, rec)
    elif part == 'hist':
        _part_hist(task, rec)
    elif part == 'q':
        _part_q(task, rec)
    else:
        raise KeyError(part)
    return rec.result()


# --------------------------------------------------------------------------- replay
def replay(case):
    rec = Rec()
    part = case['part']
    if part == 'gen':
        if 'pair' in case:
            _part_gen(dict(part='gen', N=case['N'], R=case['R']), rec)
            rec.violations = [v for v in rec.violations if v['case'].get('pair') == case['pair']]
        else:
            _part_gen(dict(part='gen', N=case['N'], R=case['R']), rec,
                      only=dict(type=case['type'], tape=case['tape'], perm=case['perm']))
            if 'witness_u' in case:
                rec.violations = [v for v in rec.violations if v['case'].get('witness_u') == case['witness_u']] \
                    or rec.violations
    elif part == 'hskip':
        _part_hskip(case, rec)
    elif part == 'hd':
        _part_hd(dict(base=case['base'], skips=[case['skip']], sizes=[[case['N'], case['R']]]), rec, only=case)
    elif part == 'lhs':
        _part_lhs(dict(sizes=[[case['N'], case['R']]]), rec, only=case)
    elif part == 'shape':
        _part_shape(case, rec)
    elif part == 'hist':
        _part_hist(case['task'], rec, stop_after=case['hindex'])
        rec.violations = [v for v in rec.violations
                          if (v['case'].get('hindex'), v['case'].get('pos')) == (case['hindex'], case['pos'])]
    elif part == 'q':
        if 'witness_u' in case:
            u = float.fromhex(case['witness_u'])
            run_q_points(rec, [u], case.get('path', 'flat'), dict(part='q', witness_u=case['witness_u']))
        else:
            _part_q(dict(case, paths=[case.get('path', 'flat')]), rec)
    return rec.violations
