"""C13 — data-set transformations keep rows and values intact.

Explicit-state search over operation histories of the real ``biogeme.database.Database``:

* a state is the history that reaches it; ``bfs_expand`` rebuilds a fresh Database from the root table,
  replays the history, and then
    - runs every *observing* operation (split, the two sample_* methods, extract_rows, count,
      values_from_database, generate_flat_panel_dataframe, get_sample_size ...) with **every** answer of the
      library's random source (owned seams: numpy.random.randint / numpy.random.shuffle / DataFrame.sample)
      and compares the returned objects with what a naive reference table implies; the state must not change;
    - for every enabled *mutating* operation (remove, add_column, define_variable, scale_column, panel,
      build_panel_map) replays history+[op] on a fresh object, steps the reference model alongside and
      compares the complete table (surviving rows identified by a tag column, order, every cell, column list,
      excludedData, panel flag, individual map, sample size).  The canonical form of the reached real state
      is returned for de-duplication.
* formulas (conditions, new columns) are evaluated by the real engine through the library; the reference
  evaluates the same term per row in plain Python.
* a second search runs over a *wide* alphabet -- conditions whose values are non-zero but of any magnitude (tiny
  factors, a column used as condition, a raw non-zero number), tiny scale factors, a stored column of tiny values and
  a formula that is undefined (NaN) on some rows -- composed with remove / panel to its own depth bound; three sweeps
  vary one of these symbols over its whole menu after a few earlier operations: every magnitude x every way a tiny
  condition value can arise; every placement of undefined values in a defined variable, then panel / remove /
  flatten; every placement of {value, other value, undefined} in one column of a raw frame handed directly to
  ``biogeme.tools.database.flatten_database`` (the function behind generate_flat_panel_dataframe).
* a third search runs over the *column-type* alphabet: root tables whose columns are all int64, all float64, or mixed
  either way (one of them is the text of a CSV file read by pandas.read_csv), and operations whose operands are not
  integers (scale factors 0.5 / 0.01 / 2.5, thresholds, coefficients and condition values between 0 and 1, a counted
  value 0.5); a sweep applies every operand of a menu x every column x every kind of transformation (scale, stored
  product then used as condition, stored difference, product / threshold / equality as condition) after a few earlier
  operations on every root table, and the hand-written chains are repeated on the typed tables.
* row designations: the two entry points that extract rows (extract_rows -> one Database, mdcev_row_split -> one
  Database per row, no designation = every row) are called in every state with every position list of length <= 2, the
  full range and its reverse, and with every container a caller may hold the positions in: list / tuple / range /
  one-shot iterator / numpy array / list of numpy integers -- and, for mdcev_row_split, the designation of *no* row in
  each of these forms (nothing must come back; extract_rows refuses an empty table).  The optional arguments whose
  default is None are also given their falsy value: sample size 0, identical_columns=[].
* a fourth search varies the *formula object*: the expression handed to add_column / define_variable / remove /
  values_from_database may have a past -- evaluated on another table, numbered by Expression.prepare or by a model
  (BIOGEME object, log likelihood or simulated quantity) built on another table whose columns are laid out differently,
  be a part of such a model, share its Variable objects with one, belong to a model on this very table, or be the object
  of an earlier operation of the same history.  Kind of past x layout of the other table x formula (one with a
  parameter, taken at its initial value) x operation, after a few earlier operations, then a second use of the same
  object after the table has changed.
* a fifth search takes the operations the library *refuses* as events of the history: the declaration of a panel on a
  column whose equal values are not consecutive (root tables D, E with interleaved individuals; the columns c and x of every
  table), a new column under an existing name, and -- as observing operations -- split with fewer than two slices or another
  group column on panel data, positions outside the table for extract_rows / mdcev_row_split, the two panel-only calls on
  data that are not panel.  A refused operation leaves the state where it is (complete comparison), and the object is used
  further afterwards (observers, one more column); hand-written chains put refusals between accepted operations.
* large tables (40 / 60 / 40 rows: 2-3 individuals in consecutive blocks that are not in ascending order of identifier,
  one block of a single row; RangeIndex / reversed / duplicate labels): histories through panel, remove on panel data (which
  rebuilds the map) and build_panel_map; the observations of every individual must keep the order of the table (the flat
  table numbers them, extract_rows designates them by position), the flat table is compared with the original table.

The reference model never imports biogeme / pandas / numpy.
"""
from __future__ import annotations

import itertools
import json
import math
import os

from vf.rec import Rec, short_hash

ID = 'C13'
LEVEL = 'model_checking'
TECHNIQUE = ('explicit-state breadth-first search over operation histories of the real Database object '
             '(state = history, replayed on fresh objects), every random answer of split/sample enumerated '
             'through owned seams, each step compared with a naive reference table')
RULE = ('one case per executed operation: (root table, history, operation, random answer / argument).  Mutating '
        'operations (remove x 5|9 conditions, add_column / define_variable x 3 formulas, scale_column x 2|3, panel, '
        'build_panel_map) are expanded breadth-first to depth 3|4 from three root tables, states merged on the canonical '
        'form of the real object (index labels, columns, dtypes, every cell, panel column, individual map, excludedData); '
        'in every expanded state every observing operation is executed: split for slices 2,3,5|2,3,4,5 x groups None/id/c '
        'with every permutation the shuffle can return, sample_with_replacement (size None,1,2) and '
        'sample_individual_map_with_replacement (size None,2) with every index vector the generator can return '
        '(length > 3: vectors over at most 2|3 distinct values), extract_rows for every position list of length <= 2, '
        'the full range, its reverse and list/tuple/range/iterator forms, count for every (column, present value), '
        'values_from_database, flattening with detected and given identical columns, size queries.  Six hand-written '
        'chains of 6-7 operations per root go beyond the depth bound.  A case is non-trivial when it is executed after '
        'at least one earlier operation or with a non-identity random answer; distinct = distinct (root, history, '
        'operation, answer).  Wide alphabet (second search, depth 3 from the same roots; reduced observer list in quick, '
        'complete in thorough): remove x {c==1, the column x itself, x*2^-40, (c-1)*2^-27, the raw number 2^-40, the stored '
        'tiny column t}, add_column t = x*2^-34, define_variable w = log(1-2*(c==1)) (NaN where c==1), scale_column x by '
        '2^-40 | also 1e-9 and c by 2^40, panel; flatten_database called directly (detected / given identical columns) in every '
        'state of both searches.  Sweeps: 8|13 magnitudes 2^-20..2^-1000, 1e-7..1e-300, 2^40, 2^100 x 5 ways a condition value '
        'of that magnitude arises (formula factor, scale then column as condition, stored column as condition, signed '
        '(c-1)*m, raw number) x 4 earlier histories x 3 roots; all 31 placements of NaN in a defined variable x base '
        '0,x|0,id,x x 2|5 histories (define, [remove], panel, flatten ...) x 3 roots; all 3^5 columns over {v1, v2, NaN} x '
        '2|5 raw frames (contiguous / interleaved / unsorted / single / singleton individuals; range, duplicate, permuted, '
        'gapped labels) x identical columns detected / given / given with all-undefined individuals.  Column types (third '
        'search, depth 3): root tables A.i (every column int64), B.f (every column float64), C.v (CSV text read by '
        'pandas.read_csv: x, id, r int64, c float64) | all 9 index layouts x typings; remove x {c > 0.5, c*0.5, x*0.125, the '
        'stored column q = c*0.5-0.5}, add_column h = c*0.5 + id*0.25, define_variable q, scale_column c by 0.5, x by 0.01, '
        'id by 0.5 | also c by 2.5 and x by 3, panel; values_from_database(c*0.5 + id*0.25) and count(column, 0.5) in every '
        'state; thorough: also the base alphabet (depth 3, complete observer list) from A.i, B.f, C.v.  Operand sweep: 6|11 '
        'operands (0.5, 0.01, -0.25, 1/3, 0.999, 3 | 1.5, 1e-3, 2.5, 2.0, -1) x columns c, x, id x 6 kinds of transformation '
        '(scale; add col*k then remove on it; define col-k; remove on col*k, on col > k, on col*k == k) x 4 earlier '
        'histories x 6|12 root tables (the three mixed ones and the typed ones), written cells compared with a purely '
        'relative tolerance; the six chains on the typed tables (2 each | all).  Row designations: mdcev_row_split in every '
        'expanded state with no argument, every position list of length <= 2, full range, reverse, the empty designation as '
        'list / tuple / range / iterator / numpy array, numpy arrays [0], [n-1], [n-1, 0], full, tuple / range / iterator / list '
        'of numpy integers (reduced plan in the wide states); extract_rows additionally with numpy arrays and numpy integers; extract_rows / mdcev_row_split also with range objects having a start, a stop and a step (every arithmetic progression of positions with steps +-1, +-2, +-3, the stop written just behind the last element or one step later); '
        'sample size 0 for both sample_* methods; flattening with identical_columns=[] (method, function, all 3^5 raw frames).  '
        'Formula objects (fourth part): 8 kinds of past (fresh; evaluated / prepared / model / simulation / part of a model / '
        'variables shared with a model on another table; model on this table) x 3|26 layouts of the other table (same order, '
        'reverse, further column in front | every order of the 4 columns after 2 of the 4 earlier histories, 4 after the others) '
        'x formulas lin, mix, b*x+c | also obs, frac, fixed parameter x {add_column, define_variable, values_from_database} and x '
        'conditions c==1, x>k | also or, c-1 for remove, x 4 earlier histories x 3|6 root tables; each followed by a second use '
        'of the same object (define_variable / values_from_database after add_column + scale_column; remove after remove + '
        'scale_column).  Refusals (fifth search, depth 2|3 from A, B, D, E | also C, and typed D.f, E.i, D.v to depth 2; D / E = 5 rows '
        'whose individuals are interleaved): remove x 3|5 conditions, add_column y1, scale x, build_panel_map, and the refused '
        'events panel(id) on non-consecutive individuals, panel(c), panel(x), add_column / define_variable under an existing '
        'name; in every state the reduced observer list plus 7 refused observing calls (split(1), split(0), split(2, other '
        'group) on panel, extract_rows([n]), ([-1]), ([0, n]), mdcev_row_split([n]), sample_individual_map / flat on non-panel '
        'data); after every refused event the complete state comparison, then sizes / values / count / extract / flatten and '
        'one add_column on the same object; 3 chains of 6 operations with refusals between accepted operations x 6|10 tables, '
        'observers after every step.  Large tables L1 (2 x 20 rows), L2 (3 x 20, reversed labels), L3 (17 + 1 + 22, duplicate '
        'labels) | also typed L1.f, L2.i, L3.v, blocks not in ascending order of identifier: 7 histories of 1-4 operations '
        '(panel; remove, panel; panel, remove; panel, add, remove, build_map; scale, remove, panel, remove; panel, remove an '
        'individual, define, build_map; remove, panel, remove, add), every step compared row by row in the order of the table, '
        'observers (sizes, values, count for every present value, extract / mdcev_row_split reduced designations, sample of size '
        '1 at every position, sample of the map with every vector over the individuals, split 2 / 3 grouped with every '
        'permutation, flat table detected / given / none identical, flatten_database) after the last step | in every panel '
        'state.  Identifiers: panel(id) [, remove] then scale_column(id, k), k in 10, 0.5 | 2, 100, 0.25, on A, B, L1 | C, A.f, L2, '
        'complete comparison and observers.  Row names: flatten_database(row_name = r) x identical columns detected / given / '
        'none on all 3^5 raw frames of every layout (quick: layouts 0, 1 and the singleton layout).  (a|b = quick|thorough)')
ASSUMPTIONS = [
    'tables have 5 rows (ids grouped 2-1-2) and 4 numeric columns with dyadic values so that the reference arithmetic is '
    'exact; three root tables: RangeIndex / permuted integer labels with unsorted individual ids / duplicate labels '
    '(as produced by pd.concat or by the library\'s own sample_with_replacement); two 5-row tables with interleaved '
    'individuals and three large tables (40-60 rows) are used by the refusal and large-table parts only (reduced observer '
    'menus there: no enumeration of 40! shuffles); VERIF_SEED selects one of five value alphabets',
    'an operation the library documents as refused (BiogemeError / ValueError / IndexError) is an event after which the rows '
    'and values of the table are what they were ("keep rows and values intact"): the state is compared completely; whether '
    'the refusal happens is not demanded (an accepted call is compared as carried out and counted)',
    'column types are int64 and float64 (what a CSV reader produces for numeric columns; the library refuses non-numeric '
    'columns): x float64 and id, r, c int64 in the three base tables, all-int64 / all-float64 / read_csv-inferred variants '
    '(x = 4*XS as integers) in the column-type parts; the statement speaks of values, so the type of a column after an '
    'operation is not checked, only every value; operands that are not dyadic (0.01, 1/3, 0.999, 1e-3) are multiplied in '
    'the reference by the same single IEEE operation (integer cell -> float, times operand) and compared at relative 1e-10; '
    'scaling the panel column after panel() (a change of the identifiers the individual map is keyed by) is not in the alphabet '
    'of the column-type parts; it has a part of its own (positive factors only: grouping and order of the individuals are '
    'kept): the map of the individuals must name the individuals of the rescaled table (a bootstrap sample of the map holds '
    'only existing individuals)',
    'flatten_database(row_name=...) is exercised on the raw frames with the tag column r as row name (unique on every row, so '
    'never the documented refusal of duplicate names inside an individual); the new columns are identified as '
    '(value of r, column) whatever the spelling of the value; when every individual is observed once a flat table with '
    'every column identical is accepted as well',
    'library randomness enters only through numpy.random.randint, numpy.random.shuffle and DataFrame.sample(frac=1) '
    '(owned; a call outside an enumerated operation, or a different use of the seams, is a harness error)',
    'excludedData is the number of rows deleted by the most recent remove (the documented per-call meaning)',
    'formulas are restricted to + - * comparisons and/or on existing columns, plus log of an indicator expression (0 or '
    'undefined): nothing is expected to raise inside the engine; refusals (existing column name, out-of-range positions, '
    'non-panel flattening, extract_rows / Database() on a table holding NaN) are not part of the alphabet',
    '"non-zero" in the statement has no threshold: a condition value of 2^-1000 deletes the row, and the count says so; '
    'magnitudes stay within 1e-301..1e31 (the engine refuses values near the overflow limit and subnormal literals)',
    'undefined values (NaN) are values of the table: every operation must carry them along; conditions and counted values '
    'never refer to an undefined cell (whether NaN is "non-zero" / "equal to NaN" is not fixed by the statement); in the '
    'flat table a column that is undefined on all observations of an individual may be laid out as identical or as '
    'varying (both keep every value), any other column with an undefined cell next to a defined one must be varying',
    'the panel sort must order the rows by individual id and keep the observations of one individual in the order of the '
    'table (the flat table numbers them in that order and rows are designated by position: "what the original table '
    'implies"); a different order inside an individual is reported once (clause individual-rows-reordered-by-panel-sort), '
    'the comparison then goes on with the observed order',
    'fold sizes and the distribution of the samples are not part of the statement and are not checked',
    'mdcev_row_split is taken as an entry point of "extracting rows" (it returns the designated rows of the current table, one '
    'Database each); a designation is any iterable of in-range positions, including an empty one and numpy containers '
    '(the argument is declared Iterable[int]); a sample of size 0 and identical_columns=[] are legal values of optional '
    'arguments whose default None means something else',
    'the value of a formula on a row does not depend on the past of the Python object that represents it; a formula with a '
    'parameter (Beta) has the value obtained with the initial value of the parameter (what values_from_database documents); '
    'on panel data a model on this table holds the formula as a simulated quantity (as log likelihood it is refused); the '
    'state of the other table / model after the operation belongs to other properties and is not examined here; a worker '
    'process that dies during the formula-object sweep is reported as a violation (nothing there is expected to be refused)',
]
ANCHOR_FILES = ['src/biogeme/database.py', 'src/biogeme/tools/database.py']
DETERMINISM_SLICE = 3
TASK_TIMEOUT = 600.0

# --------------------------------------------------------------------------- alphabets (VERIF_SEED picks one)
_SEED = int(os.environ.get('VERIF_SEED', '0') or 0)
_K = _SEED if 0 <= _SEED < 4 else 4      # five value alphabets; seeds >= 4 use the fifth
RID = [10, 20, 30, 40, 50]                                   # row tag column 'r' (original row id)
XS = [[1.5, -2.0, 0.0, 4.0, 2.5],
      [0.25, 3.0, -1.5, 0.0, 8.0],
      [-0.5, 0.0, 2.0, 6.5, 1.25],
      [4.0, 0.5, -3.0, 2.25, 0.0],
      [-1.0, 5.0, 0.0, 0.75, 3.5]][_K]
CS = [[0, 1, 2, 1, 0],
      [1, 0, 1, 2, 2],
      [2, 1, 0, 0, 1],
      [1, 2, 0, 1, 1],
      [0, 0, 1, 2, 1]][_K]
IDS_SORTED = [[1, 1, 2, 3, 3], [2, 2, 5, 7, 7], [1, 1, 4, 6, 6], [4, 4, 6, 9, 9], [10, 10, 11, 12, 12]][_K]
IDS_UNSORTED = [[3, 3, 1, 2, 2], [7, 7, 2, 5, 5], [4, 4, 6, 1, 1], [9, 9, 4, 6, 6], [12, 12, 10, 11, 11]][_K]
COLS = ['x', 'id', 'r', 'c']                                 # order differs from alphabetical order
TABLES = {
    'A': dict(ids=IDS_SORTED, index=None),                   # RangeIndex
    'B': dict(ids=IDS_UNSORTED, index=[4, 2, 0, 3, 1]),      # label != position, ids contiguous but not sorted
    'C': dict(ids=IDS_SORTED, index=[0, 1, 2, 0, 1]),        # duplicate labels (two concatenated parts)
}
XTHR = [1.0, 0.2, 1.0, 0.4, 0.5][_K]
# -- tables whose individuals are NOT consecutive (the declaration panel('id') is refused, the table must stay as it is):
# D interleaved, RangeIndex; E becomes consecutive once the individual in the middle is removed, permuted labels
_IA, _IB, _IC = sorted(set(IDS_SORTED))
TABLES['D'] = dict(ids=[_IB, _IA, _IC, _IA, _IB], index=None)
TABLES['E'] = dict(ids=[_IA, _IA, _IB, _IA, _IC], index=[4, 2, 0, 3, 1])
# -- large tables (more than 16 rows: sorting algorithms switch from insertion sort to an algorithm that need not keep the
# order of equal keys): blocks of individuals that are consecutive but not in ascending order of identifier
LARGE = {
    'L1': dict(blocks=[(_IB, 20), (_IA, 20)], index='range'),                      # 2 individuals x 20 observations
    'L2': dict(blocks=[(_IB, 20), (_IC, 20), (_IA, 20)], index='reverse'),         # 3 x 20, labels n-1 .. 0
    'L3': dict(blocks=[(_IC, 17), (_IA, 1), (_IB, 22)], index='duplicate'),        # unequal blocks, duplicate labels
}


def table_spec(base):
    """-> dict(n, ids, index, rid, xs, cs) of a root table (xs as in the mixed typing: floats)."""
    if base in LARGE:
        sp = LARGE[base]
        ids = [g for g, m in sp['blocks'] for _ in range(m)]
        n = len(ids)
        index = {'range': None, 'reverse': list(range(n - 1, -1, -1)), 'duplicate': [i % 7 for i in range(n)]}[sp['index']]
        return dict(n=n, ids=ids, index=index, rid=[10 * (i + 1) for i in range(n)],
                    xs=[XS[i % 5] + 0.25 * (i // 5) for i in range(n)], cs=[CS[(i + i // 5) % 5] for i in range(n)])
    sp = TABLES[base]
    return dict(n=5, ids=list(sp['ids']), index=sp['index'], rid=list(RID), xs=list(XS), cs=list(CS))


def is_large(table):
    return split_table(table)[0] in LARGE
# -- column types.  A table name is '<A|B|C>' (the mixed table above: x float64, id / r / c int64 as built from Python
# numbers) or '<A|B|C>.<variant>':  i = every column int64 (x holds 4*XS), f = every column float64, v = the text of a
# CSV file read by pandas.read_csv (x written as integers -> int64, c written as '1.0' -> float64, id / r int64).
XI = [int(v * 4) for v in XS]
assert [v / 4 for v in XI] == [float(v) for v in XS]
DT_VARIANTS = ('i', 'f', 'v')


def split_table(table):
    base, _, var = table.partition('.')
    return base, (var or 'm')


def table_x(var, xs=None):
    xs = XS if xs is None else xs
    return list(xs) if var in ('m', 'f') else [int(v * 4) for v in xs]


def V(n):
    return ('v', n)


def N(v):
    return ('n', v)


def conds(ids, rid=None):
    rid = RID if rid is None else rid
    mid = ids[len(ids) // 2]
    return {
        'c_eq_1': ('==', V('c'), N(1)),
        'c_minus_1': ('-', V('c'), N(1)),                     # negative / zero / positive condition values
        'id_mid': ('==', V('id'), N(mid)),                    # deletes a whole individual
        'zero': N(0),                                         # raw Python number: deletes nothing
        'x_gt': ('>', V('x'), N(XTHR)),
        'first': ('==', V('r'), N(rid[0])),
        'last': ('==', N(rid[-1]), V('r')),                   # number on the left
        'or': ('|', ('<', V('x'), N(0)), ('==', V('c'), N(2))),
        'y1_small': ('<', V('y1'), N(1.5)),                   # uses a column added earlier
    }


FORMULAS = {
    'lin': ('+', ('*', V('x'), N(2)), V('c')),
    'mix': ('-', ('*', ('==', V('c'), N(1)), V('x')), V('id')),
    'prod': ('*', V('c'), V('x')),
    'obs': ('+', ('*', V('x'), V('x')), ('>=', V('c'), N(1))),
}
ADDS = {'y1': 'lin', 'y2': 'mix'}        # add_column(name <- formula)
DEFINES = {'z': 'prod'}                  # define_variable
SCALES_Q = [('x', 0.5), ('c', 2)]
SCALES_T = [('x', 0.5), ('c', 2), ('x', -4.0)]

# -- magnitudes of non-zero values ("non-zero" in the statement has no threshold) and undefined values
MAGS = {'2^-20': 2.0 ** -20, '2^-27': 2.0 ** -27, '2^-34': 2.0 ** -34, '2^-40': 2.0 ** -40, '2^-100': 2.0 ** -100,
        '2^-1000': 2.0 ** -1000, '1e-7': 1e-7, '1e-9': 1e-9, '1e-10': 1e-10, '1e-15': 1e-15, '1e-300': 1e-300,
        '2^40': 2.0 ** 40, '2^100': 2.0 ** 100}
MAGS_Q = ['2^-20', '2^-27', '2^-40', '2^-1000', '1e-7', '1e-9', '1e-15', '2^40']
# wide alphabet (second breadth-first search): conditions with tiny / arbitrary non-zero values, tiny scale factors,
# a column of tiny values, a formula that is undefined (NaN) on some rows
FORMULAS['tiny'] = ('*', V('x'), N(2.0 ** -34))
FORMULAS['undef'] = ('log', ('-', N(1), ('*', N(2), ('==', V('c'), N(1)))))      # 0 where c != 1, NaN where c == 1
WIDE_CONDS = ['c_eq_1', 'col:x', 'xm:2^-40', 'cm:2^-27', 'k:2^-40', 'col:t']
WIDE_ADDS = {'t': 'tiny'}
WIDE_DEFINES = {'w': 'undef'}
WIDE_SCALES_Q = [('x', 2.0 ** -40)]
WIDE_SCALES_T = [('x', 2.0 ** -40), ('x', 1e-9), ('c', 2.0 ** 40)]

# column-type alphabet (third breadth-first search): the same operations with operands that are not integers, on tables
# whose columns are all integer / all float / mixed either way (a file of costs in cents and times in minutes)
FORMULAS['frac'] = ('+', ('*', V('c'), N(0.5)), ('*', V('id'), N(0.25)))       # non-integer coefficients
FORMULAS['halfc'] = ('-', ('*', V('c'), N(0.5)), N(0.5))                         # -0.5 / 0 / 0.5
FORMULAS['c_gt_half'] = ('>', V('c'), N(0.5))                                    # non-integer threshold
FORMULAS['frac_c'] = ('*', V('c'), N(0.5))                                       # condition values 0 / 0.5 / 1
FORMULAS['x_frac'] = ('*', V('x'), N(0.125))                                     # condition values below 1 in magnitude
DT_CONDS = ['c_gt_half', 'frac_c', 'x_frac', 'col:q']
DT_ADDS = {'h': 'frac'}
DT_DEFINES = {'q': 'halfc'}
DT_SCALES_Q = [('c', 0.5), ('x', 0.01), ('id', 0.5)]
DT_SCALES_T = [('c', 0.5), ('x', 0.01), ('id', 0.5), ('c', 2.5), ('x', 3)]
# operands of the column-type sweep: name -> number (Python int / float as written by a user)
OPERANDS = {'0.5': 0.5, '0.01': 0.01, '1.5': 1.5, '-0.25': -0.25, '1/3': 1.0 / 3.0, '1e-3': 1e-3, '2.5': 2.5,
            '0.999': 0.999, '3': 3, '2.0': 2.0, '-1': -1}
OPERANDS_Q = ['0.5', '0.01', '-0.25', '1/3', '0.999', '3']

# -- the formula *object* (fourth search dimension).  A formula handed to add_column / define_variable / remove /
# values_from_database is an object that may have been used before: evaluated on another table, numbered by hand
# (Expression.prepare) or by a model (BIOGEME object) built on another table whose columns are laid out differently, be a
# part of such a model, share its variables with one, belong to a model on this very table, or be the object of an earlier
# operation of the same history.  Whatever its past, the stored / returned values are the values of the formula on the
# rows of *this* table.  ('b', name, value, status) is a parameter: the value of the formula is taken at `value`.
FORMULAS['beta'] = ('+', ('*', ('b', 'b13', 2.0, 0), V('x')), V('c'))          # b*x + c, b = 2 (a utility)
FORMULAS['betafix'] = ('-', ('*', ('b', 'f13', -0.5, 1), V('c')), V('id'))     # fixed parameter
PROV_KINDS = ['fresh', 'evaluated-on-another-table', 'prepared-on-another-table', 'model-on-another-table',
              'simulation-on-another-table', 'part-of-a-model-on-another-table', 'variables-shared-with-a-model-on-another-table',
              'model-on-this-table']
PROV_LOCAL = ('fresh', 'model-on-this-table')             # kinds without another table
PROV_FORMULAS_Q, PROV_FORMULAS_T = ['lin', 'mix', 'beta'], ['lin', 'mix', 'beta', 'obs', 'frac', 'betafix']
PROV_CONDS_Q, PROV_CONDS_T = ['c_eq_1', 'x_gt'], ['c_eq_1', 'x_gt', 'or', 'c_minus_1']
# layouts of the other table: every order of the four columns (0 = the order of this table), and two with a further column
LAYOUTS = [list(p) for p in itertools.permutations(COLS)] + [['e1'] + COLS, ['x', 'e1', 'id', 'r', 'c']]
assert LAYOUTS[0] == COLS


def prov_layouts(tier, pre=0):
    """quick: the same order, the reverse order, a further column in front; thorough: also a rotation, and every layout
    after the first and the last of the earlier histories."""
    few = [0, LAYOUTS.index(COLS[::-1]), LAYOUTS.index(['e1'] + COLS)]
    if tier != 'thorough':
        return few
    if pre in (0, len(PRE) - 1):
        return list(range(len(LAYOUTS)))
    return few + [LAYOUTS.index(COLS[1:] + COLS[:1])]


def parse_prov(p):
    kind, _, rest = p.partition('@')
    layout, _, tag = rest.partition('#')
    return kind, int(layout or 0), tag


def prov_of(op):
    """The past of the formula object of an operation ('<kind>@<layout>#<tag>'), None if the formula is built afresh."""
    i = {'add': 3, 'define': 3, 'remove': 2, 'values': 2}.get(op[0])
    return op[i] if i is not None and len(op) > i else None


def prov_class(op):
    p = prov_of(op)
    if p is None:
        return ''
    kind, layout, _ = parse_prov(p)
    if kind in PROV_LOCAL or kind == 'reused':
        return f';formula={kind}'
    return f';formula={kind};columns={"same-order" if layout == 0 else "other-order"}'


def term_of(name):
    """Formula / condition by name; parametrised families are resolved from the name itself:
    xm:<m> = x*m, cm:<m> = (c-1)*m, k:<m> = the raw number m, col:<name> = the column itself,
    fm:<col>:<k> = col*k, fg:<col>:<k> = col > k, fs:<col>:<k> = col - k, fq:<col>:<k> = (col*k == k) (k an operand name),
    nan:<mask>:<base> = base + log(1 - 2*[row tag in mask]) = base where the row is not in the mask, NaN where it is."""
    if name in FORMULAS:
        return FORMULAS[name]
    p = name.split(':')
    if p[0] == 'xm':
        return ('*', V('x'), N(MAGS[p[1]]))
    if p[0] == 'cm':
        return ('*', ('-', V('c'), N(1)), N(MAGS[p[1]]))
    if p[0] == 'k':
        return N(MAGS[p[1]])
    if p[0] == 'col':
        return V(p[1])
    if p[0] == 'fm':
        return ('*', V(p[1]), N(OPERANDS[p[2]]))
    if p[0] == 'fg':
        return ('>', V(p[1]), N(OPERANDS[p[2]]))
    if p[0] == 'fs':
        return ('-', V(p[1]), N(OPERANDS[p[2]]))
    if p[0] == 'fq':
        return ('==', ('*', V(p[1]), N(OPERANDS[p[2]])), N(OPERANDS[p[2]]))
    if p[0] == 'nan':
        mask = int(p[1])
        ind = None
        for i in range(5):
            if mask >> i & 1:
                e = ('==', V('r'), N(RID[i]))
                ind = e if ind is None else ('+', ind, e)
        und = ('log', ('-', N(1), ('*', N(2), ind)))
        return und if p[2] == '0' else ('+', und, V(p[2]))
    raise KeyError(name)


def term_columns(t):
    if t[0] == 'v':
        return {t[1]}
    if t[0] in ('n', 'b'):
        return set()
    return set().union(*(term_columns(s) for s in t[1:]))


# --------------------------------------------------------------------------- reference model (plain Python)
def ev(t, row):
    k = t[0]
    if k == 'v':
        return float(row[t[1]])
    if k == 'n':
        return float(t[1])
    if k == 'b':
        return float(t[2])
    if k == 'log':
        a = ev(t[1], row)
        if a != a or a < 0.0:
            return float('nan')
        return -math.inf if a == 0.0 else math.log(a)
    a, b = ev(t[1], row), ev(t[2], row)
    if k == '+':
        return a + b
    if k == '-':
        return a - b
    if k == '*':
        return a * b
    if k == '==':
        return 1.0 if a == b else 0.0
    if k == '!=':
        return 1.0 if a != b else 0.0
    if k == '<':
        return 1.0 if a < b else 0.0
    if k == '<=':
        return 1.0 if a <= b else 0.0
    if k == '>':
        return 1.0 if a > b else 0.0
    if k == '>=':
        return 1.0 if a >= b else 0.0
    if k == '&':
        return 1.0 if (a != 0.0 and b != 0.0) else 0.0
    if k == '|':
        return 1.0 if (a != 0.0 or b != 0.0) else 0.0
    raise ValueError(k)


class RefTable:
    """Naive table: list of (original-row-id, {column: value}) pairs."""

    def __init__(self, table):
        base, var = split_table(table)
        spec = table_spec(base)
        xs = table_x(var, spec['xs'])
        self.cols = list(COLS)
        self.rows = []
        for i in range(spec['n']):
            self.rows.append((spec['rid'][i], {'x': float(xs[i]), 'id': float(spec['ids'][i]), 'r': float(spec['rid'][i]),
                                               'c': float(spec['cs'][i])}))
        self.panel = None
        self.excluded = 0
        self.conds = conds(spec['ids'], spec['rid'])

    @classmethod
    def raw(cls, cols, rows):
        """A reference table given directly (rows = [(tag, {column: value})]), for the entry points on raw frames."""
        self = cls.__new__(cls)
        self.cols, self.rows, self.panel, self.excluded, self.conds = list(cols), list(rows), None, 0, {}
        return self

    def cond_term(self, cond):
        return self.conds[cond] if cond in self.conds else term_of(cond)

    def has_undefined(self):
        return any(v != v for _, row in self.rows for v in row.values())

    # -- operations
    def remove(self, cond):
        t = self.cond_term(cond)
        keep, gone = [], 0
        for rid, row in self.rows:
            if ev(t, row) != 0.0:
                gone += 1
            else:
                keep.append((rid, row))
        self.rows = keep
        self.excluded = gone

    def add(self, name, formula):
        t = term_of(formula)
        for rid, row in self.rows:
            row[name] = ev(t, row)
        if name not in self.cols:
            self.cols.append(name)

    def scale(self, col, s):
        for rid, row in self.rows:
            row[col] = row[col] * s

    def set_panel(self, col):
        self.panel = col
        self.sort_panel()

    def sort_panel(self):
        if self.panel is not None:
            self.rows = sorted(self.rows, key=lambda rr: rr[1][self.panel])  # stable

    # -- derived
    def imap(self):
        """[(individual, first position, last position)] of consecutive runs, None if not panel."""
        if self.panel is None:
            return None
        out = []
        for pos, (rid, row) in enumerate(self.rows):
            v = row[self.panel]
            if out and out[-1][0] == v:
                out[-1][2] = pos
            else:
                out.append([v, pos, pos])
        return [tuple(e) for e in out]

    def sample_size(self):
        return len(self.rows) if self.panel is None else len(self.imap())

    def groups(self, col):
        g = {}
        for rid, row in self.rows:
            g.setdefault(row[col], []).append(rid)
        return g

    def row_of(self, rid):
        for r, row in self.rows:
            if r == rid:
                return row
        return None

    def refuses(self, op):
        """Documented refusals: the declaration of a panel on a column whose equal values are not consecutive
        (BiogemeError), a new column under an existing name (ValueError).  A refused operation leaves the table as it is."""
        k = op[0]
        if k == 'panel':
            vals = [row[op[1]] for _, row in self.rows]
            runs = sum(1 for i, v in enumerate(vals) if i == 0 or vals[i - 1] != v)
            return 'values-not-consecutive' if runs != len(set(vals)) else None
        if k in ('add', 'define'):
            return 'existing-column-name' if op[1] in self.cols else None
        return None

    def apply(self, op):
        k = op[0]
        if k == 'remove':
            self.remove(op[1])
        elif k == 'add':
            self.add(op[1], formula_name(op))
        elif k == 'define':
            self.add(op[1], formula_name(op))
        elif k == 'scale':
            self.scale(op[1], op[2])
        elif k == 'panel':
            self.set_panel(op[1])
        elif k == 'build_map':
            self.sort_panel()
        else:
            raise ValueError(op)


def formula_name(op):
    """['add'|'define', column] uses the fixed formula of that column; ['add'|'define', column, formula] names it."""
    if len(op) > 2:
        return op[2]
    for d in (ADDS, DEFINES, WIDE_ADDS, WIDE_DEFINES, DT_ADDS, DT_DEFINES):
        if op[1] in d:
            return d[op[1]]
    raise KeyError(op)


def wide_mutators(ref: RefTable, tier):
    """The wide alphabet: value magnitudes and undefined values, composed with a few basic operations."""
    ops = []
    for c in WIDE_CONDS:
        if term_columns(ref.cond_term(c)) <= set(ref.cols):
            ops.append(['remove', c])
    for name in WIDE_ADDS:
        if name not in ref.cols:
            ops.append(['add', name])
    for name in WIDE_DEFINES:
        if name not in ref.cols:
            ops.append(['define', name])
    for col, s in (WIDE_SCALES_T if tier == 'thorough' else WIDE_SCALES_Q):
        ops.append(['scale', col, s])
    ops.append(['panel', 'id'])
    return ops


def dt_mutators(ref: RefTable, tier):
    """The column-type alphabet: every kind of operation with an operand that is not an integer."""
    ops = []
    for c in DT_CONDS:
        if term_columns(ref.cond_term(c)) <= set(ref.cols):
            ops.append(['remove', c])
    for name in DT_ADDS:
        if name not in ref.cols:
            ops.append(['add', name])
    for name in DT_DEFINES:
        if name not in ref.cols:
            ops.append(['define', name])
    for col, s in (DT_SCALES_T if tier == 'thorough' else DT_SCALES_Q):
        # the map of the individuals is keyed by the values of the panel column: scaling that column afterwards is a
        # change of the identifiers; it is explored by the part 'idscale' (one finding key), not here
        if col != ref.panel:
            ops.append(['scale', col, s])
    ops.append(['panel', 'id'])
    return ops


def rf_mutators(ref: RefTable, tier):
    """The refusal alphabet: a few basic operations and the operations the library documents as refused in this state
    (panel on a column whose equal values are not consecutive, a new column under an existing name)."""
    ops = []
    for c in (['c_eq_1', 'id_mid', 'first'] + (['x_gt', 'last'] if tier == 'thorough' else [])):
        ops.append(['remove', c])
    if 'y1' not in ref.cols:
        ops.append(['add', 'y1'])
    ops.append(['add', 'x', 'lin'])                       # refused: the column exists
    ops.append(['define', 'c', 'prod'])                   # refused: the column exists
    if 'y1' in ref.cols and tier == 'thorough':
        ops.append(['add', 'y1', 'mix'])                  # refused: the column was added earlier
    ops.append(['scale', 'x', 0.5])
    ops.append(['panel', 'id'])                           # refused when the individuals are not consecutive
    for col in ('c', 'x'):
        # a column that does not identify consecutive blocks: enabled only while it is refused (and not yet panel)
        if ref.panel is None and ref.refuses(['panel', col]):
            ops.append(['panel', col])
    ops.append(['build_map'])
    return ops


def mutators(ref: RefTable, tier, wide=False):
    """Enabled mutating operations in the state described by the reference, simplest first.
    `wide`: False = base alphabet, True / 'wide' = wide alphabet, 'dt' = column-type alphabet, 'rf' = refusal alphabet."""
    if wide == 'dt':
        return dt_mutators(ref, tier)
    if wide == 'rf':
        return rf_mutators(ref, tier)
    if wide:
        return wide_mutators(ref, tier)
    ops = []
    cnames = ['c_eq_1', 'c_minus_1', 'id_mid', 'zero', 'y1_small']
    if tier == 'thorough':
        cnames += ['x_gt', 'first', 'last', 'or']
    for c in cnames:
        if term_columns(ref.conds[c]) <= set(ref.cols):
            ops.append(['remove', c])
    for name in ADDS:
        if name not in ref.cols:
            ops.append(['add', name])
    for name in DEFINES:
        if name not in ref.cols:
            ops.append(['define', name])
    for col, s in (SCALES_T if tier == 'thorough' else SCALES_Q):
        ops.append(['scale', col, s])
    ops.append(['panel', 'id'])
    ops.append(['build_map'])
    return ops


# --------------------------------------------------------------------------- owned randomness
class _Tape:
    def __init__(self):
        self.mode = 'closed'     # 'closed' | 'probe' | 'play'
        self.answer = None
        self.calls = []


TAPE = _Tape()
_SAVED = {}


class UnownedRandomness(RuntimeError):
    pass


def install_seams():
    import numpy as np
    import pandas as pd

    if _SAVED:
        return
    _SAVED['randint'] = np.random.randint
    _SAVED['shuffle'] = np.random.shuffle
    _SAVED['sample'] = pd.DataFrame.sample

    def randint(low, high=None, size=None, dtype=int):
        if TAPE.mode == 'closed':
            raise UnownedRandomness('numpy.random.randint called outside an enumerated operation')
        if high is None:
            low, high = 0, low
        n = 1 if size is None else int(size)
        TAPE.calls.append(('randint', int(low), int(high), n))
        if TAPE.mode == 'probe':
            return np.full(n, int(low), dtype=int)
        return np.array(TAPE.answer, dtype=int)

    def shuffle(arr):
        if TAPE.mode == 'closed':
            raise UnownedRandomness('numpy.random.shuffle called outside an enumerated operation')
        TAPE.calls.append(('shuffle', len(arr)))
        if TAPE.mode == 'play':
            arr[:] = arr[list(TAPE.answer)]

    def sample(self, n=None, frac=None, replace=False, weights=None, random_state=None, axis=None,
               ignore_index=False):
        if TAPE.mode == 'closed':
            raise UnownedRandomness('DataFrame.sample called outside an enumerated operation')
        if frac != 1 or n is not None or replace or weights is not None:
            raise UnownedRandomness(f'DataFrame.sample called with unexpected arguments n={n} frac={frac}')
        TAPE.calls.append(('sample', len(self)))
        if TAPE.mode == 'probe':
            return self.iloc[list(range(len(self)))]
        return self.iloc[list(TAPE.answer)]

    np.random.randint = randint
    np.random.shuffle = shuffle
    pd.DataFrame.sample = sample


def remove_seams():
    import numpy as np
    import pandas as pd

    if not _SAVED:
        return
    np.random.randint = _SAVED.pop('randint')
    np.random.shuffle = _SAVED.pop('shuffle')
    pd.DataFrame.sample = _SAVED.pop('sample')
    TAPE.mode = 'closed'


def with_answer(fn, answer):
    """Runs fn() with the library's random call answered by `answer` (None = probe: nominal answer)."""
    TAPE.mode = 'probe' if answer is None else 'play'
    TAPE.answer = answer
    TAPE.calls = []
    try:
        out = fn()
    finally:
        TAPE.mode = 'closed'
    return out, list(TAPE.calls)


def vectors(low, high, size, distinct):
    """All index vectors in range(low, high)^size using at most `distinct` distinct values (None = all)."""
    for v in itertools.product(range(low, high), repeat=size):
        if distinct is None or len(set(v)) <= distinct:
            yield list(v)


# --------------------------------------------------------------------------- the real side
def build(t, pool=None):
    """Term -> biogeme expression through the public DSL (raw Python numbers stay raw).  `pool`: dict name -> Variable
    object; the variables of the term are taken from (and added to) it instead of being created."""
    from biogeme.expressions import Variable

    k = t[0]
    if k == 'v':
        if pool is None:
            return Variable(t[1])
        if t[1] not in pool:
            pool[t[1]] = Variable(t[1])
        return pool[t[1]]
    if k == 'n':
        return t[1]
    if k == 'b':
        from biogeme.expressions import Beta

        return Beta(t[1], t[2], None, None, t[3])
    if k == 'log':
        from biogeme.expressions import log

        return log(build(t[1], pool))
    a, b = build(t[1], pool), build(t[2], pool)
    if k == '+':
        return a + b
    if k == '-':
        return a - b
    if k == '*':
        return a * b
    if k == '==':
        return a == b
    if k == '!=':
        return a != b
    if k == '<':
        return a < b
    if k == '<=':
        return a <= b
    if k == '>':
        return a > b
    if k == '>=':
        return a >= b
    if k == '&':
        return a & b
    if k == '|':
        return a | b
    raise ValueError(k)


def make_db(table):
    import pandas as pd
    import biogeme.database as bdb

    base, var = split_table(table)
    spec = table_spec(base)
    xs = table_x(var, spec['xs'])
    RID, CS = spec['rid'], spec['cs']            # of this table
    if var == 'v':
        import io

        text = ','.join(COLS) + '\n' + ''.join(
            f'{int(xs[i])},{int(spec["ids"][i])},{int(RID[i])},{int(CS[i])}.0\n' for i in range(spec['n']))
        df = pd.read_csv(io.StringIO(text))
        if spec['index'] is not None:
            df.index = list(spec['index'])
        want = ['int64', 'int64', 'int64', 'float64']
    else:
        conv = {'m': None, 'i': int, 'f': float}[var]
        data = {'x': list(xs), 'id': list(spec['ids']), 'r': list(RID), 'c': list(CS)}
        if conv is not None:
            data = {c: [conv(v) for v in vals] for c, vals in data.items()}
        df = pd.DataFrame(data, columns=COLS, index=spec['index'])
        want = {'m': ['float64', 'int64', 'int64', 'int64'], 'i': ['int64'] * 4, 'f': ['float64'] * 4}[var]
    got = [str(t) for t in df.dtypes]
    if got != want or [str(c) for c in df.columns] != COLS:
        raise AssertionError(f'root table {table}: columns {list(df.columns)} of types {got}, intended {want}')
    return bdb.Database('t13', df)


def other_db(layout):
    """Another table: 3 rows, the columns of LAYOUTS[layout], values that occur nowhere in the tables under test."""
    import pandas as pd
    import biogeme.database as bdb

    cols = LAYOUTS[layout]
    base = {'x': 100.5, 'id': 201.0, 'r': 300.0, 'c': 407.0, 'e1': 511.0}
    return bdb.Database('o13', pd.DataFrame({c: [base[c] + i for i in range(3)] for c in cols}, columns=cols))


def _model(database, formulas):
    import biogeme.biogeme as bio
    import biogeme.parameters

    return bio.BIOGEME(database, formulas, parameters=biogeme.parameters.Parameters(), generate_html=False,
                       generate_pickle=False, save_iterations=False, number_of_threads=1)


def build_prov(db, t, prov):
    """The formula object for term t with the past `prov` (see PROV_KINDS); the objects it was part of stay alive."""
    if prov is None:
        return build(t)
    kind, layout, tag = parse_prov(prov)
    store = db.__dict__.setdefault('_vf_exprs', {})
    keep = db.__dict__.setdefault('_vf_keep', [])
    if kind == 'reused':
        return store[tag]                     # the object of an earlier operation of this history
    pool = {} if kind == 'variables-shared-with-a-model-on-another-table' else None
    e = build(t, pool)
    if kind == 'fresh':
        pass
    elif kind == 'evaluated-on-another-table':
        keep.append(other_db(layout).values_from_database(e))
    elif kind == 'prepared-on-another-table':
        o = other_db(layout)
        e.prepare(o, 1)
        keep.append(o)
    elif kind == 'model-on-another-table':
        keep.append(_model(other_db(layout), e))
    elif kind == 'simulation-on-another-table':
        keep.append(_model(other_db(layout), {'u': e}))
    elif kind == 'part-of-a-model-on-another-table':
        from biogeme.expressions import Variable

        keep.append(_model(other_db(layout), e + Variable('r')))
    elif kind == 'variables-shared-with-a-model-on-another-table':
        other = None
        for name in COLS:
            v = build(V(name), pool)
            other = v if other is None else other + v
        keep.append(_model(other_db(layout), other))
    elif kind == 'model-on-this-table':
        # a formula outside PanelLikelihoodTrajectory is refused as the log likelihood of a model on panel data
        # (documented refusal): there the formula is one of the quantities to simulate
        keep.append(_model(db, {'u': e} if db.is_panel() else e))
    else:
        raise ValueError(prov)
    if tag:
        store[tag] = e
    return e


def apply_real(db, ref_before: RefTable, op):
    """Applies a mutating op to the real object; returns the library's return value."""
    k = op[0]
    if k == 'remove':
        return db.remove(build_prov(db, ref_before.cond_term(op[1]), prov_of(op)))
    if k == 'add':
        return db.add_column(build_prov(db, term_of(formula_name(op)), prov_of(op)), op[1])
    if k == 'define':
        return db.define_variable(op[1], build_prov(db, term_of(formula_name(op)), prov_of(op)))
    if k == 'scale':
        return db.scale_column(op[1], op[2])
    if k == 'panel':
        return db.panel(op[1])
    if k == 'build_map':
        return db.build_panel_map()
    raise ValueError(op)


def fnum(v):
    return float(v)


def frame_rows(df):
    """[(tuple of floats)] of a DataFrame, positional."""
    if df.shape[1] == 0:
        return [() for _ in range(len(df))]
    return [tuple(r) for r in df.to_numpy(dtype=float).tolist()]


def snap(db):
    d = db.data
    s = dict(
        cols=[str(c) for c in d.columns],
        index=[_lab(i) for i in d.index.tolist()],
        dtypes=[str(t) for t in d.dtypes],
        rows=frame_rows(d),
        panel=db.panelColumn,
        excluded=int(db.excludedData),
        imap=None,
    )
    m = db.individualMap
    if m is not None:
        s['imap'] = [(fnum(lab), int(a), int(b)) for lab, (a, b) in zip(m.index.tolist(), m.values.tolist())]
    return s


def _lab(i):
    try:
        return int(i)
    except (TypeError, ValueError):
        return repr(i)


def canon_of(s):
    return repr((s['index'], s['cols'], s['dtypes'], [tuple(repr(v) for v in r) for r in s['rows']],
                 s['panel'], s['imap'], s['excluded']))


def flags_of(s):
    f = ''
    if s['panel'] is not None:
        f += 'P'
    if len(set(s['index'])) != len(s['index']):
        f += 'D'
    elif s['index'] != list(range(len(s['index']))):
        f += 'G'
    return f or 'plain'


def close(a, b):
    if isinstance(a, float) and isinstance(b, float) and math.isnan(a) and math.isnan(b):
        return True
    return a == b or abs(a - b) <= 1e-12 + 1e-10 * max(abs(a), abs(b))


def compare_rows(cols, rows, ref: RefTable, expect_rids, what):
    """rows (tuples in column order `cols`) must be exactly the reference rows `expect_rids`, in that order."""
    bad = []
    if 'r' not in cols:
        return [('columns', f'{what}: tag column r missing from {cols}')]
    ri = cols.index('r')
    got = [r[ri] for r in rows]
    if [float(x) for x in expect_rids] != got:
        return [('rows', f'{what}: rows (by tag r) are {got}, the reference implies {list(expect_rids)}')]
    for r in rows:
        rr = ref.row_of(int(r[ri]))
        for c, v in zip(cols, r):
            if c not in rr:
                bad.append(('columns', f'{what}: unexpected column {c}'))
            elif not close(v, rr[c]):
                bad.append(('cell-value', f'{what}: row r={int(r[ri])} column {c} is {v!r}, the reference implies {rr[c]!r}'))
    return bad[:3]


def compare_state(s, db, ref: RefTable):
    """Complete comparison of the real state with the reference. Returns [(clause, detail)]."""
    bad = []
    if s['cols'] != ref.cols:
        bad.append(('columns', f'columns are {s["cols"]}, the reference implies {ref.cols}'))
        return bad
    rows_bad = compare_rows(s['cols'], s['rows'], ref, [rid for rid, _ in ref.rows], 'table')
    bad += rows_bad
    if s['excluded'] != ref.excluded:
        bad.append(('excluded-count', f'excludedData is {s["excluded"]}, the last remove deleted {ref.excluded} rows'))
    if (s['panel'] is not None) != (ref.panel is not None) or (ref.panel and s['panel'] != ref.panel):
        bad.append(('panel-flag', f'panelColumn is {s["panel"]!r}, the reference implies {ref.panel!r}'))
    want = ref.imap()
    map_bad = s['imap'] != want and not (want is None and s['imap'] is None)
    if map_bad and not rows_bad:
        bad.append(('individual-map', f'individualMap is {s["imap"]}, the rows of the table imply {want}'))
    try:
        nobs, ssize = int(db.get_number_of_observations()), int(db.get_sample_size())
    except Exception as e:  # noqa: BLE001
        bad.append(('size-query-raised', f'{type(e).__name__}: {e}'))
    else:
        # consequences of a wrong table / a wrong map are not reported a second time
        if nobs != len(ref.rows) and not rows_bad:
            bad.append(('number-of-observations', f'get_number_of_observations()={nobs}, table has {len(ref.rows)} rows'))
        if ssize != ref.sample_size() and not rows_bad and not map_bad:
            bad.append(('sample-size', f'get_sample_size()={ssize}, the reference implies {ref.sample_size()}'))
    if db.is_panel() != (ref.panel is not None):
        bad.append(('panel-flag', f'is_panel()={db.is_panel()}'))
    return bad


def reconcile_order(s, ref: RefTable):
    """If the real table holds the reference rows sorted by individual and differs only in the order inside individuals
    (an unstable sort), the reference adopts that order so that the comparison can go on.  Returns True if it did: the
    step that caused it reports the clause REORDERED (step_and_compare)."""
    if ref.panel is None or 'r' not in s['cols'] or ref.panel not in s['cols']:
        return False
    ri, pi = s['cols'].index('r'), s['cols'].index(ref.panel)
    got = [int(r[ri]) for r in s['rows']]
    want = [rid for rid, _ in ref.rows]
    if got == want or sorted(got) != sorted(want) or len(set(got)) != len(got):
        return False
    if [r[pi] for r in s['rows']] != [row[ref.panel] for _, row in ref.rows]:
        return False
    by = {rid: row for rid, row in ref.rows}
    if any(by[g][ref.panel] != r[pi] for g, r in zip(got, s['rows'])):
        return False
    ref.rows = [(g, by[g]) for g in got]
    return True


REORDERED = 'individual-rows-reordered-by-panel-sort'


class Replayed:
    def __init__(self, db, ref, snap_):
        self.db, self.ref, self.snap = db, ref, snap_


def replay_history(table, history, check=True):
    """Fresh real object + fresh reference with `history` applied to both."""
    db = make_db(table)
    ref = RefTable(table)
    for op in history:
        if ref.refuses(op):
            try:
                apply_real(db, ref, op)
            except Exception:  # noqa: BLE001  (the refusal: nothing happens)
                continue
            ref.apply(op)
            continue
        apply_real(db, ref, op)
        ref.apply(op)
        if ref.panel is not None:
            reconcile_order(snap(db), ref)
    s = snap(db)
    if check:
        bad = compare_state(s, db, ref)
        if bad:
            raise RuntimeError(f'replay of an accepted history {history} on table {table} no longer agrees with the '
                               f'reference: {bad}')
    return Replayed(db, ref, s)


# --------------------------------------------------------------------------- observers
def refused_observers(ref: RefTable):
    """Observing operations the library documents as refused in this state (the table must stay as it is)."""
    ops = [['refused', k] for k in ('split-1-slice', 'split-0-slices', 'extract-position-n', 'extract-negative-position',
                                    'extract-0-and-n', 'rowsplit-position-n')]
    if ref.panel is None:
        ops += [['refused', 'sample_map-not-panel'], ['refused', 'flat-not-panel']]
    else:
        ops += [['refused', 'split-other-group']]
    return ops


def observers(ref: RefTable, tier, wide=False, dt=False, rf=False, large=False):
    """Observing operations enabled in the state, as JSON-able descriptors.  `wide`: the reduced list used in the
    states of the wide alphabet and of the pattern sweeps (the complete list runs in the states of the main search).
    `dt`: states of the column-type alphabet -- additionally a formula with non-integer coefficients."""
    n = len(ref.rows)
    ops = []
    if n == 0:
        return ops
    if large or n > 8:
        # large tables: the designations and random answers are a fixed reduced menu (every single position for the sample
        # of size 1, every vector / permutation over the individuals)
        ops += [['sizes'], ['values', 'lin'], ['values', 'obs'], ['count'], ['extract', 'reduced'], ['rowsplit', 'reduced'],
                ['sample', 0], ['sample', 1]]
        if len({row['id'] for _, row in ref.rows}) <= 4 and ref.panel in (None, 'id'):
            ops += [['split', 2, 'id'], ['split', 3, 'id']]
        if ref.panel is not None:
            ops += [['split', 2, None], ['sample_map', None], ['sample_map', 0], ['sample_map', 2], ['flat', 'auto'],
                    ['flat', 'given'], ['flat', 'given_empty']]
        ops += [['flat_tool', 'auto'], ['flat_tool', 'given'], ['flat_tool', 'given_empty']]
        return ops
    if dt:
        ops.append(['values', 'frac'])
    if wide:
        ops += [['sizes'], ['values', 'lin'], ['count'], ['extract'], ['rowsplit', 'reduced'], ['split', 2, 'id'],
                ['sample', 0], ['sample', 1], ['sample', 2]]
        if ref.panel is not None:
            ops += [['sample_map', 2], ['flat', 'auto'], ['flat', 'given'], ['flat', 'given_empty']]
        ops += [['flat_tool', 'auto'], ['flat_tool', 'given'], ['flat_tool', 'given_empty']]
        if ref.has_undefined():
            ops.append(['flat_tool', 'given_undefined_equal'])
        if rf:
            ops += refused_observers(ref)
        return ops
    ops.append(['sizes'])
    for f in ('obs', 'lin'):
        ops.append(['values', f])
    ops.append(['count'])
    ops.append(['extract'])
    ops.append(['rowsplit'])
    ks = [2, 3, 5] if tier == 'quick' else [2, 3, 4, 5]
    for k in ks:
        # on panel data every split is grouped by the panel column; another group column is refused
        for g in ((None, 'id') if ref.panel is not None else (None, 'id', 'c')):
            ops.append(['split', k, g])
    for size in (None, 0, 1, 2):
        ops.append(['sample', size])
    if ref.panel is not None:
        for size in (None, 0, 2):
            ops.append(['sample_map', size])
        ops.append(['flat', 'auto'])
        ops.append(['flat', 'given'])
        ops.append(['flat', 'given_empty'])
    ops.append(['flat_tool', 'auto'])
    ops.append(['flat_tool', 'given'])
    ops.append(['flat_tool', 'given_empty'])
    if ref.has_undefined():
        ops.append(['flat_tool', 'given_undefined_equal'])
    return ops


def container(form, lst):
    """A list of positions in one of the forms in which a caller may hold it (the argument is declared Iterable[int])."""
    import numpy as np

    return {'list': list, 'tuple': tuple, 'iterator': iter, 'range': as_range, 'range-late-stop': lambda q: as_range(q, late=True),
            'ndarray': lambda q: np.array(q, dtype=int), 'npint-list': lambda q: [np.int64(v) for v in q]}[form](lst)


def as_range(q, late=False):
    """The range object that designates the arithmetic progression q (late: the stop is put one whole step after the last
    element instead of just behind it - both denote the same positions)."""
    if not q:
        return range(0)
    step = q[1] - q[0] if len(q) > 1 else 1
    assert all(b - a == step for a, b in zip(q, q[1:])) and step != 0
    r = range(q[0], q[-1] + (step if late else (1 if step > 0 else -1)), step)
    assert list(r) == list(q)
    return r


def progressions(n, reduced=False):
    """Arithmetic progressions of positions inside 0..n-1 with steps +-1, +-2, +-3: from every start the longest one, and
    the same without its last element (what range(start, stop, step) can designate)."""
    full = list(range(n))
    if reduced:
        out = [full[::2], full[::-1], full[1::3], full[::-2]]
    else:
        out = []
        for step in (1, 2, 3, -1, -2, -3):
            for a in range(n):
                q = list(range(a, n, step)) if step > 0 else list(range(a, -1, step))
                out.append(q)
                if len(q) > 2:
                    out.append(q[:-1])
    seen, res = set(), []
    for q in out:
        if q and tuple(q) not in seen:
            seen.add(tuple(q))
            res.append(q)
    return res


def distinct_bound(tier):
    return 2 if tier == 'quick' else 3


def extract_lists(n, tier):
    out = [[p] for p in range(n)]
    out += [[p, q] for p in range(n) for q in range(n)]
    out.append(list(range(n)))
    out.append(list(range(n - 1, -1, -1)))
    seen, res = set(), []
    for lst in out:
        if tuple(lst) not in seen:
            seen.add(tuple(lst))
            res.append(lst)
    return res


def check_split(result, k, group_col, ref: RefTable):
    bad = []
    if len(result) != k:
        return [('split-fold-count', f'{len(result)} folds for slices={k}')]
    all_rids = [rid for rid, _ in ref.rows]
    val_rids = []
    fold_of = {}
    for i, ev_ in enumerate(result):
        est, val = ev_.estimation, ev_.validation
        for nm, part in (('estimation', est), ('validation', val)):
            cols = [str(c) for c in part.columns]
            if cols != ref.cols:
                bad.append(('split-columns', f'fold {i} {nm} has columns {cols}'))
                return bad
        vr = [int(r[ref.cols.index('r')]) for r in frame_rows(val)]
        er = [int(r[ref.cols.index('r')]) for r in frame_rows(est)]
        for rid in vr:
            if rid in fold_of:
                bad.append(('split-validation-overlap', f'row r={rid} is in validation parts {fold_of[rid]} and {i}'))
            fold_of[rid] = i
        val_rids += vr
        comp = sorted(set(all_rids) - set(vr))
        if sorted(er) != comp:
            bad.append(('split-estimation-not-complement',
                        f'fold {i}: validation rows {vr}, estimation rows {sorted(er)}, complement is {comp}'))
        # row contents intact
        bad += compare_rows(ref.cols, frame_rows(val), ref, vr, f'fold {i} validation') if all(
            ref.row_of(x) for x in vr) else [('split-unknown-row', f'fold {i} validation rows {vr}')]
        bad += compare_rows(ref.cols, frame_rows(est), ref, er, f'fold {i} estimation') if all(
            ref.row_of(x) for x in er) else [('split-unknown-row', f'fold {i} estimation rows {er}')]
        if bad:
            return bad[:4]
    if sorted(val_rids) != sorted(all_rids):
        bad.append(('split-validation-not-a-partition',
                    f'validation parts together hold rows {sorted(val_rids)}, the table has {sorted(all_rids)}'))
    if group_col is not None:
        for g, rids in ref.groups(group_col).items():
            folds = {fold_of.get(r) for r in rids}
            if len(folds) > 1:
                bad.append(('split-group-separated', f'rows {rids} of group {group_col}={g} are in folds {sorted(folds, key=str)}'))
    return bad[:4]


def flat_expect(ref: RefTable, identical, by=None):
    """What flattening implies: {individual: {column name: value}}; `identical` = list of identical columns."""
    by = by or ref.panel
    groups = {}
    for rid, row in ref.rows:
        groups.setdefault(row[by], []).append(row)
    varying = [c for c in ref.cols if c != by and c not in identical]
    maxlen = max(len(g) for g in groups.values())
    out = {}
    for g, rows in groups.items():
        d = {c: rows[0][c] for c in identical}
        if varying:
            for i in range(maxlen):
                for c in varying:
                    d[f'{i + 1}_{c}'] = rows[i][c] if i < len(rows) else float('nan')
        out[g] = d
    return out


def truly_identical(ref: RefTable, by=None, undefined_equal=False):
    """Columns holding one value per individual.  Two undefined values (NaN) are not equal, unless
    `undefined_equal`: an individual whose observations are all undefined in a column."""
    by = by or ref.panel
    groups = {}
    for rid, row in ref.rows:
        groups.setdefault(row[by], []).append(row)

    def eq(a, b):
        return a == b or (undefined_equal and a != a and b != b)

    out = []
    for c in ref.cols:
        if c == by:
            continue
        if all(all(eq(r[c], rows[0][c]) for r in rows) for rows in groups.values()):
            out.append(c)
    return out


def flat_layouts(ref: RefTable, arg, by=None):
    """The lists of identical columns a correct flat table may be built on.  With given identical columns: that
    list.  Detected: the columns with one value per individual; a column that is undefined on *all* observations
    of some individual (and constant elsewhere) may be taken either way -- the statement does not say whether two
    undefined values are 'the same value' -- both layouts keep every value of the table."""
    if arg is not None:
        return [list(arg)]
    strict = truly_identical(ref, by)
    either = [c for c in truly_identical(ref, by, undefined_equal=True) if c not in strict]
    out = []
    for k in range(len(either) + 1):
        for extra in itertools.combinations(either, k):
            out.append([c for c in ref.cols if c in strict or c in extra])
    return out


def check_flat(flat, ref: RefTable, arg, by=None):
    """Flat table against what the reference table implies -> (observation, [(clause, detail)])."""
    fcols = [str(c) for c in flat.columns]
    got = {}
    for lab, row in zip(flat.index.tolist(), flat.itertuples(index=False, name=None)):
        got[fnum(lab)] = {c: fnum(v) for c, v in zip(fcols, row)}
    obs = (sorted((g, sorted(d.items())) for g, d in got.items()).__repr__(), len(got), len(fcols))
    first = None
    for ident in flat_layouts(ref, arg, by):
        want = flat_expect(ref, ident, by)
        problems = []
        if len(flat.index) != len(want) or sorted(got) != sorted(want):
            problems.append(('flat-individuals', f'flat table has rows {flat.index.tolist()}, individuals are {sorted(want)}'))
        else:
            for g in sorted(want):
                if sorted(got[g]) != sorted(want[g]):
                    problems.append(('flat-columns', f'individual {g}: columns {sorted(got[g])}, expected {sorted(want[g])}'))
                    break
                diffs = [(c, got[g][c], want[g][c]) for c in want[g] if not close(got[g][c], want[g][c])]
                if diffs:
                    problems.append(('flat-values', f'individual {g}: (column, flat value, table value) {diffs[:3]}'))
                    break
        if not problems:
            return obs, []
        if first is None or (problems[0][0] == 'flat-values' and first[0][0] != 'flat-values'):
            first = problems      # report against the layout with the same columns if there is one
    return obs, first


def check_flat_named(flat, ref: RefTable, arg, by, row_name):
    """Flat table built with a row-name column (the new columns are called <value of row_name>_<column>) against what the
    reference table implies -> (observation, [(clause, detail)]).  The spelling of the value in the name is not fixed."""
    fcols = [str(c) for c in flat.columns]
    got = {}
    for lab, row in zip(flat.index.tolist(), flat.itertuples(index=False, name=None)):
        d = {}
        for c, v in zip(fcols, row):
            if c in ref.cols:
                d[c] = fnum(v)
            else:
                name, _, col = c.partition('_')
                try:
                    d[(float(name), col)] = fnum(v)
                except ValueError:
                    d[c] = fnum(v)
        got[fnum(lab)] = d
    obs = (sorted((g, sorted(d.items(), key=repr)) for g, d in got.items()).__repr__(), len(got), len(fcols))
    groups = {}
    for rid, row in ref.rows:
        groups.setdefault(row[by], []).append(row)
    names = sorted({row[row_name] for _, row in ref.rows})
    first = None
    layouts = []
    for ident in flat_layouts(ref, arg, by):
        layouts.append([c for c in ident if c != row_name])
        if row_name in ident and arg is None:
            layouts.append(list(ident))           # one observation per individual: every column identical, nothing to name
    for ident in layouts:
        varying = [c for c in ref.cols if c not in (by, row_name) and c not in ident]
        want = {}
        for g, rows in groups.items():
            d = {c: rows[0][c] for c in ident}
            for nm in (names if varying else []):
                hit = [r_ for r_ in rows if r_[row_name] == nm]
                for c in varying:
                    d[(nm, c)] = hit[0][c] if hit else float('nan')
            want[g] = d
        problems = []
        if sorted(got) != sorted(want):
            problems.append(('flat-individuals', f'flat table has rows {flat.index.tolist()}, individuals are {sorted(want)}'))
        else:
            for g in sorted(want):
                if sorted(got[g], key=repr) != sorted(want[g], key=repr):
                    problems.append(('flat-columns', f'individual {g}: columns {sorted(got[g], key=repr)}, expected '
                                                     f'{sorted(want[g], key=repr)}'))
                    break
                diffs = [(c, got[g][c], want[g][c]) for c in want[g] if not close(got[g][c], want[g][c])]
                if diffs:
                    problems.append(('flat-values', f'individual {g}: (column, flat value, table value) {diffs[:3]}'))
                    break
        if not problems:
            return obs, []
        if first is None or (problems[0][0] == 'flat-values' and first[0][0] != 'flat-values'):
            first = problems
    return obs, first


def run_observer(R: Replayed, op, tier, rec: Rec, ctx, only_answer=None):
    """Executes one observing operation with every answer; records cases; returns list of
    (clause, detail, answer) problems."""
    db, ref = R.db, R.ref
    k = op[0]
    n = len(ref.rows)
    problems = []

    def case(answer, obs, outcome, nontrivial=True):
        key = (ctx['root'], ctx['hist'], tuple(map(str, op)), str(answer)) if (ctx['depth'] > 0 or nontrivial) else None
        rec.case(key, (op, answer, obs), outcome=outcome)
        rec.transition()

    def guard(fn, answer):
        """-> ((return value, seam calls), None) or ((None, []), problem)"""
        try:
            return with_answer(fn, answer), None
        except UnownedRandomness:
            raise
        except Exception as e:  # noqa: BLE001
            if type(e).__name__ == 'RuntimeError':
                rec.retire = True
            return (None, []), ('observer-raised', f'{op} raised {type(e).__name__}: {e}', answer)

    if k == 'sizes':
        got = (int(db.get_number_of_observations()), int(db.get_sample_size()), bool(db.is_panel()))
        want = (n, ref.sample_size(), ref.panel is not None)
        case(None, got, ('sizes', got[2]), nontrivial=False)
        if got != want:
            problems.append(('sizes', f'(observations, sample size, panel) = {got}, the reference implies {want}', None))
    elif k == 'values':
        t = term_of(op[1])
        try:
            e = build_prov(db, t, prov_of(op))
        except Exception as ex:  # noqa: BLE001
            if type(ex).__name__ == 'RuntimeError':
                rec.retire = True
            return [('formula-preparation-raised', f'{op}: {type(ex).__name__}: {ex}', None)]
        r, err = guard(lambda: db.values_from_database(e), None)
        if err:
            problems.append(err)
        else:
            got = [fnum(v) for v in r[0]]
            want = [ev(t, row) for _, row in ref.rows]
            case(None, got, ('values', n), nontrivial=False)
            if len(got) != len(want) or not all(close(a, b) for a, b in zip(got, want)):
                problems.append(('formula-values', f'values_from_database({op[1]}) = {got}, per-row reference {want}', None))
    elif k == 'count':
        for c in ref.cols:
            # defined values of the column, a value no row holds, a value that is not an integer
            vals = sorted({row[c] for _, row in ref.rows if row[c] == row[c]} | {12345.0, 0.5})
            for v in vals:
                if only_answer is not None and only_answer != [c, v]:
                    continue
                r, err = guard(lambda: db.count(c, v), None)
                if err:
                    problems.append(err)
                    continue
                want = sum(1 for _, row in ref.rows if row[c] == v)
                try:
                    got = int(r[0])
                except (TypeError, ValueError):
                    # not a number at all (e.g. None for a value no row holds): the count is not what the table implies
                    case([c, v], repr(r[0]), ('count', 'not-a-number'), nontrivial=False)
                    problems.append(('count', f'count({c!r}, {v}) = {r[0]!r} (not a number), the table holds {want}', [c, v]))
                    continue
                case([c, v], got, ('count', got), nontrivial=False)
                if got != want:
                    problems.append(('count', f'count({c!r}, {v}) = {got}, the table holds {want}', [c, v]))
    elif k == 'extract' and ref.has_undefined():
        # a Database cannot be built on a table with undefined values (documented refusal): not in the alphabet
        rec.count('skipped_extract_rows_on_a_table_with_undefined_values')
    elif k == 'extract':
        full = list(range(n))
        if len(op) > 1 and op[1] == 'reduced':
            plan = [('list', lst) for lst in ([0], [n - 1], [n // 2], [n - 1, 0], [n // 2, min(n // 2 + 1, n - 1)], full, full[::-1])]
        else:
            plan = [('list', lst) for lst in extract_lists(n, tier)]
        # the argument is declared Iterable[int]: other iterable forms of a few position lists
        plan += [('tuple', full), ('range', full), ('iterator', full), ('iterator', [n - 1, 0]), ('tuple', [n - 1, 0])]
        # range objects with a start, a stop and a step (every arithmetic progression of positions, both ways of writing the stop)
        red = len(op) > 1 and op[1] == 'reduced'
        plan += [(f, q) for q in progressions(n, red) if q != full for f in (('range',) if red else ('range', 'range-late-stop'))]
        # ... and the containers / integers of numpy (what an index computation returns)
        plan += [('ndarray', full), ('ndarray', [n - 1, 0]), ('ndarray', [0]), ('npint-list', [n - 1, 0])]
        for form, lst in plan:
            ans = lst if form == 'list' else [form, lst]
            if only_answer is not None and only_answer != ans:
                continue
            arg = container(form, lst)
            r, err = guard(lambda: db.extract_rows(arg), None)
            if err:
                problems.append((err[0] + ('' if form == 'list' else '-' + form + '-argument'), err[1], ans))
                continue
            sub = r[0].data
            cols = [str(c) for c in sub.columns]
            want = [ref.rows[p][0] for p in lst]
            case(ans, frame_rows(sub), ('extract', form, len(lst)), nontrivial=False)
            bad = [('columns', f'extract_rows columns {cols}')] if cols != ref.cols else compare_rows(
                cols, frame_rows(sub), ref, want, f'extract_rows({form} {lst})')
            problems += [('extract-' + c, d, ans) for c, d in bad]
    elif k == 'rowsplit' and ref.has_undefined():
        rec.count('skipped_mdcev_row_split_on_a_table_with_undefined_values')      # as for extract_rows
    elif k == 'rowsplit':
        # the second entry point that extracts rows: one Database per designated row (no designation = every row)
        full = list(range(n))
        reduced = len(op) > 1 and op[1] == 'reduced'
        plan = [('none', full)]
        plan += [('list', lst) for lst in ([[n - 1, 0], [0]] if reduced else extract_lists(n, tier))]
        plan += [(f, []) for f in ('list', 'tuple', 'range', 'iterator', 'ndarray')]       # no row is designated
        plan += [('ndarray', [0]), ('ndarray', [n - 1, 0]), ('ndarray', [n - 1])]
        if not reduced:
            plan += [('tuple', full), ('range', full), ('iterator', full), ('iterator', [n - 1, 0]), ('tuple', [n - 1, 0]),
                     ('ndarray', full), ('npint-list', [n - 1, 0])]
        plan += [('range', q) for q in progressions(n, reduced) if q != full]
        seen = set()
        for form, lst in plan:
            if (form, tuple(lst)) in seen:
                continue
            seen.add((form, tuple(lst)))
            ans = [form, lst]
            if only_answer is not None and only_answer != ans:
                continue
            sfx = '' if (lst and form in ('list', 'none')) else f'-{"" if lst else "empty-"}{form}-argument'
            if form == 'none':
                r, err = guard(lambda: db.mdcev_row_split(), None)
            else:
                arg = container(form, lst)
                r, err = guard(lambda: db.mdcev_row_split(arg), None)
            if err:
                problems.append((err[0] + sfx, err[1], ans))
                continue
            try:
                parts = [([str(c) for c in d.data.columns], frame_rows(d.data)) for d in r[0]]
            except Exception as e:  # noqa: BLE001
                problems.append(('rowsplit-result' + sfx, f'mdcev_row_split({form} {lst}) returned {r[0]!r}: {type(e).__name__}: {e}', ans))
                continue
            case(ans, parts, ('rowsplit', form, len(lst)), nontrivial=False)
            want = [ref.rows[p][0] for p in lst]
            if len(parts) != len(want):
                problems.append(('rowsplit-count' + sfx, f'mdcev_row_split({form} {lst}) returned {len(parts)} one-row tables '
                                 f'for {len(want)} designated rows', ans))
                continue
            for (cols, rows), rid in zip(parts, want):
                bad = [('columns', f'mdcev_row_split columns {cols}')] if cols != ref.cols else compare_rows(
                    cols, rows, ref, [rid], f'mdcev_row_split({form} {lst})')
                if bad:
                    problems += [('rowsplit-' + c + sfx, d, ans) for c, d in bad[:1]]
                    break
    elif k == 'split':
        kk, g = op[1], op[2]
        group_col = ref.panel if ref.panel is not None else g
        (_, calls), err = guard(lambda: db.split(kk, g), None)
        if err:
            problems.append(err)
            return problems
        if len(calls) != 1 or calls[0][0] not in ('sample', 'shuffle'):
            raise UnownedRandomness(f'split({kk},{g}) used the random seams as {calls}')
        m = calls[0][1]
        for perm in itertools.permutations(range(m)):
            perm = list(perm)
            if only_answer is not None and only_answer != perm:
                continue
            r, err = guard(lambda: db.split(kk, g), perm)
            if err:
                problems.append(err)
                continue
            res = r[0]
            sizes = tuple(len(f.validation) for f in res)
            obs = [[int(x[ref.cols.index('r')]) for x in frame_rows(f.validation)] for f in res] if all(
                [str(c) for c in f.validation.columns] == ref.cols for f in res) else 'columns differ'
            case(perm, obs, ('split', kk, group_col is not None, sizes), nontrivial=perm != sorted(perm))
            problems += [(c, d, perm) for c, d in check_split(res, kk, group_col, ref)]
    elif k == 'sample':
        size = op[1]
        (_, calls), err = guard(lambda: db.sample_with_replacement(size), None)
        if err:
            problems.append(err)
            return problems
        if len(calls) != 1 or calls[0][0] != 'randint':
            raise UnownedRandomness(f'sample_with_replacement used the random seams as {calls}')
        _, low, high, m = calls[0]
        want_size = n if size is None else size
        if m != want_size:
            problems.append(('sample-size-requested', f'{m} indices drawn for size={size} on {n} rows', None))
        bound = None if m <= 3 else distinct_bound(tier)
        for vec in vectors(low, high, m, bound):
            if only_answer is not None and only_answer != vec:
                continue
            r, err = guard(lambda: db.sample_with_replacement(size), vec)
            if err:
                problems.append(err)
                continue
            sub = r[0]
            cols = [str(c) for c in sub.columns]
            rows = frame_rows(sub) if cols == ref.cols else None
            case(vec, rows, ('sample', len(vec), len(set(vec))), nontrivial=True)
            if rows is None:
                problems.append(('sample-columns', f'sample has columns {cols}', vec))
                continue
            got = [int(x[cols.index('r')]) for x in rows]
            if any(ref.row_of(x) is None for x in got):
                problems.append(('sample-row-not-in-table', f'sample rows {got}, table rows {[r_ for r_, _ in ref.rows]}', vec))
                continue
            if all(0 <= p < n for p in vec):
                want = [ref.rows[p][0] for p in vec]
                if sorted(got) != sorted(want):
                    problems.append(('sample-not-the-drawn-rows', f'drawn positions {vec} designate rows {want}, sample holds {got}', vec))
            if len(got) != want_size:
                problems.append(('sample-length', f'{len(got)} rows for size={size}', vec))
            problems += [('sample-' + c, d, vec) for c, d in compare_rows(cols, rows, ref, got, 'sample')]
    elif k == 'sample_map':
        size = op[1]
        (_, calls), err = guard(lambda: db.sample_individual_map_with_replacement(size), None)
        if err:
            problems.append(err)
            return problems
        if len(calls) != 1 or calls[0][0] != 'randint':
            raise UnownedRandomness(f'sample_individual_map_with_replacement used the random seams as {calls}')
        _, low, high, m = calls[0]
        imap = {g: (a, b) for g, a, b in ref.imap()}
        want_size = len(imap) if size is None else size
        if m != want_size:
            problems.append(('sample-map-size-requested', f'{m} indices drawn for size={size} with {len(imap)} individuals', None))
        for vec in vectors(low, high, m, None if m <= 3 else distinct_bound(tier)):
            if only_answer is not None and only_answer != vec:
                continue
            r, err = guard(lambda: db.sample_individual_map_with_replacement(size), vec)
            if err:
                problems.append(err)
                continue
            sub = r[0]
            got = [(fnum(lab), int(a), int(b)) for lab, (a, b) in zip(sub.index.tolist(), sub.values.tolist())]
            case(vec, got, ('sample_map', len(vec), len(set(vec))), nontrivial=True)
            for g, a, b in got:
                if g not in imap:
                    problems.append(('sample-map-individual-not-in-table', f'sampled individual {g}, table has {sorted(imap)}', vec))
                elif imap[g] != (a, b):
                    problems.append(('sample-map-wrong-range', f'individual {g} sampled with rows {a}..{b}, table implies {imap[g]}', vec))
            if len(got) != want_size:
                problems.append(('sample-map-length', f'{len(got)} individuals for size={size}', vec))
            problems = problems[:6]
    elif k == 'flat':
        ident = truly_identical(ref)
        arg = {'auto': None, 'given': list(ident), 'given_empty': []}[op[1]]      # [] = every column varies
        r, err = guard(lambda: db.generate_flat_panel_dataframe(identical_columns=arg), None)
        if err:
            problems.append(err)
            return problems
        obs, bad = check_flat(r[0], ref, arg)
        case(arg, obs[0], ('flat', obs[1], obs[2]), nontrivial=False)
        problems += [(c, d, arg) for c, d in bad]
    elif k == 'flat_tool':
        # the function behind generate_flat_panel_dataframe, called directly on the table (panel or not)
        from biogeme.tools.database import flatten_database

        named, _, variant = op[1].rpartition(':')        # 'rn:<variant>': the tag column r gives the names of the rows
        arg = {'auto': None, 'given': truly_identical(ref, 'id'), 'given_empty': [],
               'given_undefined_equal': truly_identical(ref, 'id', undefined_equal=True)}[variant]
        if named:
            arg = None if arg is None else [c for c in arg if c != 'r']
            r, err = guard(lambda: flatten_database(db.data, 'id', row_name='r',
                                                    identical_columns=None if arg is None else list(arg)), None)
        else:
            r, err = guard(lambda: flatten_database(db.data, 'id', identical_columns=None if arg is None else list(arg)), None)
        if err:
            problems.append(err)
            return problems
        obs, bad = check_flat_named(r[0], ref, arg, 'id', 'r') if named else check_flat(r[0], ref, arg, by='id')
        case(op[1], obs[0], ('flat_tool', op[1], obs[1], obs[2]), nontrivial=False)
        problems += [(c, d, None) for c, d in bad]
    elif k == 'refused':
        kind = op[1]
        fn = {'split-1-slice': lambda: db.split(1), 'split-0-slices': lambda: db.split(0),
              'split-other-group': lambda: db.split(2, 'c'),
              'extract-position-n': lambda: db.extract_rows([n]), 'extract-negative-position': lambda: db.extract_rows([-1]),
              'extract-0-and-n': lambda: db.extract_rows([0, n]), 'rowsplit-position-n': lambda: db.mdcev_row_split([n]),
              'sample_map-not-panel': lambda: db.sample_individual_map_with_replacement(2),
              'flat-not-panel': lambda: db.generate_flat_panel_dataframe()}[kind]
        _, err = guard(fn, None)
        case(kind, None if err is None else err[1].split(':')[0], ('refused', kind, err is not None), nontrivial=False)
        if err is None:
            rec.count('documented_refusal_did_not_happen')
        else:
            rec.count('refused_operations')
        # the oracle is applied by the caller: the state after the call is the state before it
    else:
        raise ValueError(op)
    return problems


def op_label(op):
    return op[0] if op[0] not in ('flat', 'split') else (op[0] + ('-grouped' if op[0] == 'split' and op[2] else ''))


def root_alphabet(root):
    return 'dt' if root.get('dt') else 'rf' if root.get('rf') else bool(root.get('wide'))


def _valid_history(table, hist, alphabet=False):
    ref = RefTable(table)
    for op in hist:
        if len(ref.rows) == 0 or op not in mutators(ref, 'thorough', alphabet):
            return False
        ref.apply(op)
    return len(ref.rows) > 0


def reproduces(root, hist, op, observer, answer, clause, rec):
    """Does `op` (with `answer`) still fail with `clause` after the (shorter) history `hist`?"""
    table, tier = root['table'], root['tier']
    if not _valid_history(table, hist, root_alphabet(root)):
        return None
    scratch = Rec()
    try:
        R = replay_history(table, hist)
    except RuntimeError:
        return None
    try:
        if observer:
            if op not in observers(R.ref, tier, dt=bool(root.get('dt'))):
                return None
            probs = run_observer(R, op, tier, scratch, dict(root=table, hist='', depth=len(hist)), only_answer=answer)
        else:
            if op not in mutators(R.ref, 'thorough', root_alphabet(root)):
                return None
            probs, _ = step_and_compare(R, op, scratch)
    finally:
        rec.retire = rec.retire or scratch.retire
    for p in probs:
        if p[0] == clause:
            return p
    return None


def shrink_history(root, history, op, observer, answer, clause, rec):
    """Greedy one-at-a-time removal of operations from the history while the same clause still fails
    (used for the deep chains only; BFS witnesses are already shortest)."""
    h = [list(e) for e in history]
    i = 0
    last = None
    while i < len(h):
        cand = h[:i] + h[i + 1:]
        p = reproduces(root, cand, op, observer, answer, clause, rec)
        if p is not None:
            h, last = cand, p
        else:
            i += 1
    return h, last


def operand_class(root, snap_, op):
    """Column-type search and sweep: the finding key names the type of the column operated on and the kind of operand
    (the class of input a type-dependent defect is tied to).  Empty for the other searches (their keys stay as they were)."""
    if prov_of(op) is not None:
        return prov_class(op)
    if root.get('idscale'):
        return ';column=identifiers-of-the-panel' if op[0] == 'scale' and op[1] == 'id' else ''
    if not root.get('dt') or snap_ is None:
        return ''
    types = dict(zip(snap_['cols'], snap_['dtypes']))
    if op[0] == 'scale':
        whole = float(op[2]).is_integer()
        return f';column={types.get(op[1], "?")};factor={"integer" if whole else "non-integer"}'
    kinds = sorted({t for c, t in types.items()})
    return ';column-types=' + '+'.join(kinds)


def report(rec, problems, op, root, history, flags, observer, shrink=False, extra=''):
    cache = rec.__dict__.setdefault('_shrunk', {})
    for p in problems:
        clause, detail = p[0], p[1]
        answer = p[2] if len(p) > 2 else None
        if shrink and history:
            ck = (clause, op_label(op), flags)
            if ck not in cache:
                h, p2 = shrink_history(root, history, op, observer, answer, clause, rec)
                cache[ck] = (h, flags_of(replay_history(root['table'], h, check=False).snap))
                history_, flags_ = cache[ck]
                if p2 is not None:
                    detail = p2[1]
            else:
                history_, flags_ = history, cache[ck][1]
        else:
            history_, flags_ = history, flags
        # failures tied to the form of an argument do not depend on the state: one key
        # ... nor do failures tied to the past of the formula object (the key names that past instead)
        key = (f'C13|{clause}|{"large" if is_large(root["table"]) else "small"}-table' if clause == REORDERED
               else f'C13|{clause}|op={op_label(op)}' if clause.endswith('-argument')
               else f'C13|{clause}|op={op_label(op)}{extra}' if prov_of(op) is not None
               else f'C13|{clause}|op={op_label(op)};state={flags_}{extra}')
        case = dict(root=root, history=history_, op=op, observer=observer, answer=answer)
        rec.violation(key, f'{clause}: after history {history_} on table {root["table"]}, {op}'
                           f'{"" if answer is None else " with answer/argument " + str(answer)}: {detail}',
                      case, observed=detail)


# --------------------------------------------------------------------------- expansion of one state
def expand(root, history, rec: Rec, do_observers=True, do_mutators=True, shrink=False):
    table, tier, wide = root['table'], root['tier'], root_alphabet(root)
    label = table + ('/dt' if wide == 'dt' else '/rf' if wide == 'rf' else '/wide' if wide else '')
    R = replay_history(table, history)
    flags = flags_of(R.snap)
    canon0 = canon_of(R.snap)
    ctx = dict(root=label, hist=json.dumps(history), depth=len(history))
    succ = []
    if do_observers:
        for op in observers(R.ref, tier, bool(wide) and not root.get('all_observers'), dt=wide == 'dt', rf=wide == 'rf',
                            large=is_large(table)):
            problems = run_observer(R, op, tier, rec, ctx)
            report(rec, problems, op, root, history, flags, True, shrink=shrink, extra=operand_class(root, R.snap, op))
            # an observing operation must leave the state unchanged
            try:
                s1 = snap(R.db)
                c1 = canon_of(s1)
            except Exception as e:  # noqa: BLE001
                c1 = f'snapshot failed: {type(e).__name__}: {e}'
            if c1 != canon0:
                report(rec, [('observer-changed-the-table', f'state before {canon0} / after {c1}')], op, root, history,
                       flags, True)
                R = replay_history(table, history)
    if do_mutators:
        for op in mutators(R.ref, tier, wide):
            R2 = replay_history(table, history, check=False)
            problems, s2 = step_and_compare(R2, op, rec)
            rec.case((label, ctx['hist'], tuple(map(str, op))) if history or op[0] not in ('build_map',) else None,
                     (op, None if s2 is None else canon_of(s2)),
                     outcome=(op[0], None if s2 is None else (len(s2['rows']), len(s2['cols']), s2['panel'] is not None,
                                                              s2['excluded'])))
            rec.transition()
            if problems:
                report(rec, problems, op, root, history, flags, False, extra=operand_class(root, R.snap, op))
                continue
            if wide == 'rf' and R.ref.refuses(op) and canon_of(s2) == canon0:
                # the object that went through the refusal is used further: what it returns and stores is still what the
                # table implies
                h2 = history + [op]
                ctx2 = dict(root=label, hist=json.dumps(h2), depth=len(h2))
                for ob in (['sizes'], ['values', 'lin'], ['count'], ['extract', 'reduced'], ['flat_tool', 'auto']):
                    report(rec, run_observer(R2, ob, tier, rec, ctx2), ob, root, h2, flags, True)
                nxt = ['add', 'u9', 'lin']
                p2, s3 = step_and_compare(R2, nxt, rec)
                rec.case((label, ctx2['hist'], tuple(map(str, nxt))), (nxt, None if s3 is None else canon_of(s3)),
                         outcome=('after-refusal', op[0], None if s3 is None else len(s3['cols'])))
                rec.transition()
                report(rec, p2, nxt, root, h2, flags, False)
            succ.append(dict(event=op, canon=canon_of(s2),
                             expand=len(s2['rows']) > 0 and len(history) + 1 < root.get('depth', 99)))
    return succ


def step_and_compare(R2: Replayed, op, rec):
    """Applies a mutating op to real object and reference; returns (problems, snapshot after)."""
    db, ref = R2.db, R2.ref
    before_cols = list(ref.cols)
    why = ref.refuses(op)
    if why:
        # a documented refusal: whatever the library answers, the rows and values of the table stay what they were
        try:
            apply_real(db, ref, op)
        except Exception as e:  # noqa: BLE001
            if type(e).__name__ == 'RuntimeError':
                rec.retire = True
            rec.count('refused_operations')
            try:
                s2 = snap(db)
            except Exception as e2:  # noqa: BLE001
                return [('snapshot-failed-after-refusal', f'{type(e2).__name__}: {e2}')], None
            bad = compare_state(s2, db, ref)
            return [(c + '-after-refusal', f'{op} was refused ({type(e).__name__}, {why}); afterwards {d}') for c, d in bad], s2
        rec.count('documented_refusal_did_not_happen')      # accepted instead: then it must have been carried out
        ref.apply(op)
        s2 = snap(db)
        reconcile_order(s2, ref)
        return compare_state(s2, db, ref), s2
    try:
        ret = apply_real(db, ref, op)
    except Exception as e:  # noqa: BLE001
        if type(e).__name__ == 'RuntimeError':
            rec.retire = True
        return [('operation-raised', f'{type(e).__name__}: {e}')], None
    ref.apply(op)
    try:
        s2 = snap(db)
    except Exception as e:  # noqa: BLE001
        return [('snapshot-failed', f'{type(e).__name__}: {e}')], None
    stable_order = [rid for rid, _ in ref.rows]
    if reconcile_order(s2, ref):
        # the rows are grouped by individual, but the observations of an individual are no longer in the order of the
        # table (flattening numbers them, extract_rows designates them by position): reported once, then the comparison
        # goes on with the observed order
        rec.count('panel_sort_changed_order_inside_an_individual')
        got = [rid for rid, _ in ref.rows]
        first = next(i for i, (a, b) in enumerate(zip(got, stable_order)) if a != b)
        return [(REORDERED, f'after {op} the rows (by tag r) from position {first} on are {got[first:first + 8]}..., the order of '
                            f'the table implies {stable_order[first:first + 8]}... (observations of individual '
                            f'{ref.rows[first][1][ref.panel]})')] + compare_state(s2, db, ref), s2
    problems = compare_state(s2, db, ref)
    # return values
    if op[0] == 'add' and not problems:
        got = [fnum(v) for v in ret.tolist()]
        want = [row[op[1]] for _, row in ref.rows]
        if len(got) != len(want) or not all(close(a, b) for a, b in zip(got, want)):
            problems.append(('add-column-return', f'add_column returned {got}, column should be {want}'))
    if op[0] == 'define' and not problems:
        if getattr(ret, 'name', None) != op[1]:
            problems.append(('define-variable-return', f'define_variable returned {ret!r}'))
    if op[0] == 'scale' and not problems:
        pass  # compare_state checks every column: only the scaled one may differ from before
    _ = before_cols
    return problems, s2


# --------------------------------------------------------------------------- kernel protocol
def bfs_depth(tier):
    return 3 if tier == 'quick' else 4


def bfs_roots(tier, seed):
    """The main search (base alphabet, complete observer list, depth bfs_depth) and a second search over the wide
    alphabet (value magnitudes, undefined values) to its own depth bound, with the reduced observer list."""
    roots = [dict(table=t, tier=tier) for t in ('A', 'B', 'C')]
    roots += [dict(table=t, tier=tier, wide=True, depth=3, all_observers=tier == 'thorough') for t in ('A', 'B', 'C')]
    # third search: the column-type alphabet (operands that are not integers) from tables of every column typing
    roots += [dict(table=t, tier=tier, dt=True, depth=3, all_observers=tier == 'thorough') for t in dt_tables(tier)]
    if tier == 'thorough':
        # the base alphabet (complete observer list) from one table of each column typing
        roots += [dict(table=t, tier=tier, depth=3) for t in dt_tables('quick')]
    # fifth search: the refusal alphabet (operations the library refuses are events that leave the state where it is),
    # from tables whose individuals are consecutive (A, B | C) and tables where they are not (D, E | typed)
    roots += [dict(table=t, tier=tier, rf=True, depth=2 if tier == 'quick' or '.' in t else 3)
              for t in (('A', 'B', 'D', 'E') if tier == 'quick' else ('A', 'B', 'C', 'D', 'E', 'D.f', 'E.i', 'D.v'))]
    return roots


def dt_tables(tier):
    """Root tables of the column-type parts: quick = each index layout once, each column typing once;
    thorough = every index layout x every column typing."""
    if tier == 'quick':
        return ['A.i', 'B.f', 'C.v']
    return [t + '.' + v for v in DT_VARIANTS for t in ('A', 'B', 'C')]


def bfs_expand(task):
    rec = Rec()
    install_seams()
    try:
        succ = expand(task['root'], [list(e) for e in task['history']], rec)
    finally:
        remove_seams()
    if not task['history']:
        rec.sample(dict(part='bfs', root=task['root'], history=[], successors=[s['event'] for s in succ]))
    out = rec.result()
    out['succ'] = succ
    return out


CHAINS = [
    [['remove', 'c_eq_1'], ['add', 'y1'], ['scale', 'x', 0.5], ['panel', 'id'], ['remove', 'id_mid'], ['define', 'z']],
    [['panel', 'id'], ['add', 'y2'], ['remove', 'c_minus_1'], ['scale', 'c', 2], ['remove', 'zero'], ['build_map']],
    [['add', 'y1'], ['remove', 'y1_small'], ['panel', 'id'], ['remove', 'first'], ['remove', 'last'], ['add', 'y2']],
    [['scale', 'c', 2], ['remove', 'c_eq_1'], ['define', 'z'], ['panel', 'id'], ['build_map'], ['add', 'y2'],
     ['remove', 'x_gt']],
    [['remove', 'first'], ['remove', 'last'], ['remove', 'zero'], ['add', 'y1'], ['scale', 'x', -4.0],
     ['define', 'z'], ['add', 'y2']],
    [['remove', 'or'], ['panel', 'id'], ['scale', 'x', 0.5], ['scale', 'x', 0.5], ['add', 'y1'], ['remove', 'y1_small']],
]


# -- sweeps: one symbol of the wide alphabet varied over its whole menu, after a few earlier operations
PRE = [[], [['remove', 'first']], [['panel', 'id']], [['add', 'y1'], ['remove', 'c_eq_1']]]


def mag_forms(m):
    """Ways in which condition values of magnitude m arise."""
    return [[['remove', 'xm:' + m]],                                     # formula with a tiny factor
            [['scale', 'x', MAGS[m]], ['remove', 'col:x']],              # change of units, then the column as condition
            [['add', 't', 'xm:' + m], ['remove', 'col:t']],              # stored tiny column as condition
            [['remove', 'cm:' + m]],                                     # negative / zero / positive
            [['remove', 'k:' + m]]]                                      # raw non-zero number: every row goes


NAN_BASES_Q, NAN_BASES_T = ['0', 'x'], ['0', 'id', 'x']


def nan_histories(mask, base, tier):
    d = ['define', 'w', f'nan:{mask}:{base}']
    hs = [[d, ['panel', 'id']], [d, ['remove', 'c_eq_1'], ['panel', 'id']]]
    if tier == 'thorough':
        hs += [[['panel', 'id'], d], [d], [d, ['scale', 'x', 0.5], ['remove', 'last']]]
    return hs


# the flattening function on raw frames: every placement of two values and 'undefined' in one column
TOOL_COLS = ['p', 'id', 'r', 'k']
PVALS = [float(XS[0]), float(XS[1]), float('nan')]


def tool_layouts():
    a, b, c = sorted(set(IDS_SORTED))
    return [dict(ids=list(IDS_SORTED), index=None),                       # contiguous, sorted
            dict(ids=[a, b, a, c, b], index=[0, 1, 2, 0, 1]),             # interleaved individuals, duplicate labels
            dict(ids=list(IDS_UNSORTED), index=[4, 2, 0, 3, 1]),          # contiguous, unsorted, permuted labels
            dict(ids=[a, a, a, a, a], index=[3, 5, 6, 8, 9]),             # one individual, labels with gaps
            dict(ids=[c, a, b, a + 100, b + 100], index=None)]            # every individual observed once


def dt_forms(col, k):
    """Every kind of transformation with the operand k (a name in OPERANDS) applied to the column col."""
    return [[['scale', col, OPERANDS[k]]],                                   # change of units
            [['add', 't', f'fm:{col}:{k}'], ['remove', 'col:t']],            # stored product, then used as condition
            [['define', 'w', f'fs:{col}:{k}']],                              # stored difference
            [['remove', f'fm:{col}:{k}']],                                   # product as condition (non-zero below 1)
            [['remove', f'fg:{col}:{k}']],                                   # threshold that is not an integer
            [['remove', f'fq:{col}:{k}']]]                                   # equality of two products


def tasks(tier, seed):
    """Deep chains beyond the BFS depth bound: every prefix is compared with the reference, observers run
    after the last step (quick) or after every step (thorough).  Sweeps: magnitudes of condition values,
    placements of undefined values (through define_variable and on raw frames), operands x columns x column types."""
    t = []
    for table in ('A', 'B', 'C'):
        for ci in range(len(CHAINS)):
            t.append(dict(part='chain', root=dict(table=table, tier=tier), chain=ci))
    for ti, table in enumerate(dt_tables(tier)):
        for ci in range(len(CHAINS)):
            if tier == 'thorough' or ci % 3 == ti % 3:
                t.append(dict(part='chain', root=dict(table=table, tier=tier), chain=ci))
    for table in ['A', 'B', 'C'] + (dt_tables('quick') if tier == 'thorough' else []):
        for pi in range(len(PRE)):
            for kinds in ([[k] for k in PROV_KINDS] if tier == 'thorough' else [PROV_KINDS[:4], PROV_KINDS[4:]]):
                # the layouts with a further column (positions beyond the columns of this table) are tasks of their own
                lay = prov_layouts(tier, pi)
                for part in ([i for i in lay if len(LAYOUTS[i]) == len(COLS)], [i for i in lay if len(LAYOUTS[i]) != len(COLS)]):
                    kk = kinds if part[0] == 0 else [k for k in kinds if k not in PROV_LOCAL]
                    if kk:
                        t.append(dict(part='prov', root=dict(table=table, tier=tier, prov=True, relative=True), pre=pi,
                                      kinds=kk, layouts=part))
    for table in ['A', 'B', 'C'] + dt_tables(tier):
        for pi in range(len(PRE)):
            t.append(dict(part='dtsweep', root=dict(table=table, tier=tier, dt=True, relative=True), pre=pi))
    for table in ('A', 'B', 'C'):
        for pi in range(len(PRE)):
            t.append(dict(part='mag', root=dict(table=table, tier=tier, wide=True), pre=pi))
    for table in ('A', 'B', 'C'):
        for base in (NAN_BASES_Q if tier == 'quick' else NAN_BASES_T):
            for lo in (1, 9, 17, 25):
                t.append(dict(part='nanpat', root=dict(table=table, tier=tier, wide=True), base=base, masks=[lo, lo + 8]))
    for li in range(2 if tier == 'quick' else len(tool_layouts())):
        for lead in range(3):
            t.append(dict(part='tool', layout=li, lead=lead, tier=tier))
    if tier == 'quick':
        # the row-name variants also on the frame whose individuals are observed once (the complete menu runs in thorough)
        t.append(dict(part='tool', layout=len(tool_layouts()) - 1, lead=0, tier=tier, only='rn:'))
    # the identifiers of a panel are rescaled (change of coding): the map of the individuals follows
    for table in (['A', 'B', 'L1'] if tier == 'quick' else ['A', 'B', 'C', 'A.f', 'L1', 'L2']):
        t.append(dict(part='idscale', root=dict(table=table, tier=tier, idscale=True)))
    # large tables (blocks of individuals not in ascending order): histories through panel / remove on panel / build_map
    for table in (['L1', 'L2', 'L3'] if tier == 'quick' else ['L1', 'L2', 'L3', 'L1.f', 'L2.i', 'L3.v']):
        for hi in range(len(LARGE_HISTORIES)):
            t.append(dict(part='large', root=dict(table=table, tier=tier, large=True), history=hi))
    # chains with refused operations in the middle
    for table in (['A', 'B', 'C', 'D', 'E', 'L2'] if tier == 'quick' else ['A', 'B', 'C', 'D', 'E', 'L1', 'L2', 'L3', 'D.f', 'E.i']):
        for ci in range(len(RF_CHAINS)):
            t.append(dict(part='rfchain', root=dict(table=table, tier=tier, rf=True), chain=ci))
    return t


LARGE_HISTORIES = [
    [['panel', 'id']],
    [['remove', 'c_eq_1'], ['panel', 'id']],
    [['panel', 'id'], ['remove', 'c_eq_1']],                                       # the map is rebuilt by remove
    [['panel', 'id'], ['add', 'y1'], ['remove', 'x_gt'], ['build_map']],
    [['scale', 'x', 0.5], ['remove', 'first'], ['panel', 'id'], ['remove', 'last']],
    [['panel', 'id'], ['remove', 'id_mid'], ['define', 'z'], ['build_map']],
    [['remove', 'or'], ['panel', 'id'], ['remove', 'c_minus_1'], ['add', 'y2']],
]
RF_CHAINS = [
    [['panel', 'id'], ['remove', 'id_mid'], ['panel', 'id'], ['add', 'x', 'lin'], ['remove', 'first'], ['define', 'c', 'prod']],
    [['panel', 'c'], ['add', 'y1'], ['add', 'y1', 'mix'], ['scale', 'x', 0.5], ['panel', 'c'], ['remove', 'c_eq_1']],
    [['add', 'x', 'lin'], ['panel', 'x'], ['panel', 'id'], ['panel', 'c'], ['remove', 'last'], ['build_map']],
]


IDSCALE_PRE = [[['panel', 'id']], [['panel', 'id'], ['remove', 'first']], [['add', 'y1'], ['panel', 'id'], ['remove', 'c_eq_1']]]
IDSCALE_FACTORS_Q, IDSCALE_FACTORS_T = [10, 0.5], [10, 0.5, 2, 100.0, 0.25]


def _run_idscale(task, rec):
    """panel('id') ... scale_column('id', k) with k > 0 (the order and the grouping of the individuals are kept, only their
    coding changes): the table, the map of the individuals (whom it names, which rows it gives them) and what the
    observers return are those of the rescaled table."""
    root = task['root']
    thorough = root['tier'] == 'thorough'
    rec.sample(dict(part='idscale', root=root, pre=IDSCALE_PRE, factors=IDSCALE_FACTORS_T if thorough else IDSCALE_FACTORS_Q))
    for pre in IDSCALE_PRE:
        for k in (IDSCALE_FACTORS_T if thorough else IDSCALE_FACTORS_Q):
            h = pre + [['scale', 'id', k]]
            if _run_steps(root, h, rec, 'idscale', observe_last=True, start=len(pre)) and thorough:
                _run_steps(root, h + [['remove', 'last']], rec, 'idscale', observe_last=True, start=len(h))


def _run_large(task, rec):
    root, h = task['root'], LARGE_HISTORIES[task['history']]
    rec.sample(dict(part='large', root=root, history=h, blocks=LARGE[split_table(root['table'])[0]]))
    thorough = root['tier'] == 'thorough' and '.' not in root['table']
    for i in range(1, len(h) + 1):
        # every step compared; observers after the last step | thorough (mixed typing): in every state that is panel
        if i == len(h) or (thorough and any(op[0] == 'panel' for op in h[:i])):
            if not _run_steps(root, h[:i], rec, 'large', observe_last=True, start=i - 1):
                return
        elif not _run_steps(root, h[:i], rec, 'large', observe_last=False, start=i - 1):
            return


def _run_rfchain(task, rec):
    root, chain = task['root'], RF_CHAINS[task['chain']]
    # a declaration on a column other than id belongs to the alphabet only while it is refused
    ref, h = RefTable(root['table']), []
    for op in chain:
        if len(ref.rows) == 0:
            break
        if op[0] == 'panel' and op[1] != 'id' and not (ref.panel is None and ref.refuses(op)):
            continue
        if op[0] == 'add' and len(op) == 2 and op[1] in ref.cols:
            continue
        h.append(op)
        if not ref.refuses(op):
            ref.apply(op)
    rec.sample(dict(part='rfchain', root=root, chain=h))
    for i in range(1, len(h) + 1):
        if not _run_steps(root, h[:i], rec, 'rfchain', observe_last=True, start=i - 1):
            return


def run_task(task):
    rec = Rec()
    install_seams()
    try:
        {'chain': _run_chain, 'mag': _run_mag, 'nanpat': _run_nanpat, 'tool': _run_tool,
         'dtsweep': _run_dtsweep, 'prov': _run_prov, 'large': _run_large, 'rfchain': _run_rfchain,
         'idscale': _run_idscale}[task['part']](task, rec)
    finally:
        remove_seams()
    return rec.result()


def on_abort(task, info):
    """A worker died while running the task.  The operations of the formula-object sweep are all in the alphabet (nothing
    is expected to be refused, let alone to take the process down): the operation that was running did not store / return
    the values of its formula.  Anywhere else a dying worker is a harness error."""
    if task.get('part') == 'prov':
        return dict(key='C13|process-died|op=add/define/remove/values;formula=object-with-a-past',
                    what=f'the process died (exit {info.get("exitcode")}) during the operations add_column / define_variable / remove / '
                         f'values_from_database with formula objects of the kinds {task.get("kinds")} after history '
                         f'{PRE[task["pre"]]} on table {task["root"]["table"]}: {str(info.get("log_tail", ""))[-200:]}',
                    case={k: v for k, v in task.items() if k != 'fresh'})
    return None


def _prov_child(task, q):
    q.put(run_task(task)['violations'])


def _run_steps(root, history, rec, tag, observe_last=True, start=0):
    """Every step of `history` from `start` on compared with the reference; observers after the last step."""
    table = root['table']
    for i in range(start, len(history)):
        hist, op = history[:i], history[i]
        try:
            R = replay_history(table, hist)
        except RuntimeError:
            return False
        if len(R.ref.rows) == 0:
            return False
        flags = flags_of(R.snap)
        problems, s2 = step_and_compare(R, op, rec)
        if not problems and op[0] in ('scale', 'add', 'define'):
            problems = relative_cells(s2, R.ref, op[1])
        rec.case((table, tag, json.dumps(history), i), (op, None if s2 is None else canon_of(s2)),
                 outcome=(tag, op[0], None if s2 is None else (len(s2['rows']), len(s2['cols']), s2['panel'] is not None,
                                                                s2['excluded'])))
        rec.transition()
        if s2 is not None:
            rec.states.add(short_hash(repr((json.dumps(root, sort_keys=True), canon_of(s2))), 16))
        if problems:
            report(rec, problems, op, root, hist, flags, False, extra=operand_class(root, R.snap, op))
            return False
    if observe_last:
        ref = RefTable(table)
        for op in history:
            if not ref.refuses(op):
                ref.apply(op)
        if len(ref.rows) > 0:
            expand(root, history, rec, do_observers=True, do_mutators=False)
    return True


def relative_cells(s2, ref: RefTable, col):
    """The written column, cell by cell, with a purely relative tolerance (tiny values are values too)."""
    if col not in s2['cols'] or 'r' not in s2['cols']:
        return []
    ci, ri = s2['cols'].index(col), s2['cols'].index('r')
    for r in s2['rows']:
        want = ref.row_of(int(r[ri]))[col]
        got = r[ci]
        if not ((got != got and want != want) or got == want or abs(got - want) <= 1e-10 * max(abs(got), abs(want))):
            return [('cell-value-relative', f'row r={int(r[ri])} column {col} is {got!r}, the reference implies {want!r}')]
    return []


def _run_mag(task, rec):
    root, pre = task['root'], PRE[task['pre']]
    rec.sample(dict(part='mag', root=root, pre=pre, forms=mag_forms('2^-40')))
    for m in (MAGS_Q if root['tier'] == 'quick' else list(MAGS)):
        for form in mag_forms(m):
            # observers in the state that holds the tiny values (before the removal), thorough: also after it
            ok = _run_steps(root, pre + form[:-1], rec, 'mag', observe_last=len(form) > 1, start=len(pre))
            if ok:
                _run_steps(root, pre + form, rec, 'mag', observe_last=root['tier'] == 'thorough', start=len(pre) + len(form) - 1)


def _run_dtsweep(task, rec):
    """operand x column x kind of transformation, after each of the earlier histories, on one root table."""
    root, pre = task['root'], PRE[task['pre']]
    thorough = root['tier'] == 'thorough'
    rec.sample(dict(part='dtsweep', root=root, pre=pre, forms=dt_forms('c', '0.01')))
    panel = any(op[0] == 'panel' for op in pre)
    for k in (list(OPERANDS) if thorough else OPERANDS_Q):
        for col in ('c', 'x', 'id'):
            for form in dt_forms(col, k):
                if form[0][0] == 'scale' and col == 'id' and panel:
                    rec.count('skipped_scaling_of_the_panel_column')      # see dt_mutators
                    continue
                # observers in the state holding the written values: always after a scaling, thorough: every form
                observe = len(form) == 1 and form[0][0] in (('scale', 'define') if thorough else ('scale',))
                ok = _run_steps(root, pre + form[:1], rec, 'dt', observe_last=observe, start=len(pre))
                if ok and len(form) > 1:
                    _run_steps(root, pre + form, rec, 'dt', observe_last=thorough, start=len(pre) + 1)


def _observe_one(root, history, op, rec, tag):
    """One observing operation in the state reached by `history`; the state must not change."""
    table = root['table']
    try:
        R = replay_history(table, history)
    except RuntimeError:
        return
    if len(R.ref.rows) == 0:
        return
    flags, canon0 = flags_of(R.snap), canon_of(R.snap)
    ctx = dict(root=table + '/' + tag, hist=json.dumps(history), depth=len(history))
    problems = run_observer(R, op, root['tier'], rec, ctx)
    report(rec, problems, op, root, history, flags, True, extra=operand_class(root, R.snap, op))
    try:
        c1 = canon_of(snap(R.db))
    except Exception as e:  # noqa: BLE001
        c1 = f'snapshot failed: {type(e).__name__}: {e}'
    if c1 != canon0:
        report(rec, [('observer-changed-the-table', f'state before {canon0} / after {c1}')], op, root, history, flags, True,
               extra=operand_class(root, R.snap, op))


def _run_prov(task, rec):
    """past of the formula object x layout of the other table x formula x operation, after each of the earlier histories;
    then a second use of the same object after the table has changed."""
    root, pre = task['root'], PRE[task['pre']]
    thorough = root['tier'] == 'thorough'
    layouts = task['layouts']
    rec.sample(dict(part='prov', root=root, pre=pre, kinds=task['kinds'], layouts=[LAYOUTS[i] for i in layouts[:4]]))
    for kind in task['kinds']:
        for layout in ([0] if kind in PROV_LOCAL else layouts):
            p = f'{kind}@{layout}#g'
            again = 'reused@0#g'
            for f in (PROV_FORMULAS_T if thorough else PROV_FORMULAS_Q):
                ok = _run_steps(root, pre + [['add', 'u1', f, p]], rec, 'prov', observe_last=False, start=len(pre))
                _run_steps(root, pre + [['define', 'u1', f, p]], rec, 'prov', observe_last=False, start=len(pre))
                _observe_one(root, pre, ['values', f, p], rec, 'prov')
                if ok:
                    # the same object once more, after a change of units and with a further column in the table
                    h = pre + [['add', 'u1', f, p], ['scale', 'x', 0.5]]
                    _run_steps(root, h + [['define', 'u2', f, again]], rec, 'prov', observe_last=False, start=len(h))
                    _observe_one(root, h, ['values', f, again], rec, 'prov')
            for c in (PROV_CONDS_T if thorough else PROV_CONDS_Q):
                ok = _run_steps(root, pre + [['remove', c, p]], rec, 'prov', observe_last=False, start=len(pre))
                if ok and (thorough or c == 'x_gt'):
                    h = pre + [['remove', c, p], ['scale', 'x', -4.0]]
                    _run_steps(root, h + [['remove', c, again]], rec, 'prov', observe_last=False, start=len(h))


def _run_nanpat(task, rec):
    root, base = task['root'], task['base']
    rec.sample(dict(part='nanpat', root=root, histories=nan_histories(task['masks'][0], base, root['tier'])))
    for mask in range(*task['masks']):
        if mask >= 32:
            break
        for h in nan_histories(mask, base, root['tier']):
            _run_steps(root, h, rec, 'nanpat')


def tool_case(layout, pattern):
    """-> (pandas frame, reference table) of one raw frame."""
    import pandas as pd

    spec = tool_layouts()[layout]
    ids = [float(v) for v in spec['ids']]
    rows = [(RID[i], {'p': PVALS[pattern[i]], 'id': ids[i], 'r': float(RID[i]), 'k': ids[i] * 0.5}) for i in range(5)]
    df = pd.DataFrame({c: [row[c] for _, row in rows] for c in TOOL_COLS}, columns=TOOL_COLS, index=spec['index'])
    return df, RefTable.raw(TOOL_COLS, rows)


class _Frame:
    def __init__(self, data):
        self.data = data


def tool_variants(ref):
    v = ['auto', 'given', 'given_empty']
    if truly_identical(ref, 'id', undefined_equal=True) != truly_identical(ref, 'id'):
        v.append('given_undefined_equal')
    # the optional argument row_name: the tag column r (unique on every row, hence inside every individual) names the rows
    v += ['rn:auto', 'rn:given', 'rn:given_empty']
    return v


def _tool_one(layout, pattern, variant, rec):
    df, ref = tool_case(layout, pattern)
    before = (frame_rows(df), df.index.tolist(), [str(c) for c in df.columns])
    ctx = dict(root=f'tool/{layout}', hist=json.dumps(pattern), depth=1)
    problems = run_observer(Replayed(_Frame(df), ref, None), ['flat_tool', variant], 'quick', rec, ctx)
    after = (frame_rows(df), df.index.tolist(), [str(c) for c in df.columns])
    if repr(before) != repr(after):
        problems.append(('flatten-changed-its-argument', f'frame before {before} / after {after}', None))
    undefined = 'yes' if 2 in pattern else 'no'
    singles = len(set(tool_layouts()[layout]['ids'])) == 5
    for p in problems:
        if variant.startswith('rn:') and singles and p[0] == 'observer-raised':
            # one defect, one key: the row-name column is constant inside every individual (one observation each)
            rec.violation('C13|observer-raised|op=flatten_database;row_name=constant-inside-every-individual',
                          f'flatten_database(frame, "id", row_name="r", identical_columns: {variant[3:]}) on the frame with ids '
                          f'{tool_layouts()[layout]["ids"]} (every individual observed once), r = {RID}: {p[1]}; the table '
                          f'implies one row per individual holding its values',
                          dict(part='tool', layout=layout, pattern=pattern, variant=variant), observed=p[1])
            continue
        rec.violation(f'C13|{p[0]}|op=flatten_database;identical_columns={variant};undefined-values={undefined}',
                      f'{p[0]}: flatten_database(frame, "id", identical_columns: {variant}) on the frame with ids '
                      f'{tool_layouts()[layout]["ids"]}, index {tool_layouts()[layout]["index"]}, column p = '
                      f'{[PVALS[i] for i in pattern]}: {p[1]}',
                      dict(part='tool', layout=layout, pattern=pattern, variant=variant), observed=p[1])


def _run_tool(task, rec):
    layout = task['layout']
    rec.sample(dict(part='tool', layout=tool_layouts()[layout], values=repr(PVALS)))
    for rest in itertools.product(range(3), repeat=4):
        pattern = [task['lead']] + list(rest)
        _, ref = tool_case(layout, pattern)
        for variant in tool_variants(ref):
            if variant.startswith(task.get('only', '')):
                _tool_one(layout, pattern, variant, rec)


def _run_chain(task, rec):
    root, chain = task['root'], CHAINS[task['chain']]
    table, tier = root['table'], root['tier']
    rec.sample(dict(part='chain', root=root, chain=chain))
    for i in range(len(chain)):
        hist, op = chain[:i], chain[i]
        try:
            R = replay_history(table, hist)
        except RuntimeError:
            return  # a shorter prefix already failed and was reported
        ref_cols = set(R.ref.cols)
        if op[0] == 'remove' and not term_columns(R.ref.conds[op[1]]) <= ref_cols:
            return
        if len(R.ref.rows) == 0:
            return
        flags = flags_of(R.snap)
        problems, s2 = step_and_compare(R, op, rec)
        rec.case((table, 'chain', task['chain'], i), (op, None if s2 is None else canon_of(s2)),
                 outcome=(op[0], None if s2 is None else (len(s2['rows']), len(s2['cols']), s2['panel'] is not None)))
        rec.transition()
        if s2 is not None:
            rec.states.add(short_hash(repr((json.dumps(root, sort_keys=True), canon_of(s2))), 16))
        if problems:
            report(rec, problems, op, root, hist, flags, False, shrink=True)
            return
        if tier == 'thorough' or i == len(chain) - 1:
            if len(R.ref.rows) > 0:
                expand(root, chain[:i + 1], rec, do_observers=True, do_mutators=False, shrink=True)


# --------------------------------------------------------------------------- replay of one case
def replay(case):
    rec = Rec()
    if case.get('part') == 'tool':
        _tool_one(case['layout'], list(case['pattern']), case['variant'], rec)
        return rec.violations
    if case.get('part') == 'prov':
        # a whole task of the formula-object sweep during which the process died: re-run in a child process
        import multiprocessing as mp

        ctx = mp.get_context('spawn')
        q = ctx.Queue()
        p = ctx.Process(target=_prov_child, args=(dict(case), q))
        p.start()
        try:
            found = q.get(timeout=TASK_TIMEOUT)
        except Exception:  # noqa: BLE001  (nothing arrived: the child died)
            found = None
        p.join(30)
        if found is None or p.exitcode not in (0, None):
            return [on_abort(dict(case), dict(exitcode=p.exitcode, log_tail=''))]
        return found
    install_seams()
    try:
        root, history, op = case['root'], [list(e) for e in case['history']], list(case['op'])
        table, tier = root['table'], root['tier']
        R = replay_history(table, history, check=False)
        flags = flags_of(R.snap)
        if case.get('observer'):
            canon0 = canon_of(R.snap)
            ctx = dict(root=table, hist=json.dumps(history), depth=len(history))
            problems = run_observer(R, op, tier, rec, ctx, only_answer=case.get('answer'))
            report(rec, problems, op, root, history, flags, True, extra=operand_class(root, R.snap, op))
            c1 = canon_of(snap(R.db))
            if c1 != canon0:
                report(rec, [('observer-changed-the-table', f'state before {canon0} / after {c1}')], op, root, history,
                       flags, True)
        else:
            problems, _ = step_and_compare(R, op, rec)
            if not problems and root.get('relative') and op[0] in ('scale', 'add', 'define'):
                problems = relative_cells(snap(R.db), R.ref, op[1])
            report(rec, problems, op, root, history, flags, False, extra=operand_class(root, R.snap, op))
    finally:
        remove_seams()
    return rec.violations
