"""C06 - the model family is consistent: special cases and generating functions agree.

Same bounded sweep of nest structures as C05 (every subset of alternatives outside every nest x every set
partition of the rest, J = 2..4; CNL assignments with alpha splits), executed on the real code.  Oracles:

  (a) nested logit with every nest parameter = 1                    == logit            (and log versions)
  (b) cross-nested logit whose alternatives belong wholly to one nest == nested logit    (cnl/logcnl/cnlmu)
  (c) nested_mev_mu / cnlmu (and log versions) with scale mu = 1      == unscaled models
  (d) legacy tuple syntax for the nests                               == nest objects
      (nested, lognested, nested_mev_mu, cnl, logcnl, cnlmu, get_mev_for_nested, get_mev_for_cross_nested,
       get_mev_generating_for_nested)
  (e) the published generating function get_mev_generating_for_nested is differentiated for real: utilities are
      V_i = beta_i + column, the engine's gradient gives dG/dV_i = y_i dG/dy_i; ln(dG/dV_i) - V_i must equal the
      published term get_mev_for_nested[i] (engine value) and the reference ln G_i, and G itself must equal the
      closed form  sum_m (sum_{i in m, available} y_i^{mu_m})^{1/mu_m} + sum_{i outside every nest} y_i.

Comparisons (a)-(d) are engine-vs-engine on identical rows (every utility vector x availability pattern x chosen
alternative); (e) is engine-vs-reference (vf.ref_mev, plain Python, never imports biogeme).

Two further alphabets are crossed with the structures (same oracle clauses, nothing stronger):

  * entry points: EVERY public name of biogeme.models of the nested / cross-nested family (ENTRIES: the snake_case
    functions, the camel-case names of earlier versions that are still exported - nestedMevMu, lognestedMevMu,
    getMevForNested(Mu), getMevGeneratingForNested, cnl_avail, logcnl_avail, getMevForCrossNested(Mu) - and the
    term-level functions get_mev_for_*(_mu), turned into models through the public mev / logmev) is put through
    the clauses that apply to it: (a) unit parameters == logit, (b) whole memberships == nested (with and without
    scale), (c) scale one == unscaled, (d) tuples == objects, and (e) with the old names of the generating function
    and of the terms (and the scaled terms with mu = 1).
  * parameter values that are not the initial values: nest parameters, the scale and the degrees of membership written
    as FREE parameters whose initial value differs from the value the model is evaluated at (supplied with betas=,
    as an estimation does).  Initial memberships: all 0 / all 1 / the complement 1 - alpha; whole memberships are also
    written as a full alpha matrix with explicit zeros (alternative listed in a nest it does not belong to).  The
    clauses are evaluated at the supplied values: whatever the library decides from the initial values when the
    expression is built must not change the model.
  * the way the availability conditions are written (AVFORMS): besides data columns (Variables) and None, one availability
    pattern written as plain Python numbers (int / float / bool), as Numeric objects, as numbers for some alternatives and
    Variables for the others, and as products of expressions (column x condition on another column).  Every availability
    pattern - the ones that remove alternatives included - is written in these forms and handed to BOTH models of a
    pair (the logit of clause (a) included), to every public entry point, and to the generating function and the terms of
    clause (e).  Whatever a model function decides from the type of the conditions when the expression is built must
    not change the model.
  * the utilities of alternatives that are NOT available (parts na*): in data the attributes of an unavailable alternative
    carry a "not applicable" code, so that its utility is an arbitrary, typically extreme number of either sign (NA_CODES:
    two codes per seed, |code| between 750 and 1e6, far outside the range where exp() is finite; never 99999, the engine's
    own missing-value code).  No formula of the family contains such a utility.  For every availability pattern with an
    unavailable alternative the codes are placed on each single unavailable alternative and on all of them together
    (signs alternating), crossed with ordinary utility vectors of the available alternatives, and the table is put through
    every clause: (a)-(d) for every nested structure (listing order of the nest members reversed, as everywhere), every
    public entry point, the genuinely cross-nested structures of (c), (d), and clause (e) - generating function, terms and
    closed form (the reference model only ever reads utilities of available alternatives).  Thorough: also with the
    availability conditions written in AVFORMS and the parameters moved away from their initial values.
  * the VALUE of the availability condition of an available alternative (parts avval*): in Biogeme an alternative is available
    when its condition is NON ZERO (the test of the logit expression, of mev / logmev and of the nest sums of the nested logit),
    so a condition holding a count (number of vehicles 0, 1, 2, 3), a share or any other non-zero number is as valid as 0 / 1,
    and no formula of the nested family contains that value.  AV_VALUES: per seed three positive values other than one (a
    count, a larger number, a fraction; thorough: also a negative one).  For every availability pattern the values are placed
    on each single available alternative (the others keep 1) and on all available alternatives together (values rotating),
    crossed with the utility vectors, and the table is put through every clause that stays inside the nested / logit family:
    (a) unit parameters == logit, (c) scale one == unscaled, (d) tuples == objects, every public entry point of the nested
    family, and clause (e) - generating function, its real derivative, the published terms and the closed form, where the
    reference model reads "available" as "condition non zero".  The same valued conditions are also written without data
    columns (Python numbers, Numeric objects, numbers and columns, products of expressions).  Clause (b) is NOT evaluated on
    these tables: the cross-nested functions use the condition as a weight (see ASSUMPTIONS).
  * HISTORIES ON LIVE ARGUMENT OBJECTS (parts live*): the model functions receive the caller's own objects - the dict of
    utilities, the dict of availability conditions, the nests (objects or legacy tuples), the scale - and a script keeps them:
    it requests models, updates an entry of a dict IN PLACE (scenario analysis: V[j] = V[j] + ..., av[j] = 0) and requests the
    models again with the same objects.  The statement quantifies over all utilities and availabilities: every clause must hold
    for the content the dicts have WHEN the function is called, whatever was requested before.  One history = one set of
    argument objects (LiveArgs); earlier calls (a primer: every public name of the family alone, in both nest syntaxes, and the
    logit functions - or all of them in turn followed by the per-alternative simulation loops); one or two in-place updates
    (live_updates: nothing / V[j] replaced / av[j] := 1 / av[j] := 0 / every V / V[j] popped and inserted again / V[j] and
    av[j], for every alternative j); then every model of clauses (a)-(d) is requested with the SAME objects and compared with
    the simpler model of its pair, built from the same objects and built from new objects that hold the same content
    (tuples == objects: both from the live objects).  Clause (e) the same way: earlier calls of the generating function / of
    the terms / of the model, update, then G and the terms requested with the same objects, differentiated and compared with
    the closed form of the utilities and availabilities in force.  Rows on which an update leaves no alternative available
    are counted and left out.  Engine evaluations are memoised by the printed formula (FormulaEval): histories that end in the
    same content must give the same formula on a library whose functions depend on the content of their arguments only; a
    formula that prints differently is evaluated for real and has to satisfy the clause.
"""
from __future__ import annotations

import hashlib
import itertools
import json
import math
import warnings

from props import c05 as B
from vf import ref_mev as R
from vf.rec import Rec

ID = 'C06'
LEVEL = 'exploration'
TECHNIQUE = ('bounded exhaustive enumeration of nest structures x parameter grids x availability patterns x utility grids x '
             'every public entry point of the family (old names included) x parameters evaluated at / away from their initial '
             'values x the availability conditions written as data columns / None / Python numbers / Numeric objects / numbers '
             'and columns / expressions x utilities of unavailable alternatives carrying extreme not-applicable codes x availability '
             'conditions of available alternatives holding non-zero values other than one (counts, shares, a negative number) x '
             'histories on live argument objects (earlier calls with the same dict of utilities / dict of availability conditions / '
             'nests, an entry of a dict replaced in place, the models requested again); paired evaluation of the model functions by the real engine (reductions, scale one, tuple syntax) and real '
             'differentiation of the published generating function by the engine gradient, against closed forms')
RULE = ('one case = one (oracle clause, pair of model functions, nest structure, parameter assignment, availability pattern); '
        'every utility vector x chosen alternative under it is one compared value vector (counted in evaluations). '
        'Non-trivial: at least two alternatives available (for the derivative clause: the differentiated alternative is '
        'available and the structure has a nest with parameter != 1 or an alternative outside every nest). '
        'The pair of model functions names the public entry point really called (ENTRIES: 22 names, term-level functions '
        'through mev and logmev) and the structure records whether the parameters are free parameters moved away from '
        'their initial values (and with which initial values) and, when the availability conditions are not data columns, '
        'the form they are written in (AVFORMS: int, float, bool, Numeric, two mixtures of numbers and columns, '
        'expressions) and whether the utilities of the unavailable alternatives carry not-applicable codes (NA_CODES: each '
        'single unavailable alternative / all of them x two codes of opposite sign x utility vectors of the others are the '
        'value vectors of one case) or the availability conditions of available alternatives hold values other than one '
        '(AV_VALUES: the valued pattern - which alternative holds which value - is the availability pattern of the case). '
        'Histories on live argument objects (parts live*): the case also names the history - the earlier call(s) made with the '
        'same argument objects (primer: one public name of the family x nest syntax, a logit function, or all of them) and the '
        'in-place update(s) of the dict of utilities / of availability conditions made before the models of the pair were '
        'requested; the availability pattern of the case is the one in force after the update (non-trivial: two alternatives '
        'available after the update); the second model of a pair is built from the same objects or from new objects of equal '
        'content (named in the pair). '
        'distinct = distinct such keys.')
ASSUMPTIONS = [
    'grids of the per-seed alphabets of C05 (utilities, nest parameters, scale, alpha splits); J <= 3 quick, J <= 4 thorough; '
    'cross-nested structures: 2 nests (J <= 3 quick, J <= 4 thorough) or 3 nests (J = 2 quick, J <= 3 thorough), reduced '
    'parameter assignments for the largest families (3 nests with J = 3, 2 nests with J = 4: two assignments)',
    'engine-vs-engine comparisons use relative 1e-10 + absolute 1e-12; tuple-vs-object relative 1e-13',
    'the value of G on rows where an alternative outside every nest is unavailable is not pinned by the statement '
    '(its derivative for available alternatives is): such rows are counted and excluded from the G-value clause only',
    'derivatives of G with respect to unavailable alternatives are not compared (ln G_i is only used for available ones)',
    'the engine gradient is trusted to be the derivative of the expression it is given (that is property C02)',
    'entry points: every public name of biogeme.models defined in models/nested.py and models/cnl.py (a name without a role '
    'in ENTRIES is counted, not checked); each is crossed with every nest structure (J <= 3 quick, J <= 4 thorough), both '
    'nest syntaxes, availabilities given / None, scale 1 and one scale != 1; nest parameters: all ones and one rotating '
    'assignment without ones (quick, and J = 4), the full product of the grid (thorough, J <= 3)',
    'moved parameters: nest parameters, scale and degrees of membership as free Betas whose initial value differs from the '
    'value supplied with betas= at evaluation; initial memberships all 0 / all 1 / 1 - alpha, initial nest parameter and '
    'scale 1 (or value + 0.5); whole memberships as a full alpha matrix with explicit zeros; every nested structure with a '
    'nest x the same parameter assignments x the three initial-value modes; cross-nested structures: one assignment x '
    'initial memberships 0 and one other mode rotating with the structure (quick: all three modes for J = 2 with 2 nests; '
    'thorough: two assignments x all three modes except for the largest families 3 nests x J = 3 and 2 nests x J = 4)',
    'old names of the generating function / of the terms and the scaled terms with mu = 1 (GEN_ENTRIES, 5 combinations) '
    'in the derivative clause: every combination for J <= 3, rotating with the structure for J = 4',
    'availability forms (AVFORMS, 7 forms; availability values are 0 / 1 in these parts - the cross-nested functions use the '
    'condition as a weight, other non-zero values are outside their domain; for the nested family see AV_VALUES below): every availability pattern is its own expression, evaluated '
    'on every utility vector x chosen alternative; nest parameters: all ones and one rotating assignment without ones. '
    'Clauses (a)-(d) on nested structures: quick - J = 2 every structure x pattern x 2 assignments x one all-number form '
    'and one other form rotating with (structure, assignment, pattern); J = 3 every third structure (rotating with the '
    'seed) plus the single nest holding everything, one assignment with an all-number form and the other one with another '
    'form, alternating with the pattern; thorough - J = 2 every form; J = 3 every structure, two rotating forms for both assignments and all seven for '
    'the all-ones assignment; J = 4 one form and one assignment per (structure, pattern), rotating.  The scaled versions '
    'mu != 1 of (b), (d) only in thorough, J <= 3, for the rotating forms.  Entry points: J = 2 (quick: one pattern and one '
    'form per structure; thorough: every pattern x form) and J = 3 (thorough: every second pattern, one form).  Genuinely '
    'cross-nested structures (c), (d): 2 nests x J = 2 (quick: every second structure, rotating with the seed, one form per '
    'pattern; thorough: every form), thorough also 3 nests x J = 2 and 2 nests x J = 3 with one alpha split and one form '
    'per (structure, pattern).  Derivative clause (e): every structure and pattern, J <= 3 quick / J <= 4 thorough, two '
    'rotating forms (thorough J <= 3: every form), names of GEN_ENTRIES rotating',
    'not-applicable codes (NA_CODES: two values of opposite sign per seed, 750 <= |code| <= 1e6; 99999 excluded - the engine '
    'refuses a Variable holding its missing-value code) only ever on UNAVAILABLE alternatives: every availability pattern with '
    'an unavailable alternative x placement (each single unavailable alternative; all together, signs alternating) x code x '
    '4 utility vectors of the other alternatives.  Clauses (a)-(d): every nested structure, J <= 3 quick / J <= 4 thorough, '
    'nest parameters all ones and one rotating assignment without ones (thorough J <= 3: full grid, scaled versions, and one '
    'moved-parameter mode rotating).  Clause (e): every structure x the same assignments x the default names and one rotating '
    'combination of GEN_ENTRIES.  Entry points: quick - J = 2 every structure, J = 3 every fifth structure (rotating with the '
    'seed) plus the single nest holding everything, one of the two assignments alternating; thorough - J <= 3 every structure '
    'and assignment, J = 4 every fourth structure.  Genuinely cross-nested structures (c), (d): the families of the '
    'availability-form part (quick 2 nests x J = 2).  Thorough, J <= 3: crossed with the availability forms (one table per '
    'pattern, two rotating forms for (a)-(d) with J = 2, one above; one form for (e)).  Extreme utilities of AVAILABLE '
    'alternatives are not in this alphabet (the common levels of C05 cover large utilities inside the range of exp)',
    'availability values (AV_VALUES: per seed a count, a larger number and a fraction, all positive and different from one; '
    'thorough: also one negative value): available means condition != 0.  Every availability pattern x placement (each single '
    'available alternative, the others keeping 1; all available alternatives together, values rotating) x value x utility '
    'vectors (J <= 3: 2 levels per alternative, J = 4: every fourth vector).  Only the clauses inside the nested / logit family: '
    '(a), (c), (d) for nested / lognested / nested_mev_mu, the entry points of the nested family, clause (e) with the default '
    'names and one rotating combination of GEN_ENTRIES (reference: available = non zero); clause (b) and every cross-nested '
    'function are left out (they multiply the nest term by the condition: values other than 0 / 1 are outside their domain). '
    'Structures: every one, J <= 3 quick / J <= 4 thorough, nest parameters all ones and one rotating assignment without ones '
    '(thorough J <= 3: full grid, scaled versions, one moved-parameter mode rotating); entry points: the structures of the '
    'part na_entry with the two assignments (quick: one of them, alternating).  Valued conditions written without data columns (VAL_AVFORMS: float, Numeric, int-or-float, two mixtures '
    'of numbers and columns, expressions; one table per valued pattern, form rotating): clause (e) for J = 2 every pattern, '
    'J = 3 every third pattern (thorough: every one), J = 4 (thorough) every eighth one; thorough also (a), (c), (d) for J = 2 '
    'and every fourth pattern of J = 3',
    'histories on live argument objects (bound: ONE earlier primer, at most TWO in-place updates, then every model of the clauses; '
    'the updated objects are the caller\'s dicts of utilities and of availability conditions - nest objects and parameter objects '
    'are not modified after construction; utilities and availability conditions are data columns, a replaced utility is the old '
    'one plus a constant of LIVE_SHIFTS (per seed), a replaced availability condition the number 1 or 0).  Primers: each of the '
    '22 public names x {nest objects, legacy tuples} alone (scaled functions with scale one and with the other scale, term-level '
    'functions through mev and logmev), logit, loglogit (46; 22 for a genuinely cross-nested context), and \'all\' = every one of '
    'them in turn followed by the per-alternative loops with a constant choice.  Updates (live_updates): none, V[j], av[j] := 1, '
    'av[j] := 0 for every j, every V; J = 2 and thorough also V[j] popped and inserted again (dict order changes) and V[j] with '
    'av[j] (12 updates for J = 2, 17 for J = 3; 11 for J = 3 quick).  Nested structures with a nest, whole memberships for the '
    'cross-nested side (live_plan): quick - J = 2 every structure: all-ones assignment with the primer all x every update, '
    'probabilities and log probabilities, every public entry point requested after the update; the assignment without ones the '
    'same plus the scaled versions, chains of two updates (every second update followed by the next one, the clauses also checked '
    'in between) and every single primer x every update (log versions of the unscaled and scale-one models after the update); one '
    'of the two assignments also with availability None; J = 3 every structure, one assignment (alternating), log versions, '
    'primer all x every update, single primers for every fifth structure (rotating with the seed) and the single nest holding '
    'everything.  thorough - J = 2 everything for both assignments, every ordered pair of updates for the assignment without '
    'ones; J = 3 both assignments, chains next, single primers; J = 4 one assignment, primer all, single primers every fourth '
    'structure.  Genuinely cross-nested contexts (2 nests; clauses (c), (d)): quick - J = 2 every third structure with a cross '
    'membership (rotating with the seed), log versions, single primers for every second of them; thorough - every structure '
    'J = 2 (everything, chains) and J = 3 with one alpha split.  Clause (e) (part live_gen; primers all / generating function / '
    'terms / model x one update, names of GEN_ENTRIES, nest syntax and parameter forms rotating): J = 2 every structure x two '
    'assignments x every primer x every update; J = 3 one assignment (thorough: two), primer all x every update, single primers '
    'every fourth update (thorough: every second); J = 4 thorough likewise',
    'engine evaluations of the live parts are memoised per context by the printed formula (str of the expression, which writes '
    'out every utility, availability condition, parameter and number of the tree): expressions that print identically are one '
    'formula and are evaluated once; the engine is trusted to be a function of the formula',
]
ANCHOR_FILES = ['src/biogeme/models/nested.py', 'src/biogeme/models/cnl.py', 'src/biogeme/models/mev.py',
                'src/biogeme/models/logit.py', 'src/biogeme/nests.py']
DETERMINISM_SLICE = 3
TASK_TIMEOUT = 600.0

REL, ABS = 1e-10, 1e-12


# --------------------------------------------------------------------------- helpers
def shape(alone, nests):
    sizes = [len(n) for n in nests]
    return ('alone=' + ('yes' if alone else 'no') + ',nests=' +
            ('none' if not sizes else ('multi' if max(sizes) > 1 else 'singletons')))


def n_avail(pat):
    """number of available alternatives of an availability pattern: an alternative is available when its condition is
    NON ZERO (the patterns of the part 'avval' hold other values than 0 / 1)."""
    return sum(1 for v in pat if v)


def differs(a, b, rel=REL, ab=ABS):
    """boolean mask (groups, J): entries that differ (NaN differs from everything, -inf == -inf)."""
    import numpy as np
    with np.errstate(invalid='ignore'):
        same = (a == b) | (np.abs(a - b) <= ab + rel * np.maximum(np.abs(a), np.abs(b)))
    return ~same


def compare(rec, clause, name_a, name_b, spec_a, spec_b, table, va, vb, info, rel=REL, collect_case=None, eff_pats=None,
            live_case=None):
    """engine-vs-engine comparison of two evaluated model functions on the same table.
    eff_pats (part 'live'): the availability patterns in force after the in-place updates of the dict of availability conditions
    (one per pattern of the table); rows on which no alternative is available any more are counted and left out.
    live_case: the replay descriptor of a history on live argument objects (replaces the pair of specifications)."""
    import numpy as np
    if va is None or vb is None:
        return      # the evaluation raised: already reported by the Evaluator
    m = differs(va, vb, rel)
    rows_bad = m.any(axis=1)
    per_pat = {}
    for g, (ui, pi, s) in enumerate(table.groups):
        per_pat.setdefault(pi, []).append(g)
    pats = table.pats if eff_pats is None else eff_pats
    if eff_pats is not None:
        for pi, gs in list(per_pat.items()):
            if n_avail(pats[pi]) == 0:
                rows_bad[gs] = False
                rec.count('rows_left_out_no_alternative_available_after_the_update', len(gs))
                del per_pat[pi]
    h = hashlib.sha1(va.tobytes() + vb.tobytes()).hexdigest()[:16]
    rec.observe((clause, name_a, name_b, h))
    for pi, gs in per_pat.items():
        pat = pats[pi]
        nt = n_avail(pat) >= 2
        key = json.dumps([clause, name_a, name_b, info, pat], sort_keys=True, default=list) if nt else None
        ok = not any(rows_bad[g] for g in gs)
        rec.case(key, None, outcome=(clause, name_a, n_avail(pat), ok))
        rec.evals += len(gs) - 1
    rec.count('value_vectors_compared', len(table.groups))
    if not rec.samples and len(table.groups) > 2:
        g = min(2, len(table.groups) - 1)
        rec.sample(dict(clause=clause, a=name_a, b=name_b, structure=info, group=table.describe_group(g),
                        value_a=[float(v) for v in va[g]], value_b=[float(v) for v in vb[g]]))
    for g in np.nonzero(rows_bad)[0][:1]:
        grp = table.describe_group(int(g))
        key = f'{ID}|{clause}|{name_a}~{name_b}|{info["shape"].split(",")[0]}'
        if info.get('availability') in AVFORM_TAG:
            key += '|availabilities-as-' + AVFORM_TAG[info['availability']]
        if info.get('utilities') or info.get('availability_values'):
            key += '|' + (info.get('utilities') or info['availability_values'])
        if info.get('history'):
            key += '|' + info['history']
        case = dict(part='pair', clause=clause, a=spec_a, b=spec_b, names=[name_a, name_b], group=grp, info=info)
        if live_case is not None:
            case = dict(live_case, clause=clause, names=[name_a, name_b], group=grp)
        rec.violation(key, f'{clause}: {name_a} = {va[g].tolist()} but {name_b} = {vb[g].tolist()} at u={grp["u"]} '
                           f'avail={grp["avail"]} (alts {table.alts}, {info})', case,
                      expected=vb[g].tolist(), observed=va[g].tolist())


def nested_spec(alts, alone, nests, mus, model, mu=None, **forms):
    s = dict(kind='nested', alts=list(alts), alone=list(alone), nests=[list(n) for n in nests], mus=list(mus), model=model)
    if mu is not None:
        s['mu'] = mu
    if 'mu_form' in forms:
        forms['mu'] = forms.pop('mu_form')
    if forms:
        s['forms'] = forms
    return s


def cnl_spec(alts, alone, nests, mus, model, mu=None, **forms):
    s = dict(kind='cnl', alts=list(alts), alone=list(alone), nests=[dict(n) for n in nests], mus=list(mus), model=model)
    if mu is not None:
        s['mu'] = mu
    if 'mu_form' in forms:
        forms['mu'] = forms.pop('mu_form')
    if forms:
        s['forms'] = forms
    return s


# --------------------------------------------------------------------------- entry points and moved parameters
# every public name of biogeme.models of the nested / cross-nested family: name -> (family, role, takes the scale mu)
ENTRIES = {
    'nested': ('nested', 'model', False), 'lognested': ('nested', 'model', False),
    'nested_mev_mu': ('nested', 'model', True), 'lognested_mev_mu': ('nested', 'model', True),
    'nestedMevMu': ('nested', 'model', True), 'lognestedMevMu': ('nested', 'model', True),
    'get_mev_for_nested': ('nested', 'terms', False), 'getMevForNested': ('nested', 'terms', False),
    'get_mev_for_nested_mu': ('nested', 'terms', True), 'getMevForNestedMu': ('nested', 'terms', True),
    'get_mev_generating_for_nested': ('nested', 'generating', False), 'getMevGeneratingForNested': ('nested', 'generating', False),
    'cnl': ('cnl', 'model', False), 'logcnl': ('cnl', 'model', False),
    'cnl_avail': ('cnl', 'model', False), 'logcnl_avail': ('cnl', 'model', False),
    'cnlmu': ('cnl', 'model', True), 'logcnlmu': ('cnl', 'model', True),
    'get_mev_for_cross_nested': ('cnl', 'terms', False), 'getMevForCrossNested': ('cnl', 'terms', False),
    'get_mev_for_cross_nested_mu': ('cnl', 'terms', True), 'getMevForCrossNestedMu': ('cnl', 'terms', True),
}
INIT_MODES = ['zero', 'one', 'comp']      # initial value of a moved degree of membership: 0 / 1 / 1 - alpha

# ways of writing the availability conditions of ONE availability pattern without data columns (or with some): the statement
# quantifies over all availabilities, and a dictionary of plain numbers / Numeric objects / expressions is as valid as
# a dictionary of Variables.  The pattern is part of the expression: such models are evaluated on one-pattern tables.
NUMBER_AVFORMS = ['const', 'cfloat', 'cbool']            # every condition a Python int / float / bool
OTHER_AVFORMS = ['numeric', 'mixed', 'mixed2', 'expr']   # Numeric objects / numbers and Variables / products of expressions
AVFORMS = NUMBER_AVFORMS + OTHER_AVFORMS
AVFORM_TAG = {'const': 'python-numbers', 'cfloat': 'python-numbers', 'cbool': 'python-numbers', 'numeric': 'Numeric-objects',
              'mixed': 'numbers-and-variables', 'mixed2': 'numbers-and-variables', 'expr': 'expressions'}


# forms that keep the VALUE of a condition (cbool does not: True is one)
VAL_AVFORMS = ['cfloat', 'numeric', 'mixed', 'expr', 'const', 'mixed2']


def avforms_for(k, every):
    """availability forms of one (structure, assignment, pattern): all of them, or one all-number form and one other form,
    both rotating with k (over the patterns of a structure every form is reached)."""
    return list(AVFORMS) if every else [NUMBER_AVFORMS[k % 3], OTHER_AVFORMS[k % 4]]


def _int_if_whole(v):
    """a Python int for a whole number (0 / 1 / a count), the float itself otherwise (availability values of AV_VALUES)."""
    return int(v) if float(v) == int(v) else float(v)


def build_av6(alts, form, pat):
    """B.build_av plus the forms of AVFORMS (reversed order as well).  `pat` is the availability pattern the numbers stand
    for; Variables read the columns AV_<alt> of the table (which hold the same pattern)."""
    if form in ('var', 'none'):
        return B.build_av(alts, form, pat)
    from biogeme.expressions import Variable, Numeric
    av = {}
    for k in reversed(range(len(alts))):
        a = alts[k]
        if form == 'const':
            av[a] = _int_if_whole(pat[k])
        elif form == 'cfloat':
            av[a] = float(pat[k])
        elif form == 'cbool':
            av[a] = bool(pat[k])
        elif form == 'numeric':
            av[a] = Numeric(pat[k])
        elif form in ('mixed', 'mixed2'):
            number = (k % 2 == 0) == (form == 'mixed')
            av[a] = (_int_if_whole(pat[k]) if k % 4 < 2 else float(pat[k])) if number else Variable(f'AV_{a}')
        elif form == 'expr':
            # availability of a scenario: the column times a condition on another column (true on every row: 7 != 0)
            av[a] = Variable(f'AV_{a}') * (Variable('aa_unused') != Numeric(0))
        else:
            raise ValueError(form)
    return av


# utilities of alternatives that are NOT available: the statement quantifies over all utilities x availabilities, and no formula
# of the family contains the utility of an unavailable alternative.  In real data the attributes of such an alternative
# carry a "not applicable" code (99999, -1, ...), so that its utility is an arbitrary - typically extreme - number.  Per
# alphabet (VERIF_SEED): two codes of opposite sign, far outside the range in which exp() is finite.  (99999 itself is not in
# the alphabet: it is the engine's documented missing-value code - a Variable holding it raises as soon as it is read.)
NA_CODES = [[-1000.0, 88888.0], [-99999.0, 800.0], [-750.0, 1.0e6], [-1.0e5, 1500.0], [-5000.0, 9999.0]]
UTAG = 'not-applicable-utility-codes-of-unavailable-alternatives'


# values of the availability conditions of AVAILABLE alternatives: in Biogeme an alternative is available when its condition is
# NON ZERO (the test of the logit expression, of mev / logmev and of the nest sums of the nested logit), so a condition that
# holds a count (number of vehicles 0, 1, 2, 3), a share or any other non-zero number is as valid as 0 / 1.  No formula of the
# nested family contains the VALUE of the condition.  Per alphabet (VERIF_SEED): three positive values other than one (a
# count, a larger number, a fraction) and one negative value (thorough tier).
AV_VALUES = [[2.0, 3.0, 0.5, -1.0], [3.0, 7.0, 0.25, -2.0], [2.0, 10.0, 0.5, -0.5], [4.0, 1.5, 0.125, -3.0], [2.0, 5.0, 0.75, -1.0]]
AVTAG = 'availability-conditions-with-non-zero-values-other-than-one'


def av_values(seed, tier):
    v = AV_VALUES[int(seed) % len(AV_VALUES)]
    return v[:3] if tier == 'quick' else v


def avval_pats(pats, vals):
    """every availability pattern of `pats` x every placement of the values (each single available alternative, the others
    keeping 1; all available alternatives together, values rotating) x every value (rotation of `vals`)."""
    out = []
    for pat in pats:
        av = [k for k in range(len(pat)) if pat[k]]
        placements = [[k] for k in av] + ([av] if len(av) > 1 else [])
        for pl in placements:
            for vi in range(len(vals)):
                p = [float(x) for x in pat]
                for n, k in enumerate(pl):
                    p[k] = vals[(vi + n) % len(vals)]
                out.append(p)
    return out


def tag_info(info, utag):
    """label of the special alphabet of the table (UTAG: utilities, AVTAG: availability values) in the case / finding keys."""
    if utag == AVTAG:
        return dict(info, availability_values=utag)
    if utag:
        return dict(info, utilities=utag)
    return info


def na_codes(seed):
    return NA_CODES[int(seed) % len(NA_CODES)]


def na_table(alts, us, pats, codes):
    """Table whose groups are: every availability pattern of `pats` with an unavailable alternative x every placement of
    the codes (each single unavailable alternative; all unavailable alternatives together, signs alternating) x every code
    (rotation of `codes`) x every utility vector of `us` for the other alternatives.  Only consistent (utility vector,
    pattern) pairs are groups: an AVAILABLE alternative never gets a code."""
    sel = [list(p) for p in pats if not all(p)]
    us_ext, groups = [], []
    for pi, pat in enumerate(sel):
        unav = [k for k in range(len(alts)) if not pat[k]]
        placements = [[k] for k in unav] + ([unav] if len(unav) > 1 else [])
        for pl in placements:
            for ci in range(len(codes)):
                for bu in us:
                    u = list(bu)
                    for n, k in enumerate(pl):
                        u[k] = codes[(ci + n) % len(codes)]
                    groups.append((len(us_ext), pi, 0.0))
                    us_ext.append(u)
    t = B.Table(alts, us_ext, sel)
    t.groups = groups
    t.n_base = len(groups)
    t.base_of = list(range(len(groups)))
    return t


def na_us(base_us, J):
    """utility vectors of the available alternatives in the tables of na_table: J = 2 all four, above every second one
    (J = 3: four, J = 4: eight -> every fourth: four)."""
    return base_us if J == 2 else base_us[1::2] if J == 3 else base_us[1::4]


def family_entries(family):
    """Every way of obtaining a model of the family from a public name: the model functions themselves and the
    term-level functions fed to the public mev / logmev.  label, entry, via, scaled, log."""
    out = []
    for name, (fam, role, scaled) in ENTRIES.items():
        if fam != family:
            continue
        if role == 'model':
            out.append(dict(label=name, entry=name, via=None, scaled=scaled, log=name.startswith('log')))
        elif role == 'terms':
            for via in ('mev', 'logmev'):
                out.append(dict(label=f'{via}({name})', entry=name, via=via, scaled=scaled, log=(via == 'logmev')))
    return out


def unlisted_entry_points():
    """public callables of biogeme.models defined in the nested / cross-nested modules that have no role in ENTRIES."""
    from biogeme import models
    out = []
    for name, obj in sorted(vars(models).items()):
        if name.startswith('_') or not callable(obj) or isinstance(obj, type):
            continue
        if getattr(obj, '__module__', '') in ('biogeme.models.nested', 'biogeme.models.cnl') and name not in ENTRIES:
            out.append(name)
    return out


def moved_init(kind, value, mode):
    """initial value of a free parameter that is evaluated at `value` (always different from `value`)."""
    if kind == 'alpha':
        init = {'zero': 0.0, 'one': 1.0, 'comp': round(1.0 - value, 12)}[mode]
        if init == value:
            init = 0.5
        return init
    # nest parameter / scale: start at one (the logit corner) or, in mode 'comp', half a unit above the value
    if mode == 'comp' or value == 1.0:
        return value + 0.5
    return 1.0


def param6(form, name, value, kind, mode, moved):
    """B._param plus the form 'movedbeta': a free Beta whose initial value is not the value it is evaluated at;
    the evaluation value is registered in `moved` (passed with betas= to the engine)."""
    if form != 'movedbeta':
        return B._param(form, name, value)
    from biogeme.expressions import Beta
    moved[name] = float(value)
    lo, hi = (0, 1) if kind == 'alpha' else (None, None)
    return Beta(name, moved_init(kind, float(value), mode), lo, hi, 0)


def build_nests6(kind, alts, nests, mus, f, moved):
    """nests of a nested / cross-nested specification (reverse listing order, like the builders of C05); supports moved
    parameters and explicit zero memberships.  JSON round trips turn the keys of the alpha dictionaries into strings."""
    from biogeme.nests import (OneNestForNestedLogit, NestsForNestedLogit, OneNestForCrossNestedLogit,
                               NestsForCrossNestedLogit)
    by_str = {str(a): a for a in alts}
    mode = f.get('init', 'zero')
    items = []
    for k in reversed(range(len(nests))):
        p = param6(f['p'], f'mu_n{k}', mus[k], 'p', mode, moved)
        if kind == 'nested':
            items.append((p, list(reversed(nests[k]))))
        else:
            al = {}
            for a in reversed(list(nests[k])):
                al[by_str[str(a)]] = param6(f['alpha'], f'alpha_{a}_n{k}', nests[k][a], 'alpha', mode, moved)
            items.append((p, al))
    if f['syntax'] == 'tuple':
        return tuple(items)
    if kind == 'nested':
        objs = tuple(OneNestForNestedLogit(nest_param=p, list_of_alternatives=m, name=f'n{i}') for i, (p, m) in enumerate(items))
        return NestsForNestedLogit(choice_set=list(alts), tuple_of_nests=objs)
    objs = tuple(OneNestForCrossNestedLogit(nest_param=p, dict_of_alpha=al, name=f'n{i}') for i, (p, al) in enumerate(items))
    return NestsForCrossNestedLogit(choice_set=list(alts), tuple_of_nests=objs)


def call_entry(entry, via, V, av, nests, choice, mu):
    """the model expression obtained through the public name `entry` (term-level functions: through mev / logmev)."""
    from biogeme import models
    fam, role, scaled = ENTRIES[entry]
    fn = getattr(models, entry)
    with warnings.catch_warnings():
        warnings.simplefilter('ignore', DeprecationWarning)
        if role == 'model':
            return fn(V, av, nests, choice, mu) if scaled else fn(V, av, nests, choice)
        if role == 'terms':
            log_gi = fn(V, av, nests, mu) if scaled else fn(V, av, nests)
            return getattr(models, via)(V, log_gi, av, choice)
    raise ValueError(entry)


def needs_entry_eval(spec):
    f = spec.get('forms', {})
    return ('entry' in spec or 'init' in f or 'movedbeta' in (f.get('p'), f.get('alpha'), f.get('mu'))
            or f.get('av', 'var') in AVFORMS)


def eval_entry(spec, table):
    """Like B.eval_spec for utilities / choice given as data columns, plus: spec['entry'] / spec['via'] name the public
    function that is really called, parameters of form 'movedbeta' are evaluated away from their initial values."""
    import numpy as np
    from biogeme.expressions import Variable
    alts = table.alts
    J = len(alts)
    f = dict(B.default_forms(), **spec.get('forms', {}))
    if f['u'] != 'var' or f['ch'] != 'var':
        raise ValueError('eval_entry: utilities and choice are data columns')
    if f['av'] in AVFORMS and len(table.pats) != 1:
        raise ValueError('eval_entry: availabilities written as numbers need a table with one availability pattern')
    db = table.database()
    V = B.build_util(alts, 'var', table.us[0])
    av = build_av6(alts, f['av'], table.pats[0])
    if spec['kind'] == 'logit':
        from biogeme import models
        expr = getattr(models, spec['model'])(V, av, Variable('CH'))
        return np.asarray(expr.get_value_c(database=db, prepare_ids=True), dtype=float).reshape(-1, J)
    moved = {}
    nests = build_nests6(spec['kind'], alts, spec['nests'], spec['mus'], f, moved)
    mu = None
    if spec.get('mu') is not None:
        mu = param6(f['mu'], 'mu_scale', spec['mu'], 'mu', f.get('init', 'zero'), moved)
    expr = call_entry(spec.get('entry', spec['model']), spec.get('via'), V, av, nests, Variable('CH'), mu)
    vals = expr.get_value_c(database=db, betas=(moved or None), prepare_ids=True)
    return np.asarray(vals, dtype=float).reshape(-1, J)


def eval_any(spec, table):
    return eval_entry(spec, table) if needs_entry_eval(spec) else B.eval_spec(spec, table)


class Evaluator:
    """memoises engine evaluations of specs on one table within a structure."""

    def __init__(self, table, rec):
        self.table, self.rec, self.memo = table, rec, {}

    def __call__(self, spec):
        k = json.dumps(spec, sort_keys=True, default=list)
        if k not in self.memo:
            try:
                self.memo[k] = eval_any(spec, self.table)
            except Exception as e:  # a valid specification must evaluate
                if isinstance(e, RuntimeError):
                    self.rec.retire = True
                self.memo[k] = None
                f = spec.get('forms', {})
                grp = self.table.describe_group(0)
                self.rec.violation(f'{ID}|model-raises-{type(e).__name__}|{spec["model"]}[{f.get("syntax", "obj")}]|'
                                   f'{spec["kind"]}', f'{spec["model"]} raised {type(e).__name__}: {str(e)[:300]} for {spec}',
                                   dict(part='raise', spec=spec, group=grp), observed=repr(e)[:300])
            self.rec.count('engine_calls')
        return self.memo[k]


# --------------------------------------------------------------------------- (a)-(d) for nested structures
def check_nested_structure(alph, alts, alone, nests, mus, table, rec, tier, si=0, moved=None, avf=None, light=False, utag=None,
                           nested_only=False):
    """moved = None: the forms rotate with the structure (as before).  moved = initial-value mode ('zero'|'one'|'comp'):
    every nest parameter, scale and degree of membership is a free parameter evaluated away from its initial value, the
    whole memberships are written as a full matrix with explicit zeros; same clauses, plus cnlmu(mu=1) == cnl.
    avf = one of AVFORMS: the availability conditions of every model of the clauses (logit included) are written in that
    form (one-pattern table).  light: without the scaled versions mu != 1 of clauses (b) and (d).
    utag: label of a special utility / availability-value alphabet of the table (UTAG, AVTAG), part of the case and finding keys.
    nested_only: only the pairs that stay inside the nested / logit family (availability conditions with other non-zero values
    than one: the cross-nested functions use the condition as a weight, clause (b) is outside their domain)."""
    ev = Evaluator(table, rec)
    info = dict(shape=shape(alone, nests), alone=list(alone), nests=[list(n) for n in nests], mus=list(mus))
    info = tag_info(info, utag)
    whole = [{a: 1.0 for a in n} for n in nests]
    muform = B.MUFORMS[si % 3]          # float / fixbeta / numeric
    pf = B.PFORMS[si % 4]               # nest parameters as Numeric / fixed Beta / free Beta / float (both syntaxes)
    af = B.ALPHAFORMS[si % 3]
    xf, xm = {}, {}                     # extra forms of every specification / of the scaled ones
    if moved is not None:
        inside = [a for a in alts if a not in alone]
        whole = [{a: (1.0 if a in n else 0.0) for a in inside} for n in nests]
        muform = pf = af = 'movedbeta'
        xf = dict(init=moved)
        xm = dict(mu_form='movedbeta')
        info = dict(info, parameters='moved-from-initial-values:' + moved)
    if avf is not None:
        xf = dict(xf, av=avf)
        info = dict(info, availability=avf)
    scales = [] if light else alph['scale'][1:]
    for log in (False, True):
        pre = 'log' if log else ''
        N = nested_spec(alts, alone, nests, mus, pre + 'nested', p=pf, **xf)
        vN = ev(N)
        # (a) all parameters one -> logit
        if all(m == 1.0 for m in mus):
            L = dict(kind='logit', alts=list(alts), model=pre + 'logit')
            if avf is not None:
                L['forms'] = dict(av=avf)
            compare(rec, 'nested-with-unit-parameters-differs-from-logit', pre + 'nested', pre + 'logit', N, L, table, vN, ev(L), info)
        # (b) whole memberships -> nested
        if nests and not nested_only:
            C = cnl_spec(alts, alone, whole, mus, pre + 'cnl', p=pf, alpha=af, **xf)
            compare(rec, 'cnl-with-whole-memberships-differs-from-nested', pre + 'cnl', pre + 'nested', C, N, table, ev(C), vN, info)
        # (c) scale one
        N1 = nested_spec(alts, alone, nests, mus, pre + 'nested_mev_mu', mu=1.0, p=pf, mu_form=muform, **xf)
        compare(rec, 'scale-one-differs-from-unscaled', pre + 'nested_mev_mu(mu=1)', pre + 'nested', N1, N, table, ev(N1), vN, info)
        if nests and moved is not None and not nested_only:
            C1 = cnl_spec(alts, alone, whole, mus, pre + 'cnlmu', mu=1.0, p=pf, alpha=af, mu_form=muform, **xf)
            compare(rec, 'scale-one-differs-from-unscaled', pre + 'cnlmu(mu=1)', pre + 'cnl', C1, C, table, ev(C1), ev(C), info)
            compare(rec, 'cnl-with-whole-memberships-differs-from-nested', pre + 'cnlmu(mu=1)', pre + 'nested', C1, N, table,
                    ev(C1), vN, info)
        # (d) tuple syntax
        Nt = nested_spec(alts, alone, nests, mus, pre + 'nested', p=pf, syntax='tuple', **xf)
        compare(rec, 'tuple-syntax-differs-from-nest-objects', pre + 'nested[tuple]', pre + 'nested[objects]', Nt, N, table, ev(Nt), vN,
                info, rel=1e-13)
        if nests and not nested_only:
            Ct = cnl_spec(alts, alone, whole, mus, pre + 'cnl', p=pf, alpha=af, syntax='tuple', **xf)
            compare(rec, 'tuple-syntax-differs-from-nest-objects', pre + 'cnl[tuple]', pre + 'cnl[objects]', Ct, C, table, ev(Ct), ev(C),
                    info, rel=1e-13)
        # scaled versions: (b) and (d) with mu != 1
        for mu in scales:
            Nm = nested_spec(alts, alone, nests, mus, pre + 'nested_mev_mu', mu=mu, p=pf, **xm, **xf)
            if nests and not nested_only:
                Cm = cnl_spec(alts, alone, whole, mus, pre + 'cnlmu', mu=mu, p=pf, alpha=af, **xm, **xf)
                compare(rec, 'cnl-with-whole-memberships-differs-from-nested', pre + 'cnlmu', pre + 'nested_mev_mu', Cm, Nm, table,
                        ev(Cm), ev(Nm), dict(info, mu=mu))
            if not log:
                Nmt = nested_spec(alts, alone, nests, mus, 'nested_mev_mu', mu=mu, p=pf, syntax='tuple', **xm, **xf)
                compare(rec, 'tuple-syntax-differs-from-nest-objects', 'nested_mev_mu[tuple]', 'nested_mev_mu[objects]', Nmt, Nm,
                        table, ev(Nmt), ev(Nm), dict(info, mu=mu), rel=1e-13)
                if nests and not nested_only:
                    Cmt = cnl_spec(alts, alone, whole, mus, 'cnlmu', mu=mu, p=pf, alpha=af, syntax='tuple', **xm, **xf)
                    compare(rec, 'tuple-syntax-differs-from-nest-objects', 'cnlmu[tuple]', 'cnlmu[objects]', Cmt, Cm, table,
                            ev(Cmt), ev(Cm), dict(info, mu=mu), rel=1e-13)


def check_cnl_structure(alph, alts, alone, nests, mus, table, rec, tier, si=0, moved=None, avf=None, utag=None):
    """(c) and (d) for genuinely cross-nested structures (moved, avf: see check_nested_structure)."""
    ev = Evaluator(table, rec)
    cross = any(0.0 < a < 1.0 for n in nests for a in n.values())
    info = dict(shape='alone=' + ('yes' if alone else 'no') + ',cross=' + ('yes' if cross else 'no'), alone=list(alone),
                nests=[dict(n) for n in nests], mus=list(mus))
    if utag:
        info['utilities'] = utag
    muform = B.MUFORMS[si % 3]
    pf = B.PFORMS[si % 4]
    af = B.ALPHAFORMS[si % 3]
    xf, xm = {}, {}
    if moved is not None:
        muform = pf = af = 'movedbeta'
        xf = dict(init=moved)
        xm = dict(mu_form='movedbeta')
        info = dict(info, parameters='moved-from-initial-values:' + moved)
    if avf is not None:
        xf = dict(xf, av=avf)
        info = dict(info, availability=avf)
    for log in (False, True):
        pre = 'log' if log else ''
        C = cnl_spec(alts, alone, nests, mus, pre + 'cnl', p=pf, alpha=af, **xf)
        C1 = cnl_spec(alts, alone, nests, mus, pre + 'cnlmu', mu=1.0, p=pf, alpha=af, mu_form=muform, **xf)
        compare(rec, 'scale-one-differs-from-unscaled', pre + 'cnlmu(mu=1)', pre + 'cnl', C1, C, table, ev(C1), ev(C), info)
        Ct = cnl_spec(alts, alone, nests, mus, pre + 'cnl', p=pf, alpha=af, syntax='tuple', **xf)
        compare(rec, 'tuple-syntax-differs-from-nest-objects', pre + 'cnl[tuple]', pre + 'cnl[objects]', Ct, C, table, ev(Ct), ev(C),
                info, rel=1e-13)
    mu = alph['scale'][1]
    Cm = cnl_spec(alts, alone, nests, mus, 'cnlmu', mu=mu, p=pf, alpha=af, **xm, **xf)
    Cmt = cnl_spec(alts, alone, nests, mus, 'cnlmu', mu=mu, p=pf, alpha=af, syntax='tuple', **xm, **xf)
    compare(rec, 'tuple-syntax-differs-from-nest-objects', 'cnlmu[tuple]', 'cnlmu[objects]', Cmt, Cm, table, ev(Cmt), ev(Cm),
            dict(info, mu=mu), rel=1e-13)


# --------------------------------------------------------------------------- every public entry point
def check_entry_points(alph, alts, alone, nests, mus, table, rec, avf='var', si=0, utag=None, nested_only=False):
    """Clauses (a)-(d) for every public name of the family (ENTRIES), each compared with the canonical unscaled /
    scaled nested logit (or logit) built by the snake_case functions with plain float parameters."""
    ev = Evaluator(table, rec)
    info = dict(shape=shape(alone, nests), alone=list(alone), nests=[list(n) for n in nests], mus=list(mus), availability=avf)
    info = tag_info(info, utag)
    whole = [{a: 1.0 for a in n} for n in nests]
    unit = all(m == 1.0 for m in mus)
    scale = alph['scale'][1]
    pf = B.PFORMS[si % 4]
    af = B.ALPHAFORMS[si % 3]
    muform = B.MUFORMS[si % 4]
    canon = {}
    for log in (False, True):
        pre = 'log' if log else ''
        canon[log] = dict(
            logit=(pre + 'logit', dict(kind='logit', alts=list(alts), model=pre + 'logit', forms=dict(av=avf))),
            nested=(pre + 'nested', nested_spec(alts, alone, nests, mus, pre + 'nested', av=avf)),
            nested_mu=(pre + 'nested_mev_mu', nested_spec(alts, alone, nests, mus, pre + 'nested_mev_mu', mu=scale, av=avf)),
            cnl=(pre + 'cnl', cnl_spec(alts, alone, whole, mus, pre + 'cnl', av=avf)),
            cnl_mu=(pre + 'cnlmu', cnl_spec(alts, alone, whole, mus, pre + 'cnlmu', mu=scale, av=avf)))

    def spec_of(fam, e, mu, syntax):
        mk = nested_spec if fam == 'nested' else cnl_spec
        st = nests if fam == 'nested' else whole
        forms = dict(p=pf, av=avf, syntax=syntax)
        if fam == 'cnl':
            forms['alpha'] = af
        if mu == 1.0:
            forms['mu_form'] = muform
        s = mk(alts, alone, st, mus, e['label'], mu=mu, **forms)
        s['entry'] = e['entry']
        if e['via']:
            s['via'] = e['via']
        return s

    def cmp(clause, na, nb, sa, sb, extra=None, rel=REL):
        compare(rec, clause, na, nb, sa, sb, table, ev(sa), ev(sb), dict(info, **(extra or {})), rel=rel)

    for fam in ('nested', 'cnl'):
        if fam == 'cnl' and (not nests or nested_only):
            continue
        for e in family_entries(fam):
            c = canon[e['log']]
            for mu in ([1.0, scale] if e['scaled'] else [None]):
                name = e['label'] + ('' if mu is None else '(mu=1)' if mu == 1.0 else '')
                So, St = spec_of(fam, e, mu, 'obj'), spec_of(fam, e, mu, 'tuple')
                xi = None if mu in (None, 1.0) else dict(mu=mu)
                cmp('tuple-syntax-differs-from-nest-objects', name + '[tuple]', name + '[objects]', St, So, xi, rel=1e-13)
                if mu in (None, 1.0):
                    if unit and fam == 'nested':
                        cmp('nested-with-unit-parameters-differs-from-logit', name, c['logit'][0], So, c['logit'][1])
                    if fam == 'cnl':
                        cmp('cnl-with-whole-memberships-differs-from-nested', name, c['nested'][0], So, c['nested'][1])
                    if mu == 1.0:
                        unscaled = c['nested'] if fam == 'nested' else c['cnl']
                        cmp('scale-one-differs-from-unscaled', name, unscaled[0], So, unscaled[1])
                elif fam == 'cnl':
                    cmp('cnl-with-whole-memberships-differs-from-nested', name, c['nested_mu'][0], So, c['nested_mu'][1], xi)
                elif nests and not nested_only:
                    cmp('cnl-with-whole-memberships-differs-from-nested', c['cnl_mu'][0], name, c['cnl_mu'][1], So, xi)
    rec.count('entry_points_exercised', sum(1 for v in ENTRIES.values() if v[1] != 'generating' and
                                            (v[0] == 'nested' or (nests and not nested_only))))


# --------------------------------------------------------------------------- histories on live argument objects
# The model functions receive the CALLER'S objects: the dict of utilities, the dict of availability conditions, the nests.
# A scenario analysis keeps these objects and updates them in place between two requests (V[j] = V[j] + ..., av[j] = 0, ...).
# The statement quantifies over all utilities and availabilities: every clause must hold for the content the dicts have WHEN
# the model function is called, whatever was requested earlier with the same objects.  One history = one set of argument
# objects (LiveArgs); [earlier calls: a primer] -> [in-place update(s)] -> [every model of the clauses, requested with the same
# objects and compared with the simpler model of the pair - built from the same objects and built from new objects of equal
# content].
LIVE_SHIFTS = [[0.625, -0.875, 1.375, -0.4375], [-0.75, 1.125, -1.5, 0.5625], [1.25, -0.375, 0.875, -1.125],
               [-1.375, 0.6875, 1.0625, -0.5], [0.8125, -1.25, 0.4375, 1.5]]
LIVE_TAG = 'argument-dicts-updated-in-place-between-calls'
LIVE_TAG_NONE = 'calls-repeated-with-the-same-argument-objects'
GEN_PRIMERS = ['all', 'gen', 'terms', 'model']       # earlier calls of the derivative clause (e)


def live_shifts(seed):
    return LIVE_SHIFTS[int(seed) % len(LIVE_SHIFTS)]


def live_updates(J, av_given, every=True):
    """the in-place updates of the argument dicts between two calls:
      ['none']     nothing is changed (the second request repeats the first one)
      ['V', k]     V[a_k] = V[a_k] + c_k            (the utility of one alternative is replaced)
      ['av1', k]   av[a_k] = 1                      (the alternative is made available in the scenario)
      ['av0', k]   av[a_k] = 0                      (the alternative is removed in the scenario)
      ['Vall']     every entry of V is replaced
      ['Vpop', k]  x = V.pop(a_k); V[a_k] = x + c_k (replaced through removal and insertion: the order of the dict changes)
      ['Vav', k]   V[a_k] and av[a_k] are both replaced
    every = False: without the last two families."""
    out = [['none']] + [['V', k] for k in range(J)]
    if av_given:
        out += [[op, k] for k in range(J) for op in ('av1', 'av0')]
    out.append(['Vall'])
    if every:
        out += [['Vpop', k] for k in range(J)]
        if av_given:
            out += [['Vav', k] for k in range(J)]
    return out


def live_apply(V, av, alts, u, shifts):
    """ONE in-place update of the caller's dicts (the dict objects stay the same, their content changes)."""
    from biogeme.expressions import Numeric
    op = u[0]
    if op == 'none':
        return
    if op == 'Vall':
        for k, a in enumerate(alts):
            V[a] = V[a] + Numeric(shifts[k % len(shifts)])
        return
    k = u[1]
    a = alts[k]
    c = Numeric(shifts[k % len(shifts)])
    if op == 'V':
        V[a] = V[a] + c
    elif op == 'Vpop':
        x = V.pop(a)
        V[a] = x + c
    elif op == 'av1':
        av[a] = 1
    elif op == 'av0':
        av[a] = 0
    elif op == 'Vav':
        V[a] = V[a] + c
        av[a] = 1
    else:
        raise ValueError(op)


def live_eff(pat, updates):
    """availability pattern in force after the updates (the data columns hold `pat`)."""
    p = list(pat)
    for u in updates:
        if u[0] in ('av1', 'Vav'):
            p[u[1]] = 1
        elif u[0] == 'av0':
            p[u[1]] = 0
    return p


def live_vshift(J, updates, shifts):
    """what the updates add to the utility of every alternative (reference side of clause (e))."""
    out = [0.0] * J
    for u in updates:
        if u[0] == 'Vall':
            for k in range(J):
                out[k] += shifts[k % len(shifts)]
        elif u[0] in ('V', 'Vpop', 'Vav'):
            out[u[1]] += shifts[u[1] % len(shifts)]
    return out


def live_tag(updates):
    """label of a history in the finding keys (which dict was updated is written in the description and in the case)"""
    return LIVE_TAG if any(u[0] != 'none' for u in updates) else LIVE_TAG_NONE


def live_ctx(alph, kind, alts, alone, nests, mus, k, seed, av='var', logs=(False, True), scaled=True, entries=False):
    """JSON-able description of one live context: structure, parameters, the forms of the parameter objects (rotating with
    k), which models are requested after the update (log versions only / also the probabilities; scaled versions; every
    public entry point)."""
    return dict(kind=kind, alts=list(alts), alone=list(alone), nests=[(dict(n) if kind == 'cnl' else list(n)) for n in nests],
                mus=list(mus), scale=alph['scale'][1], shifts=live_shifts(seed),
                forms=dict(av=av, p=B.PFORMS[k % 4], alpha=B.ALPHAFORMS[k % 3], mu=B.MUFORMS[k % 3]),
                logs=list(logs), scaled=bool(scaled), entries=bool(entries))


class LiveArgs:
    """ONE set of argument objects, as a script holds them: the dict of utilities, the dict of availability conditions
    (or None), the nests as objects and as legacy tuples (for a nested structure also the cross-nested nests with whole
    memberships), the scale parameters."""

    def __init__(self, ctx):
        from biogeme.expressions import Variable
        alts = ctx['alts']
        f = ctx['forms']
        self.ctx, self.alts = ctx, alts
        self.V = B.build_util(alts, 'var', None)
        self.av = B.build_av(alts, f['av'], None)
        self.choice = Variable('CH')
        base = dict(B.default_forms(), p=f['p'], alpha=f['alpha'])
        self.nn = self.cn = None
        if ctx['kind'] == 'nested':
            whole = [{a: 1.0 for a in n} for n in ctx['nests']]
            self.nn = {sx: build_nests6('nested', alts, ctx['nests'], ctx['mus'], dict(base, syntax=sx), {})
                       for sx in ('obj', 'tuple')}
            self.cn = {sx: build_nests6('cnl', alts, whole, ctx['mus'], dict(base, syntax=sx), {}) for sx in ('obj', 'tuple')}
        else:
            self.cn = {sx: build_nests6('cnl', alts, ctx['nests'], ctx['mus'], dict(base, syntax=sx), {})
                       for sx in ('obj', 'tuple')}
        self.mu = {'1': B._param(f['mu'], 'mu_scale', 1.0), 's': B._param(f['mu'], 'mu_scale', ctx['scale'])}

    def update(self, u):
        live_apply(self.V, self.av, self.alts, u, self.ctx['shifts'])

    def call(self, model, syntax='obj', mu=None, via=None, choice=None):
        """the expression returned by the public name `model` for the CURRENT content of the argument objects."""
        from biogeme import models
        ch = self.choice if choice is None else choice
        if model in ('logit', 'loglogit'):
            return getattr(models, model)(self.V, self.av, ch)
        fam, role, scaled = ENTRIES[model]
        nests = (self.nn if fam == 'nested' else self.cn)[syntax]
        if role == 'generating':
            with warnings.catch_warnings():
                warnings.simplefilter('ignore', DeprecationWarning)
                return getattr(models, model)(self.V, self.av, nests)
        return call_entry(model, via, self.V, self.av, nests, ch, None if mu is None else self.mu[mu])


def live_primers(kind):
    """the earlier calls: every public name of the family (both nest syntaxes) and the logit functions, each alone."""
    out = [['logit'], ['loglogit']]
    for name, (fam, role, scaled) in ENTRIES.items():
        if kind == 'cnl' and fam != 'cnl':
            continue
        out += [[name, sx] for sx in ('obj', 'tuple')]
    return out


def live_prime(A, primer):
    """makes the earlier calls of a primer with the live objects (the expressions are requested, as a script does to
    simulate or to estimate a first scenario; what is checked is requested after the update).  A scaled function is
    called with the scale one and with the other scale; a term-level function is turned into a model through mev and
    logmev; ['all']: every primer in turn, then the simulation loop (the probability of every alternative, constant
    choice) of the main model functions."""
    kind = A.ctx['kind']
    if primer[0] == 'all':
        for p in live_primers(kind):
            live_prime(A, p)
        for a in A.alts:
            for model in (['nested', 'lognested'] if kind == 'nested' else []) + ['cnl', 'logcnl']:
                A.call(model, 'obj', choice=a)
            for model in (['nested_mev_mu'] if kind == 'nested' else []) + ['cnlmu']:
                A.call(model, 'obj', mu='s', choice=a)
        return
    if primer[0] in ('logit', 'loglogit'):
        A.call(primer[0])
        return
    name, sx = primer
    fam, role, scaled = ENTRIES[name]
    for mu in (['1', 's'] if scaled else [None]):
        if role == 'terms':
            A.call(name, sx, mu, via='mev')
            A.call(name, sx, mu, via='logmev')
        else:
            A.call(name, sx, mu)


class FormulaEval:
    """Engine evaluations of one live context on one table, memoised by the PRINTED formula (str of the expression: it writes
    out every utility, availability condition, parameter and number of the expression tree): two expressions that print
    identically are the same formula and are evaluated once.  On a library whose model functions depend on the content of
    their arguments only, the expressions of all the histories that end in the same content print identically."""

    def __init__(self, table):
        self.table, self.J, self.memo, self.fresh = table, len(table.alts), {}, {}

    def __call__(self, expr, rec, label, lcase):
        import numpy as np
        k = str(expr)
        if k in self.memo:
            rec.count('live_formulas_printing_like_one_already_evaluated')
            return self.memo[k]
        try:
            vals = expr.get_value_c(database=self.table.database(), prepare_ids=True)
            vals = np.asarray(vals, dtype=float).reshape(-1, self.J)
        except Exception as e:  # a valid specification must evaluate
            if isinstance(e, RuntimeError):
                rec.retire = True
            vals = None
            rec.violation(f'{ID}|model-raises-{type(e).__name__}|{label}|{lcase["ctx"]["kind"]}|{live_tag(lcase["updates"])}',
                          f'{label} raised {type(e).__name__}: {str(e)[:300]} when evaluated after the history {lcase}',
                          dict(lcase, group=self.table.describe_group(0)), observed=repr(e)[:300])
        rec.count('engine_calls')
        self.memo[k] = vals
        return vals


def live_check(ctx, A, primer, updates, fe, rec, chain=False):
    """every model of the clauses (a)-(d), requested with the live objects `A` in their current state."""
    table = fe.table
    alts, alone, nests, mus = ctx['alts'], ctx['alone'], ctx['nests'], ctx['mus']
    kind = ctx['kind']
    eff = [live_eff(p, updates) for p in table.pats]
    if kind == 'nested':
        sh = shape(alone, nests)
    else:
        cross = any(0.0 < a < 1.0 for n in nests for a in n.values())
        sh = 'alone=' + ('yes' if alone else 'no') + ',cross=' + ('yes' if cross else 'no')
    info = dict(shape=sh, alone=list(alone), nests=nests, mus=list(mus), history=live_tag(updates), primer=primer,
                updates=updates, forms=ctx['forms'])
    lcase = dict(part='live', ctx=ctx, primer=primer, updates=updates, chain=chain)
    state = json.dumps(updates)
    unit = all(m == 1.0 for m in mus)
    s = ctx['scale']

    def L(model, sx='obj', mu=None, via=None):
        label = (f'{via}({model})' if via else model) + f'[{sx}]'
        try:
            expr = A.call(model, sx, mu, via)
        except Exception as e:  # every call of a history is a valid call
            rec.violation(f'{ID}|model-raises-{type(e).__name__}|{label}|{kind}|{live_tag(updates)}',
                          f'{label} raised {type(e).__name__}: {str(e)[:300]} when called after the history {lcase}',
                          dict(lcase, group=table.describe_group(0)), observed=repr(e)[:300])
            return None
        return fe(expr, rec, label, lcase)

    def F(model, mu=None):
        """the simpler model of a pair, built from NEW argument objects that hold the same content."""
        k = (state, model, mu)
        if k not in fe.fresh:
            N = LiveArgs(ctx)
            for u in updates:
                N.update(u)
            fe.fresh[k] = fe(N.call(model, 'obj', mu), rec, model + '[new-objects]', lcase)
        return fe.fresh[k]

    def cmp(clause, na, nb, va, vb, extra=None, rel=REL):
        compare(rec, clause, na, nb, None, None, table, va, vb, dict(info, **(extra or {})), rel=rel, eff_pats=eff,
                live_case=lcase)

    A_, B_, C_, D_ = ('nested-with-unit-parameters-differs-from-logit', 'cnl-with-whole-memberships-differs-from-nested',
                      'scale-one-differs-from-unscaled', 'tuple-syntax-differs-from-nest-objects')
    same = '[same-argument-objects]'
    xs = dict(mu=s)
    for log in ctx['logs']:
        pre = 'log' if log else ''
        C = L(pre + 'cnl')
        C1 = L(pre + 'cnlmu', mu='1')
        Ct = L(pre + 'cnl', 'tuple')
        if kind == 'nested':
            N = L(pre + 'nested')
            Nf = F(pre + 'nested')
            if unit:
                cmp(A_, pre + 'nested', pre + 'logit', N, F(pre + 'logit'))
            cmp(B_, pre + 'cnl', pre + 'nested', C, Nf)
            cmp(B_, pre + 'cnl', pre + 'nested' + same, C, N)
            N1 = L(pre + 'nested_mev_mu', mu='1')
            cmp(C_, pre + 'nested_mev_mu(mu=1)', pre + 'nested', N1, Nf)
            cmp(C_, pre + 'nested_mev_mu(mu=1)', pre + 'nested' + same, N1, N)
            cmp(B_, pre + 'cnlmu(mu=1)', pre + 'nested', C1, Nf)
            cmp(D_, pre + 'nested[tuple]', pre + 'nested[objects]', L(pre + 'nested', 'tuple'), N, rel=1e-13)
        else:
            cmp(C_, pre + 'cnlmu(mu=1)', pre + 'cnl', C1, F(pre + 'cnl'))
        cmp(C_, pre + 'cnlmu(mu=1)', pre + 'cnl' + same, C1, C)
        cmp(D_, pre + 'cnl[tuple]', pre + 'cnl[objects]', Ct, C, rel=1e-13)
        if ctx['scaled']:
            Cm = L(pre + 'cnlmu', mu='s')
            cmp(D_, pre + 'cnlmu[tuple]', pre + 'cnlmu[objects]', L(pre + 'cnlmu', 'tuple', 's'), Cm, xs, rel=1e-13)
            if kind == 'nested':
                Nm = L(pre + 'nested_mev_mu', mu='s')
                cmp(B_, pre + 'cnlmu', pre + 'nested_mev_mu', Cm, F(pre + 'nested_mev_mu', 's'), xs)
                cmp(B_, pre + 'cnlmu', pre + 'nested_mev_mu' + same, Cm, Nm, xs)
                cmp(D_, pre + 'nested_mev_mu[tuple]', pre + 'nested_mev_mu[objects]', L(pre + 'nested_mev_mu', 'tuple', 's'), Nm, xs,
                    rel=1e-13)
    if ctx['entries']:
        # every public name of the family, requested with the live objects (the clauses of check_entry_points)
        for fam in (('nested', 'cnl') if kind == 'nested' else ('cnl',)):
            for e in family_entries(fam):
                if e['log'] not in ctx['logs']:
                    continue
                pre = 'log' if e['log'] else ''
                for mu in (['1', 's'] if e['scaled'] else [None]):
                    name = e['label'] + ('(mu=1)' if mu == '1' else '')
                    xi = xs if mu == 's' else None
                    Eo = L(e['entry'], 'obj', mu, e['via'])
                    cmp(D_, name + '[tuple]', name + '[objects]', L(e['entry'], 'tuple', mu, e['via']), Eo, xi, rel=1e-13)
                    if mu != 's':
                        if unit and fam == 'nested':
                            cmp(A_, name, pre + 'logit', Eo, F(pre + 'logit'))
                        if fam == 'cnl' and kind == 'nested':
                            cmp(B_, name, pre + 'nested', Eo, F(pre + 'nested'))
                        if mu == '1':
                            cmp(C_, name, pre + fam, Eo, F(pre + fam))
                    elif fam == 'cnl' and kind == 'nested':
                        cmp(B_, name, pre + 'nested_mev_mu', Eo, F(pre + 'nested_mev_mu', 's'), xi)
    rec.count('live_checks')


def run_live_history(ctx, primer, updates, fe, rec, chain=False):
    """ONE history: new argument objects; the earlier calls of the primer; the in-place updates; the clauses.  chain: the
    clauses are also requested (and checked) after every intermediate update - these requests are the earlier calls of the
    next update."""
    lcase = dict(part='live', ctx=ctx, primer=primer, updates=updates, chain=chain)
    try:
        A = LiveArgs(ctx)
        live_prime(A, primer)
    except Exception as e:  # every call of a history is a valid call
        rec.violation(f'{ID}|model-raises-{type(e).__name__}|earlier-call|{ctx["kind"]}',
                      f'the earlier calls {primer} raised {type(e).__name__}: {str(e)[:300]} ({ctx})',
                      dict(lcase, group=fe.table.describe_group(0)), observed=repr(e)[:300])
        rec.case(None, ('live-raised', type(e).__name__), outcome=('live', 'raised'))
        return
    for i, u in enumerate(updates):
        A.update(u)
        if chain and i + 1 < len(updates):
            live_check(ctx, A, primer, updates[:i + 1], fe, rec, chain)
    live_check(ctx, A, primer, updates, fe, rec, chain)
    rec.count('live_histories')


# --------------------------------------------------------------------------- (d) terms and (e) generating function
OFFSETS = [0.125, -0.25, 0.375, -0.0625]


GEN_ENTRIES = [
    # (generating function, terms, scale handed to the terms function: None = it takes none / form of mu = 1)
    ('get_mev_generating_for_nested', 'get_mev_for_nested', None),        # the default (first) combination
    ('getMevGeneratingForNested', 'getMevForNested', None),
    ('get_mev_generating_for_nested', 'get_mev_for_nested_mu', 'float'),
    ('getMevGeneratingForNested', 'getMevForNestedMu', 'fixbeta'),
    ('get_mev_generating_for_nested', 'getMevForNestedMu', 'movedbeta'),
    ('getMevGeneratingForNested', 'get_mev_for_nested_mu', 'numeric'),
]


def eval_generating(alts, alone, nests, mus, table, syntax, avform, uform='betavar', pform='float', entries=None, init='zero',
                    live=None):
    """Real library + engine.  Returns (G (groups,), dG/dV (groups, J) in alts order,
    terms ln G_i from get_mev_for_nested (groups, J), term values with the other nest syntax).
    entries = (name of the generating function, name of the terms function, form of the scale mu = 1 or None).
    live = dict(primer=, updates=, shifts=): a history on ONE set of argument objects (dict of utilities, dict of availability
    conditions, nests): the earlier calls of the primer are made, the dicts are updated in place, and only then the generating
    function and the terms are requested - with the same objects."""
    import numpy as np
    from biogeme import models
    from biogeme.expressions import Variable, Expression, Numeric
    gen_name, terms_name, terms_mu = entries or GEN_ENTRIES[0]
    moved = {}

    def the_nests():
        if pform == 'movedbeta':
            f = dict(B.default_forms(), p=pform, syntax=syntax, init=init)
            return build_nests6('nested', alts, nests, mus, f, moved)
        return B.build_nested_nests(alts, (alone, nests), mus, syntax, pform)

    J = len(alts)
    db = table.database()
    V = {}
    for k, a in enumerate(alts):
        beta = B._beta(f'bv_{a}', OFFSETS[k], 0)
        V[a] = beta + Variable(f'U_{a}') if uform == 'betavar' else beta
    if avform in AVFORMS and avform != 'const' and len(table.pats) != 1:
        raise ValueError('eval_generating: availabilities written as numbers need a table with one availability pattern')
    av = build_av6(alts, avform, table.pats[0])
    nst = the_nests()
    mu_obj = None if terms_mu is None else param6(terms_mu, 'mu_scale', 1.0, 'mu', init, moved)

    def the_terms(nn):
        if terms_mu is None:
            return getattr(models, terms_name)(V, av, nn)
        return getattr(models, terms_name)(V, av, nn, mu_obj)

    if live is not None:
        with warnings.catch_warnings():
            warnings.simplefilter('ignore', DeprecationWarning)
            for what in (GEN_PRIMERS[1:] if live['primer'] == 'all' else [live['primer']]):
                if what == 'gen':
                    getattr(models, gen_name)(V, av, nst)
                elif what == 'terms':
                    the_terms(nst)
                elif what == 'model':
                    models.lognested(V, av, nst, Variable('CH'))
                    for a in alts:
                        models.nested(V, av, nst, a)
                else:
                    raise ValueError(what)
        for u in live['updates']:
            live_apply(V, av, alts, u, live['shifts'])
    with warnings.catch_warnings():
        warnings.simplefilter('ignore', DeprecationWarning)
        G = getattr(models, gen_name)(V, av, nst)
    betas = None
    if uform == 'beta':
        betas = {f'bv_{a}': table.us[0][k] for k, a in enumerate(alts)}
    nst2 = nst if live is not None else the_nests()
    with warnings.catch_warnings():
        warnings.simplefilter('ignore', DeprecationWarning)
        terms = the_terms(nst2)
    if moved:
        betas = dict(betas or {}, **moved)
    out = G.get_value_and_derivatives(betas=betas, database=db, gradient=True, hessian=False, bhhh=False, aggregation=False,
                                      prepare_ids=True, named_results=True)
    n = len(table.groups)
    Gv = np.asarray(out.functions, dtype=float)[::J]
    grad = np.zeros((n, J))
    for g in range(n):
        d = out.gradients[g * J]
        for k, a in enumerate(alts):
            grad[g, k] = d[f'bv_{a}']
    T = np.zeros((n, J))
    for k, a in enumerate(alts):
        e = terms[a]
        if not isinstance(e, Expression):
            e = Numeric(e)
        T[:, k] = np.asarray(e.get_value_c(database=db, betas=betas, prepare_ids=True), dtype=float)[::J]
    return Gv, grad, T


def check_generating(alph, alts, alone, nests, mus, table, rec, syntax='obj', avform='var', uform='betavar', pform='float',
                     entries=None, init='zero', utag=None, live=None):
    """entries: one of GEN_ENTRIES (None = the snake_case functions); the names appear in the finding keys.
    live: a history on one set of argument objects (see eval_generating); the reference reads the utilities and the
    availability pattern in force after the in-place updates."""
    import numpy as np
    J = len(alts)
    gen_name, terms_name, terms_mu = entries or GEN_ENTRIES[0]
    terms_tag = terms_name + ('' if terms_mu is None else '(mu=1)')
    xcase = {} if entries is None else dict(entries=list(entries), init=init)
    utail = ''
    if utag:
        xcase = dict(xcase, utilities=utag)
        utail = '|' + utag
    vshift = [0.0] * J
    if live is not None:
        xcase = dict(xcase, live=live)
        utail += '|' + live_tag(live['updates'])
        vshift = live_vshift(J, live['updates'], live['shifts'])
    try:
        Gv, grad, T = eval_generating(alts, alone, nests, mus, table, syntax, avform, uform, pform, entries, init, live)
    except Exception as e:
        if isinstance(e, RuntimeError):
            rec.retire = True
        names = '' if entries is None else f'{gen_name}/{terms_tag}|'
        rec.violation(f'{ID}|generating-function-raises-{type(e).__name__}|{names}alone={"yes" if alone else "no"}|nests-as-{syntax}{utail}',
                      f'{gen_name} / {terms_tag} raised {type(e).__name__}: {str(e)[:300]} '
                      f'(alone={list(alone)} nests={[list(n) for n in nests]} mus={list(mus)})',
                      dict(part='gen', alts=list(alts), alone=list(alone), nests=[list(n) for n in nests], mus=list(mus),
                           group=table.describe_group(0), syntax=syntax, avform=avform, uform=uform, pform=pform, **xcase),
                      observed=repr(e)[:300])
        rec.case(None, ('gen-raised', type(e).__name__), outcome=('gen', 'raised'))
        return
    rec.count('engine_calls', 1 + J)
    rec.observe(('gen', hashlib.sha1(Gv.tobytes() + grad.tobytes() + T.tobytes()).hexdigest()[:16]))
    info = dict(shape=shape(alone, nests), alone=list(alone), nests=[list(n) for n in nests], mus=list(mus),
                syntax=syntax, avform=avform, uform=uform, pform=pform)
    if entries is not None:
        info = dict(info, entries=list(entries), init=init)
    info = tag_info(info, utag)
    if live is not None:
        info = dict(info, history=live_tag(live['updates']), primer=live['primer'], updates=live['updates'])
    ref_nests = list(zip(mus, nests))
    interesting = bool(alone) or any(m != 1.0 for m in mus)
    done = set()
    per_pat_ok = {}
    eff_pats = list(table.pats) if live is None else [live_eff(p, live['updates']) for p in table.pats]
    for g, (ui, pi, s) in enumerate(table.groups):
        pat = eff_pats[pi] if avform != 'none' else [1] * J
        if live is not None and n_avail(pat) == 0:
            rec.count('rows_left_out_no_alternative_available_after_the_update')
            continue
        if uform == 'betavar':
            V = {a: OFFSETS[k] + table.us[ui][k] + s + vshift[k] for k, a in enumerate(alts)}
        else:
            V = {a: table.us[0][k] for k, a in enumerate(alts)}
        avd = dict(zip(alts, pat))
        Gref, Giref = R.G_and_Gi(lambda y: R.G_nested(y, ref_nests, alone, 1.0), V, avd)
        grp = table.describe_group(g)
        avail_tag = 'availability=' + ('None' if avform == 'none' else 'given' if avform in ('var', 'const') else
                                       'given-as-' + AVFORM_TAG[avform])
        alone_tag = 'alone=' + ('yes' if alone else 'no')
        case = dict(part='gen', alts=list(alts), alone=list(alone), nests=[list(n) for n in nests], mus=list(mus), group=grp,
                    syntax=syntax, avform=avform, uform=uform, pform=pform, **xcase)
        ok = True
        # G value
        if all(avd[a] for a in alone):
            if not R.close(float(Gv[g]), Gref, REL, ABS):
                ok = False
                rec.violation(f'{ID}|generating-function-differs-from-closed-form|{gen_name}|{alone_tag}|{avail_tag}{utail}',
                              f'{gen_name} = {Gv[g]!r} but G(e^V) = {Gref!r} at V={V} avail={pat} '
                              f'(alone={list(alone)} nests={[list(n) for n in nests]} mus={list(mus)}, nests as {syntax})',
                              case, expected=Gref, observed=float(Gv[g]))
        else:
            rec.count('G_value_not_pinned_unavailable_alternative_outside_every_nest')
        # derivative vs published term vs reference
        for k, a in enumerate(alts):
            if not avd[a]:
                rec.count('derivative_of_unavailable_alternative_not_compared')
                continue
            d = float(grad[g, k])
            lg = math.log(d) - V[a] if d > 0 else float('nan')
            t = float(T[g, k])
            lref = math.log(Giref[a])
            if not R.close(t, lref, REL, 1e-11):
                ok = False
                rec.violation(f'{ID}|published-term-differs-from-closed-form-log-derivative|{terms_tag}|{alone_tag}|{avail_tag}{utail}',
                              f'{terms_tag}[{a}] = {t!r} but ln dG/dy = {lref!r} at V={V} avail={pat} ({info})',
                              dict(case, alt=a), expected=lref, observed=t)
            if not R.close(lg, t, REL, 1e-11):
                ok = False
                where = 'outside-every-nest' if a in alone else 'in-nest'
                names = '' if entries is None else f'{gen_name}/{terms_tag}|'
                rec.violation(f'{ID}|published-term-is-not-log-derivative-of-published-generating-function|{names}alternative-{where}|'
                              f'{avail_tag}{utail}',
                              f'ln(d {gen_name} / dV_{a}) - V_{a} = {lg!r} (engine gradient {d!r}) but '
                              f'{terms_tag}[{a}] = {t!r} (closed form {lref!r}) at V={V} avail={pat} '
                              f'(alone={list(alone)} nests={[list(n) for n in nests]} mus={list(mus)}, nests as {syntax})',
                              dict(case, alt=a), expected=t, observed=lg)
        per_pat_ok.setdefault(pi, []).append(ok)
        if not rec.samples and interesting and n_avail(pat) >= 2:
            rec.sample(dict(clause='generating function', structure=info, V={str(a): V[a] for a in alts}, availability=list(pat),
                            G_engine=float(Gv[g]), G_closed_form=Gref, dG_dV_engine=[float(x) for x in grad[g]],
                            published_terms=[float(x) for x in T[g]],
                            reference_ln_Gi={str(a): math.log(v) for a, v in Giref.items()}))
    for pi, oks in per_pat_ok.items():
        pat = eff_pats[pi]
        nt = interesting and n_avail(pat) >= 1
        key = json.dumps(['gen', info, pat], sort_keys=True, default=list) if nt else None
        rec.case(key, None, outcome=('gen', info['shape'], n_avail(pat), all(oks)))
        rec.evals += len(oks) - 1
    rec.count('derivative_rows_compared', len(table.groups))


# --------------------------------------------------------------------------- tasks
def avform_structures(tier, seed, J, n):
    """nest structures of the part 'avforms': all of them, except quick with J = 3: every third structure (rotating with
    the seed, so that the five seeds together reach all of them) and the structure with one nest holding everything."""
    if tier == 'quick' and J == 3:
        return [si for si in range(n) if (si + int(seed)) % 3 == 0 or si == 1]
    return list(range(n))


def avform_cnl_config(tier):
    """(J, number of nests, number of alpha splits, structures per task) of the part 'avforms_cnl'"""
    if tier == 'quick':
        return [(2, 2, 3, 12)]
    return [(2, 2, 3, 4), (2, 3, 1, 6), (3, 2, 1, 6)]


def avform_plan(tier, J, si, n_asg, n_pats):
    """Part 'avforms': the (assignment index, pattern index, availability form, light) of one nest structure.
    Assignment 0 is the all-ones one (clause (a)).  k = si + mi + pi rotates the forms."""
    out = []
    for pi in range(n_pats):
        for mi in range(n_asg):
            k = si + mi + pi
            two = avforms_for(k, False)
            if tier == 'quick':
                if J == 2:
                    out += [(mi, pi, avf, True) for avf in two]
                else:
                    # one assignment with an all-number form, the other one with another form, alternating with the pattern
                    out.append((mi, pi, two[(mi + pi) % 2], True))
            elif J == 2:
                out += [(mi, pi, avf, avf not in two) for avf in AVFORMS]
            elif J == 3:
                out += [(mi, pi, avf, avf != two[k % 2]) for avf in two]
                if mi == 0:
                    out += [(mi, pi, avf, True) for avf in AVFORMS if avf not in two]
            else:
                if mi == k % n_asg:
                    out.append((mi, pi, two[(k // 2) % 2], True))
    return out


def tasks(tier, seed):
    alph = B.alphabet(seed)
    quick = tier == 'quick'
    Jmax = 3 if quick else 4
    t = []
    for J in range(2, Jmax + 1):
        structs = R.nested_structures(alph['labels'][:J])
        per = {2: 3, 3: 2, 4: 1}[J]
        for ch in B._chunks(range(len(structs)), per):
            t.append(dict(part='gen', J=J, structs=ch, seed=seed, tier=tier))
        for ch in B._chunks(range(len(structs)), per):
            if J == 4 and len(structs[ch[0]][1]) >= 3:
                for first in alph['mus']:
                    t.append(dict(part='nested', J=J, structs=ch, first=first, seed=seed, tier=tier))
            else:
                t.append(dict(part='nested', J=J, structs=ch, seed=seed, tier=tier))
    for J, M, ns, pa, per, _sc in B.cnl_config(tier):
        n = len(R.cnl_structures(alph['labels'][:J], M, alph['splits'][:ns]))
        for ch in B._chunks(range(n), per):
            t.append(dict(part='cnl', J=J, M=M, ns=ns, pa=pa, structs=ch, seed=seed, tier=tier))
    # every public entry point / parameters moved away from their initial values
    for J in range(2, Jmax + 1):
        structs = R.nested_structures(alph['labels'][:J])
        per = {2: 3, 3: 2, 4: 2}[J] if quick else {2: 2, 3: 1, 4: 2}[J]
        for ch in B._chunks(range(len(structs)), per):
            t.append(dict(part='entry', J=J, structs=ch, seed=seed, tier=tier))
        with_nests = [i for i, st in enumerate(structs) if st[1]]
        for ch in B._chunks(with_nests, {2: 2, 3: 2, 4: 1}[J]):
            t.append(dict(part='moved', J=J, structs=ch, seed=seed, tier=tier))
        for ch in B._chunks(range(len(structs)), {2: 5, 3: 3, 4: 4}[J]):
            t.append(dict(part='gen_entries', J=J, structs=ch, seed=seed, tier=tier))
    for J, M, ns, pa, per, _sc in B.cnl_config(tier):
        n = len(R.cnl_structures(alph['labels'][:J], M, alph['splits'][:ns]))
        for ch in B._chunks(range(n), per * 2):
            t.append(dict(part='moved_cnl', J=J, M=M, ns=ns, pa=pa, structs=ch, seed=seed, tier=tier))
    # availability conditions written without data columns: Python numbers, Numeric objects, numbers and Variables, expressions
    for J in range(2, Jmax + 1):
        structs = R.nested_structures(alph['labels'][:J])
        npat = 2 ** J - 1
        sel = avform_structures(tier, seed, J, len(structs))
        for ch in B._chunks(sel, ({2: 2, 3: 1} if quick else {2: 1, 3: 1, 4: 3})[J]):
            t.append(dict(part='avforms', J=J, structs=ch, seed=seed, tier=tier))
        for ch in B._chunks(range(len(structs)), {2: 5, 3: 4, 4: 4}[J]):
            t.append(dict(part='avforms_gen', J=J, structs=ch, seed=seed, tier=tier))
        if J <= (2 if quick else 3):
            for si in range(len(structs)):
                if quick:
                    pchunks = [[(si + int(seed)) % npat]]            # one pattern per structure, rotating
                elif J == 2:
                    pchunks = [[pi] for pi in range(npat)]
                else:
                    pchunks = B._chunks([pi for pi in range(npat) if pi % 2 == si % 2], 2)
                for pch in pchunks:
                    t.append(dict(part='avforms_entry', J=J, structs=[si], pats=pch, seed=seed, tier=tier))
    for J, M, ns, per in avform_cnl_config(tier):
        n = len(R.cnl_structures(alph['labels'][:J], M, alph['splits'][:ns]))
        for ch in B._chunks(range(n), per):
            t.append(dict(part='avforms_cnl', J=J, M=M, ns=ns, structs=ch, seed=seed, tier=tier))
    # utilities of unavailable alternatives that carry "not applicable" codes (extreme values of both signs)
    for J in range(2, Jmax + 1):
        structs = R.nested_structures(alph['labels'][:J])
        n = len(structs)
        for ch in B._chunks(range(n), ({2: 5, 3: 5} if quick else {2: 3, 3: 2, 4: 4})[J]):
            t.append(dict(part='na', J=J, structs=ch, seed=seed, tier=tier))
        for ch in B._chunks(range(n), ({2: 5, 3: 8} if quick else {2: 5, 3: 4, 4: 7})[J]):
            t.append(dict(part='na_gen', J=J, structs=ch, seed=seed, tier=tier))
        for ch in B._chunks(na_entry_structures(tier, seed, J, n), ({2: 3, 3: 2} if quick else {2: 2, 3: 1, 4: 2})[J]):
            t.append(dict(part='na_entry', J=J, structs=ch, seed=seed, tier=tier))
        if not quick and J <= 3:
            for ch in B._chunks(range(n), {2: 3, 3: 1}[J]):
                t.append(dict(part='na_avforms', J=J, structs=ch, seed=seed, tier=tier))
    for J, M, ns, per in avform_cnl_config(tier):
        n = len(R.cnl_structures(alph['labels'][:J], M, alph['splits'][:ns]))
        for ch in B._chunks(range(n), per * 3):
            t.append(dict(part='na_cnl', J=J, M=M, ns=ns, structs=ch, seed=seed, tier=tier))
    # availability conditions of available alternatives holding other non-zero values than one (counts, shares, ...)
    for J in range(2, Jmax + 1):
        n = len(R.nested_structures(alph['labels'][:J]))
        for ch in B._chunks(range(n), ({2: 5, 3: 3} if quick else {2: 3, 3: 2, 4: 2})[J]):
            t.append(dict(part='avval', J=J, structs=ch, seed=seed, tier=tier))
        for ch in B._chunks(na_entry_structures(tier, seed, J, n), ({2: 3, 3: 2} if quick else {2: 2, 3: 1, 4: 1})[J]):
            t.append(dict(part='avval_entry', J=J, structs=ch, seed=seed, tier=tier))
        for ch in B._chunks(range(n), ({2: 5, 3: 3} if quick else {2: 2, 3: 1, 4: 2})[J]):
            t.append(dict(part='avval_forms', J=J, structs=ch, seed=seed, tier=tier))
    # histories on live argument objects: earlier calls -> the dicts of utilities / availability conditions updated in place ->
    # every clause requested with the same objects
    for J in range(2, Jmax + 1):
        structs = R.nested_structures(alph['labels'][:J])
        with_nests = [i for i, st in enumerate(structs) if st[1]]
        for ch in B._chunks(with_nests, ({2: 1, 3: 2} if quick else {2: 1, 3: 1, 4: 2})[J]):
            t.append(dict(part='live', J=J, structs=ch, seed=seed, tier=tier))
        for ch in B._chunks(range(len(structs)), ({2: 2, 3: 4} if quick else {2: 1, 3: 2, 4: 4})[J]):
            t.append(dict(part='live_gen', J=J, structs=ch, seed=seed, tier=tier))
    for J, M, ns, per in live_cnl_config(tier):
        n = len(R.cnl_structures(alph['labels'][:J], M, alph['splits'][:ns]))
        for ch in B._chunks(range(n), per):
            t.append(dict(part='live_cnl', J=J, M=M, ns=ns, structs=ch, seed=seed, tier=tier))
    return t


def live_cnl_config(tier):
    """(J, number of nests, number of alpha splits, structures per task) of the part 'live_cnl'"""
    if tier == 'quick':
        return [(2, 2, 3, 12)]
    return [(2, 2, 3, 4), (3, 2, 1, 6)]


def live_plan(tier, seed, J, si, n_nests, alph):
    """Part 'live': the contexts of one nest structure.  Per context: assignment index mi and nest parameters mus; form of the
    availability conditions av ('var' | 'none'); single: the histories with ONE earlier call (every primer of live_primers x
    every update) - False | 'log' (the log versions of the unscaled models and of the scale-one models are requested after
    the update) | 'full' (everything the context requests, except the sweep over the entry points); logs / scaled / entries:
    what the histories of the primer 'all' request after the update (probabilities besides log probabilities; the scaled
    versions mu != 1; every public entry point); every: every update family; chains of two updates: None | 'half' (every
    second update followed by the next one) | 'next' (every update followed by the next one) | 'pairs' (every ordered pair).
    quick: J = 2 every structure: the all-ones assignment (primer 'all' only), the assignment without ones (everything, chains
    'half'), and one of the two with availability None; J = 3 one assignment per structure (alternating), log versions, single
    primers for every fifth structure (rotating with the seed) and the single nest holding everything."""
    asg = assignments(alph, n_nests, si, full=False)
    seed = int(seed)
    quick = tier == 'quick'
    out = []
    if J == 2:
        for mi, mus in enumerate(asg):
            if quick:
                out.append(dict(mi=mi, mus=mus, av='var', single=('log' if mi == 1 else False), logs=(False, True), scaled=(mi == 1),
                                entries=True, every=True, chains=('half' if mi == 1 else None)))
            else:
                out.append(dict(mi=mi, mus=mus, av='var', single='full', logs=(False, True), scaled=True, entries=True, every=True,
                                chains=('pairs' if mi == 1 else 'next')))
            if not quick or mi == (si + seed) % 2:
                out.append(dict(mi=mi, mus=mus, av='none', single=(False if quick else 'log'), logs=(True,), scaled=not quick,
                                entries=not quick, every=True, chains=(None if quick else 'next')))
    elif quick:
        mi = (si + seed) % 2
        out.append(dict(mi=mi, mus=asg[mi], av='var', single=('log' if ((si + seed) % 5 == 0 or si == 1) else False), logs=(True,),
                        scaled=False, entries=False, every=False, chains=None))
    elif J == 3:
        for mi, mus in enumerate(asg):
            out.append(dict(mi=mi, mus=mus, av='var', single=('full' if mi == 1 else 'log'), logs=(False, True), scaled=(mi == 1),
                            entries=(mi == si % 2), every=True, chains='next'))
        out.append(dict(mi=si % 2, mus=asg[si % 2], av='none', single=False, logs=(True,), scaled=False, entries=False, every=True,
                        chains=None))
    else:
        mi = (si + seed) % 2
        out.append(dict(mi=mi, mus=asg[mi], av='var', single=('log' if (si + seed) % 4 == 0 else False), logs=(True,), scaled=False,
                        entries=False, every=False, chains=None))
    return out


def run_live_context(ctx, plan, table, rec, seed=0):
    """every history of one live context: the primer 'all' x every update (and the chains of two updates), then every single
    primer x every update.  All the histories share one FormulaEval: a formula is evaluated once."""
    fe = FormulaEval(table)
    J = len(ctx['alts'])
    ups = live_updates(J, ctx['forms']['av'] == 'var', every=plan['every'])
    real = [u for u in ups if u[0] != 'none']
    for u in ups:
        run_live_history(ctx, ['all'], [u], fe, rec)
    if plan['chains']:
        for i, u1 in enumerate(real):
            if plan['chains'] == 'half' and (i + int(seed)) % 2:
                continue
            for u2 in (real if plan['chains'] == 'pairs' else [real[(i + 1) % len(real)]]):
                run_live_history(ctx, ['all'], [u1, u2], fe, rec, chain=True)
    if plan['single']:
        # the sweep over every public entry point AFTER the update belongs to the histories of the primer 'all'
        ctx1 = dict(ctx, entries=False)
        if plan['single'] == 'log':
            ctx1 = dict(ctx1, logs=[True], scaled=False)
        for p in live_primers(ctx['kind']):
            for u in ups:
                run_live_history(ctx1, p, [u], fe, rec)
    rec.count('live_contexts')
    return len(fe.memo)


def na_entry_structures(tier, seed, J, n):
    """nest structures of the part 'na_entry' (every public entry point on the tables of na_table): quick - J = 2 all, J = 3
    every fifth one (rotating with the seed: the five seeds together reach all of them) and the single nest holding everything,
    in both cases with ONE of the two parameter assignments (alternating with structure and seed);
    thorough - J <= 3 all, J = 4 every fourth structure (rotating with the seed), every assignment."""
    if tier == 'quick':
        return [si for si in range(n) if J == 2 or (si + int(seed)) % 5 == 0 or si == 1]
    if J == 4:
        return [si for si in range(n) if (si + int(seed)) % 4 == 0]
    return list(range(n))


def assignments(alph, n, si, full):
    """nest parameter assignments of the entry-point / moved-parameter parts: the full product of the grid, or (largest
    families) the all-ones assignment and one assignment without ones that rotates with the structure."""
    g = alph['mus']
    if full:
        return [list(m) for m in itertools.product(g, repeat=n)]
    if n == 0:
        return [[]]
    return [[g[0]] * n, [g[1 + (si + k) % 2] for k in range(n)]]


def _table(alph, J, tier, small=False):
    n_u = 2 if (small or J == 4) else 3
    alts = alph['labels'][:J]
    us = B.uvectors(alph, J, n_u)
    pats = [[p[a] for a in alts] for p in R.avail_patterns(alts)]
    return B.Table(alts, us, pats)


WORKER_RSS_LIMIT_MB = 1500.0


def _rss_mb():
    """resident memory of this worker process in MB (0 when /proc is not readable)."""
    try:
        with open('/proc/self/status') as fh:
            for line in fh:
                if line.startswith('VmRSS:'):
                    return int(line.split()[1]) / 1024.0
    except (OSError, ValueError, IndexError):
        pass
    return 0.0


def run_task(task):
    rec = Rec()
    alph = B.alphabet(task['seed'])
    J = task['J']
    tier = task['tier']
    alts = alph['labels'][:J]
    if task['part'] == 'nested':
        structs = R.nested_structures(alts)
        table = _table(alph, J, tier)
        for si in task['structs']:
            alone, nests = structs[si]
            for mus in itertools.product(alph['mus'], repeat=len(nests)):
                if task.get('first') is not None and mus[0] != task['first']:
                    continue
                check_nested_structure(alph, alts, alone, nests, list(mus), table, rec, tier, si)
            rec.sample(dict(part='nested', alts=alts, alone=alone, nests=nests, rows=len(table.groups) * J))
    elif task['part'] == 'cnl':
        structs = R.cnl_structures(alts, task['M'], alph['splits'][:task['ns']])
        table = _table(alph, J, tier, small=True)
        for si in task['structs']:
            alone, nests = structs[si]
            if not any(0.0 < a < 1.0 for n in nests for a in n.values()):
                rec.count('cnl_structure_without_cross_membership_covered_by_nested_part')
                continue
            mus_list = B._cnl_mus(alph, task['M'], 'reduced' if tier == 'quick' else task['pa'])
            if (J, task['M']) in ((3, 3), (4, 2)):
                # largest structure families: two parameter assignments (one with equal, one with distinct values)
                mus_list = [mus_list[1], mus_list[-1]]
            for mus in mus_list:
                check_cnl_structure(alph, alts, alone, nests, list(mus), table, rec, tier, si)
        rec.sample(dict(part='cnl', alts=alts, M=task['M'], first=structs[task['structs'][0]]))
    elif task['part'] == 'gen':
        structs = R.nested_structures(alts)
        table = _table(alph, J, tier)
        tnone = B.Table(alts, table.us, table.pats[:1])
        for si in task['structs']:
            alone, nests = structs[si]
            for mi, mus in enumerate(itertools.product(alph['mus'], repeat=len(nests))):
                syntax = 'obj' if (si + mi) % 2 == 0 else 'tuple'
                pform = B.PFORMS[(si + mi) % 4]
                check_generating(alph, alts, alone, nests, list(mus), table, rec, syntax, 'var', 'betavar', pform)
                check_generating(alph, alts, alone, nests, list(mus), tnone, rec, 'tuple' if syntax == 'obj' else 'obj',
                                 'none', 'betavar', pform)
            # utilities that are pure free parameters, availabilities constants: one utility vector per call
            if J <= 3:
                mus = [alph['mus'][(si + k + 1) % 3] for k in range(len(nests))]
                for u in (table.us[1], table.us[-2]):
                    for pat in table.pats:
                        t1 = B.Table(alts, [u], [pat])
                        check_generating(alph, alts, alone, nests, mus, t1, rec, 'obj', 'const', 'beta', 'float')
            rec.sample(dict(part='gen', alts=alts, alone=alone, nests=nests))
    elif task['part'] == 'entry':
        missing = unlisted_entry_points()
        if missing:
            rec.count('public_names_of_the_family_without_a_role_in_ENTRIES', len(missing))
        structs = R.nested_structures(alts)
        table = _table(alph, J, tier, small=True)
        tnone = B.Table(alts, table.us, table.pats[:1])
        for si in task['structs']:
            alone, nests = structs[si]
            for mi, mus in enumerate(assignments(alph, len(nests), si, full=(tier != 'quick' and J <= 3))):
                check_entry_points(alph, alts, alone, nests, mus, table, rec, 'var', si + mi)
                check_entry_points(alph, alts, alone, nests, mus, tnone, rec, 'none', si + mi + 1)
        rec.sample(dict(part='entry', alts=alts, first=structs[task['structs'][0]], entry_points=sorted(ENTRIES),
                        not_in_menu=missing))
    elif task['part'] == 'moved':
        structs = R.nested_structures(alts)
        table = _table(alph, J, tier, small=True)
        for si in task['structs']:
            alone, nests = structs[si]
            for mus in assignments(alph, len(nests), si, full=(tier != 'quick' and J <= 3)):
                for mode in INIT_MODES:
                    check_nested_structure(alph, alts, alone, nests, mus, table, rec, tier, si, moved=mode)
        rec.sample(dict(part='moved', alts=alts, first=structs[task['structs'][0]], initial_values=INIT_MODES))
    elif task['part'] == 'moved_cnl':
        structs = R.cnl_structures(alts, task['M'], alph['splits'][:task['ns']])
        table = _table(alph, J, tier, small=True)
        for si in task['structs']:
            alone, nests = structs[si]
            if not any(0.0 < a < 1.0 for n in nests for a in n.values()):
                rec.count('cnl_structure_without_cross_membership_covered_by_nested_part')
                continue
            mus_list = B._cnl_mus(alph, task['M'], 'reduced')
            # small families (thorough; quick: J = 2 with 2 nests): two parameter assignments (quick: one) x every
            # initial-value mode; large families: one assignment x 'zero' and one other mode rotating with the structure
            large = (J, task['M']) in ((3, 3), (4, 2)) or (tier == 'quick' and (J, task['M']) != (2, 2))
            for mus in ([mus_list[-1]] if (tier == 'quick' or large) else [mus_list[1], mus_list[-1]]):
                for k, mode in enumerate(INIT_MODES):
                    if large and k != si % 3 and mode != 'zero':
                        continue
                    check_cnl_structure(alph, alts, alone, nests, list(mus), table, rec, tier, si, moved=mode)
        rec.sample(dict(part='moved_cnl', alts=alts, M=task['M'], first=structs[task['structs'][0]]))
    elif task['part'] == 'gen_entries':
        structs = R.nested_structures(alts)
        table = _table(alph, J, tier, small=True)
        tnone = B.Table(alts, table.us, table.pats[:1])
        for si in task['structs']:
            alone, nests = structs[si]
            for mi, mus in enumerate(assignments(alph, len(nests), si, full=(tier != 'quick' and J <= 3))):
                for ei, entries in enumerate(GEN_ENTRIES[1:]):
                    if J > 3 and ei != (si + mi) % (len(GEN_ENTRIES) - 1):
                        continue    # J = 2: every combination of names; above: rotating with the structure
                    k = si + mi + ei
                    syntax = 'obj' if k % 2 == 0 else 'tuple'
                    pform = (B.PFORMS + ['movedbeta'])[k % 5]
                    init = INIT_MODES[k % 3]
                    check_generating(alph, alts, alone, nests, mus, table, rec, syntax, 'var', 'betavar', pform, entries, init)
                    check_generating(alph, alts, alone, nests, mus, tnone, rec, 'tuple' if syntax == 'obj' else 'obj', 'none',
                                     'betavar', pform, entries, init)
        rec.sample(dict(part='gen_entries', alts=alts, first=structs[task['structs'][0]], names=GEN_ENTRIES[1:]))
    elif task['part'] == 'avforms':
        # clauses (a)-(d) with the availability conditions of BOTH models of every pair written in one of AVFORMS
        structs = R.nested_structures(alts)
        base = _table(alph, J, tier, small=True)
        for si in task['structs']:
            alone, nests = structs[si]
            asg = assignments(alph, len(nests), si, full=False)
            for mi, pi, avf, light in avform_plan(tier, J, si, len(asg), len(base.pats)):
                t1 = B.Table(alts, base.us, [base.pats[pi]])
                check_nested_structure(alph, alts, alone, nests, asg[mi], t1, rec, tier, si + mi, avf=avf, light=light)
        rec.sample(dict(part='avforms', alts=alts, first=structs[task['structs'][0]], availability_forms=AVFORMS))
    elif task['part'] == 'avforms_entry':
        structs = R.nested_structures(alts)
        base = _table(alph, J, tier, small=True)
        for si in task['structs']:
            alone, nests = structs[si]
            asg = assignments(alph, len(nests), si, full=False)
            for pi in task['pats']:
                t1 = B.Table(alts, base.us, [base.pats[pi]])
                k = si + pi
                if tier != 'quick' and J == 2:
                    # every form; the all-ones assignment (clause (a)) and the other one alternate
                    combos = [(asg[(k + fi) % len(asg)], avf) for fi, avf in enumerate(AVFORMS)]
                else:
                    # one form per (structure, pattern): the all-number forms and the others alternate with k
                    combos = [(asg[(k // 2) % len(asg)], avforms_for(k // 2, False)[k % 2])]
                for ci, (mus, avf) in enumerate(combos):
                    check_entry_points(alph, alts, alone, nests, mus, t1, rec, avf, k + ci)
        rec.sample(dict(part='avforms_entry', alts=alts, first=structs[task['structs'][0]], availability_forms=AVFORMS))
    elif task['part'] == 'avforms_cnl':
        structs = R.cnl_structures(alts, task['M'], alph['splits'][:task['ns']])
        base = _table(alph, J, tier, small=True)
        every = tier != 'quick' and (J, task['M']) == (2, 2)
        for si in task['structs']:
            alone, nests = structs[si]
            if not any(0.0 < a < 1.0 for n in nests for a in n.values()):
                rec.count('cnl_structure_without_cross_membership_covered_by_nested_part')
                continue
            if tier == 'quick' and (si + int(task['seed'])) % 2:
                rec.count('cnl_structure_left_to_the_other_seeds_and_the_thorough_tier')
                continue
            mus_list = B._cnl_mus(alph, task['M'], 'reduced')
            mus = list(mus_list[si % len(mus_list)])
            for pi, pat in enumerate(base.pats):
                t1 = B.Table(alts, base.us, [pat])
                for avf in (AVFORMS if every else [AVFORMS[(si + pi) % len(AVFORMS)]]):
                    check_cnl_structure(alph, alts, alone, nests, mus, t1, rec, tier, si, avf=avf)
        rec.sample(dict(part='avforms_cnl', alts=alts, M=task['M'], first=structs[task['structs'][0]]))
    elif task['part'] == 'avforms_gen':
        # clause (e) with the availability conditions handed to the generating function and to the terms in one of AVFORMS
        structs = R.nested_structures(alts)
        base = _table(alph, J, tier, small=True)
        for si in task['structs']:
            alone, nests = structs[si]
            for mi, mus in enumerate(assignments(alph, len(nests), si, full=False)):
                for pi, pat in enumerate(base.pats):
                    t1 = B.Table(alts, base.us, [pat])
                    k = si + mi + pi
                    for fi, avf in enumerate(avforms_for(k, tier != 'quick' and J <= 3)):
                        kk = k + fi
                        entries = None if kk % 2 == 0 else GEN_ENTRIES[1 + (kk // 2) % (len(GEN_ENTRIES) - 1)]
                        check_generating(alph, alts, alone, nests, mus, t1, rec, 'obj' if kk % 4 < 2 else 'tuple', avf, 'betavar',
                                         (B.PFORMS + ['movedbeta'])[kk % 5] if entries else B.PFORMS[kk % 4], entries,
                                         INIT_MODES[kk % 3])
        rec.sample(dict(part='avforms_gen', alts=alts, first=structs[task['structs'][0]], availability_forms=AVFORMS))
    elif task['part'] in ('na', 'na_gen', 'na_entry', 'na_avforms'):
        # the utility of an unavailable alternative is a "not applicable" code: every clause, every structure
        structs = R.nested_structures(alts)
        base = _table(alph, J, tier, small=True)
        codes = na_codes(task['seed'])
        us = na_us(base.us, J)
        nat = na_table(alts, us, base.pats, codes)
        full = tier != 'quick' and J <= 3
        part = task['part']
        for si in task['structs']:
            alone, nests = structs[si]
            for mi, mus in enumerate(assignments(alph, len(nests), si, full=full)):
                k = si + mi
                if part == 'na':
                    check_nested_structure(alph, alts, alone, nests, mus, nat, rec, tier, k, light=not full, utag=UTAG)
                    if tier != 'quick' and nests and (J <= 3 or mi == si % 2):
                        check_nested_structure(alph, alts, alone, nests, mus, nat, rec, tier, k, moved=INIT_MODES[k % 3],
                                               light=True, utag=UTAG)
                elif part == 'na_entry':
                    if tier == 'quick' and nests and mi != (si + int(task['seed'])) % 2:
                        continue
                    check_entry_points(alph, alts, alone, nests, mus, nat, rec, 'var', k, utag=UTAG)
                elif part == 'na_gen':
                    for e in (0, 1 + k % (len(GEN_ENTRIES) - 1)):
                        kk = k + e
                        entries = GEN_ENTRIES[e] if e else None
                        check_generating(alph, alts, alone, nests, mus, nat, rec, 'obj' if kk % 2 == 0 else 'tuple', 'var',
                                         'betavar', (B.PFORMS + ['movedbeta'])[kk % 5] if entries else B.PFORMS[kk % 4], entries,
                                         INIT_MODES[kk % 3], utag=UTAG)
                else:
                    # the availability conditions written without data columns as well: one table per availability pattern
                    if mi > 1:
                        continue
                    for pi, pat in enumerate(p for p in base.pats if not all(p)):
                        t1 = na_table(alts, us, [pat], codes)
                        kk = k + pi
                        two = avforms_for(kk, False)
                        for fi, avf in enumerate(two if J == 2 else [two[kk % 2]]):
                            check_nested_structure(alph, alts, alone, nests, mus, t1, rec, tier, k, avf=avf, light=True, utag=UTAG)
                        avf = two[(kk + 1) % 2]
                        entries = None if kk % 2 == 0 else GEN_ENTRIES[1 + (kk // 2) % (len(GEN_ENTRIES) - 1)]
                        check_generating(alph, alts, alone, nests, mus, t1, rec, 'obj' if kk % 4 < 2 else 'tuple', avf, 'betavar',
                                         (B.PFORMS + ['movedbeta'])[kk % 5] if entries else B.PFORMS[kk % 4], entries,
                                         INIT_MODES[kk % 3], utag=UTAG)
        rec.sample(dict(part=part, alts=alts, first=structs[task['structs'][0]], codes=codes, groups=len(nat.groups),
                        example_group=nat.describe_group(len(nat.groups) - 1)))
    elif task['part'] in ('avval', 'avval_entry', 'avval_forms'):
        # the availability conditions of available alternatives hold non-zero values other than one: every clause that stays
        # inside the nested / logit family ((a), (c), (d) and the derivative clause (e)), every structure
        structs = R.nested_structures(alts)
        base = _table(alph, J, tier, small=True)
        vals = av_values(task['seed'], tier)
        vpats = avval_pats(base.pats, vals)
        us = base.us if J <= 3 else base.us[1::4]
        vt = B.Table(alts, us, vpats)
        full = tier != 'quick' and J <= 3
        part = task['part']
        seed = int(task['seed'])
        for si in task['structs']:
            alone, nests = structs[si]
            for mi, mus in enumerate(assignments(alph, len(nests), si, full=full and part == 'avval')):
                k = si + mi
                if part == 'avval':
                    for e in (0, 1 + k % (len(GEN_ENTRIES) - 1)):
                        kk = k + e
                        entries = GEN_ENTRIES[e] if e else None
                        check_generating(alph, alts, alone, nests, mus, vt, rec, 'obj' if kk % 2 == 0 else 'tuple', 'var',
                                         'betavar', (B.PFORMS + ['movedbeta'])[kk % 5] if entries else B.PFORMS[kk % 4], entries,
                                         INIT_MODES[kk % 3], utag=AVTAG)
                    check_nested_structure(alph, alts, alone, nests, mus, vt, rec, tier, k, light=not full, utag=AVTAG,
                                           nested_only=True)
                    if tier != 'quick' and nests and (J <= 3 or mi == si % 2):
                        check_nested_structure(alph, alts, alone, nests, mus, vt, rec, tier, k, moved=INIT_MODES[k % 3],
                                               light=True, utag=AVTAG, nested_only=True)
                elif part == 'avval_entry':
                    if tier == 'quick' and nests and mi != (si + seed) % 2:
                        continue
                    check_entry_points(alph, alts, alone, nests, mus, vt, rec, 'var', k, utag=AVTAG, nested_only=True)
                else:
                    # the valued conditions written without data columns (numbers, Numeric objects, numbers and columns, products
                    # of expressions): one table per pattern.  quick: J = 2 every pattern, J = 3 every third one; thorough:
                    # J <= 3 every pattern, J = 4 every eighth one (rotating with structure, assignment and seed)
                    if mi > 1:
                        continue
                    step = {2: 1, 3: 3 if tier == 'quick' else 1, 4: 8}[J]
                    for pi, pat in enumerate(vpats):
                        if (pi + k + seed) % step:
                            continue
                        t1 = B.Table(alts, us[(pi + k) % 2::2] if J <= 3 else us[(pi + k) % 2::2][:2], [pat])
                        kk = k + pi
                        avf = VAL_AVFORMS[kk % len(VAL_AVFORMS)]
                        entries = None if kk % 2 == 0 else GEN_ENTRIES[1 + (kk // 2) % (len(GEN_ENTRIES) - 1)]
                        check_generating(alph, alts, alone, nests, mus, t1, rec, 'obj' if kk % 4 < 2 else 'tuple', avf, 'betavar',
                                         (B.PFORMS + ['movedbeta'])[kk % 5] if entries else B.PFORMS[kk % 4], entries,
                                         INIT_MODES[kk % 3], utag=AVTAG)
                        if tier != 'quick' and (J == 2 or (J == 3 and (pi + k) % 4 == 0)):
                            avf2 = VAL_AVFORMS[(kk + 1 + (kk // len(VAL_AVFORMS)) % (len(VAL_AVFORMS) - 1)) % len(VAL_AVFORMS)]
                            check_nested_structure(alph, alts, alone, nests, mus, t1, rec, tier, k, avf=avf2, light=True,
                                                   utag=AVTAG, nested_only=True)
        rec.sample(dict(part=part, alts=alts, first=structs[task['structs'][0]], availability_values=vals,
                        valued_patterns=len(vpats), example_pattern=vpats[-1]))
    elif task['part'] == 'live':
        structs = R.nested_structures(alts)
        base = _table(alph, J, tier, small=True)
        tnone = B.Table(alts, base.us, base.pats[:1])
        nf = 0
        for si in task['structs']:
            alone, nests = structs[si]
            for plan in live_plan(tier, task['seed'], J, si, len(nests), alph):
                ctx = live_ctx(alph, 'nested', alts, alone, nests, plan['mus'], si + plan['mi'], task['seed'], av=plan['av'],
                               logs=plan['logs'], scaled=plan['scaled'], entries=plan['entries'])
                nf += run_live_context(ctx, plan, base if plan['av'] == 'var' else tnone, rec, task['seed'])
        rec.sample(dict(part='live', alts=alts, first=structs[task['structs'][0]], primers=[['all']] + live_primers('nested'),
                        updates=live_updates(J, True), shifts=live_shifts(task['seed']), formulas_evaluated=nf))
    elif task['part'] == 'live_cnl':
        structs = R.cnl_structures(alts, task['M'], alph['splits'][:task['ns']])
        base = _table(alph, J, tier, small=True)
        seed = int(task['seed'])
        for si in task['structs']:
            alone, nests = structs[si]
            if not any(0.0 < a < 1.0 for n in nests for a in n.values()):
                rec.count('cnl_structure_without_cross_membership_covered_by_nested_part')
                continue
            if tier == 'quick' and (si + seed) % 3:
                rec.count('cnl_structure_left_to_the_other_seeds_and_the_thorough_tier')
                continue
            mus_list = B._cnl_mus(alph, task['M'], 'reduced')
            mus = list(mus_list[si % len(mus_list)])
            full = tier != 'quick' and J == 2
            # quick: every third structure (rotating with the seed), log versions; the single primers for every second of them
            plan = dict(every=(J == 2), chains=('next' if full else None),
                        single=('full' if full else 'log' if (tier != 'quick' or (si // 3) % 2 == 0) else False))
            ctx = live_ctx(alph, 'cnl', alts, alone, nests, mus, si, seed, av='var', logs=((False, True) if full else (True,)),
                           scaled=full, entries=(full or si % 2 == 0))
            run_live_context(ctx, plan, base, rec, seed)
        rec.sample(dict(part='live_cnl', alts=alts, M=task['M'], first=structs[task['structs'][0]],
                        primers=[['all']] + live_primers('cnl')))
    elif task['part'] == 'live_gen':
        # clause (e) on live argument objects: earlier calls of the generating function / of the terms / of the model, the
        # dicts updated in place, then the generating function and the terms requested with the same objects
        structs = R.nested_structures(alts)
        base = _table(alph, J, tier, small=True)
        seed = int(task['seed'])
        shifts = live_shifts(seed)
        quick = tier == 'quick'
        for si in task['structs']:
            alone, nests = structs[si]
            asg = assignments(alph, len(nests), si, full=False)
            if J >= 3 and quick:
                asg = [asg[(si + seed) % len(asg)]]
            ups = live_updates(J, True, every=(J == 2 or not quick))
            for mi, mus in enumerate(asg):
                k = si + mi + seed
                todo = []
                for pi, primer in enumerate(GEN_PRIMERS):
                    for ui, u in enumerate(ups):
                        if primer == 'all' or J == 2:
                            keep = True
                        else:
                            # J >= 3, the single earlier calls: thorough every second update, quick every fourth (rotating)
                            keep = (ui + k + pi) % (4 if quick else 2) == 0
                        if keep:
                            todo.append((primer, u))
                for n, (primer, u) in enumerate(todo):
                    kk = k + n
                    entries = None if kk % 2 == 0 else GEN_ENTRIES[1 + (kk // 2) % (len(GEN_ENTRIES) - 1)]
                    check_generating(alph, alts, alone, nests, mus, base, rec, 'obj' if kk % 4 < 2 else 'tuple', 'var', 'betavar',
                                     (B.PFORMS + ['movedbeta'])[kk % 5] if entries else B.PFORMS[kk % 4], entries,
                                     INIT_MODES[kk % 3], live=dict(primer=primer, updates=[u], shifts=shifts))
        rec.sample(dict(part='live_gen', alts=alts, first=structs[task['structs'][0]], primers=GEN_PRIMERS,
                        updates=live_updates(J, True), shifts=shifts))
    elif task['part'] == 'na_cnl':
        structs = R.cnl_structures(alts, task['M'], alph['splits'][:task['ns']])
        base = _table(alph, J, tier, small=True)
        codes = na_codes(task['seed'])
        nat = na_table(alts, na_us(base.us, J), base.pats, codes)
        for si in task['structs']:
            alone, nests = structs[si]
            if not any(0.0 < a < 1.0 for n in nests for a in n.values()):
                rec.count('cnl_structure_without_cross_membership_covered_by_nested_part')
                continue
            mus_list = B._cnl_mus(alph, task['M'], 'reduced')
            mus = list(mus_list[si % len(mus_list)])
            check_cnl_structure(alph, alts, alone, nests, mus, nat, rec, tier, si, utag=UTAG)
            if tier != 'quick':
                check_cnl_structure(alph, alts, alone, nests, mus, nat, rec, tier, si, moved=INIT_MODES[si % 3], utag=UTAG)
        rec.sample(dict(part='na_cnl', alts=alts, M=task['M'], first=structs[task['structs'][0]], codes=codes))
    else:
        raise ValueError(task['part'])
    if _rss_mb() > WORKER_RSS_LIMIT_MB:
        rec.retire = True       # every evaluation leaves some memory behind in the long-lived worker: hand over to a fresh one
    return rec.result()


# --------------------------------------------------------------------------- replay
def _unjson(spec):
    """a JSON round trip turns the alternative ids that key the alpha dictionaries into strings: restore them."""
    if spec.get('kind') != 'cnl':
        return spec
    by_str = {str(a): a for a in spec['alts']}
    return dict(spec, nests=[{by_str.get(str(a), a): v for a, v in n.items()} for n in spec['nests']])


def replay(case):
    rec = Rec()
    if case['part'] == 'gen':
        grp = case['group']
        table = B.Table(case['alts'], [grp['u']], [grp['avail']])
        entries = tuple(case['entries']) if case.get('entries') else None
        check_generating(None, case['alts'], case['alone'], case['nests'], case['mus'], table, rec, case['syntax'],
                         case['avform'], case['uform'], case['pform'], entries, case.get('init', 'zero'), utag=case.get('utilities'),
                         live=case.get('live'))
        return rec.violations
    if case['part'] == 'live':
        grp = case['group']
        ctx = case['ctx']
        table = B.Table(ctx['alts'], [grp['u']], [grp['avail']])
        run_live_history(ctx, case['primer'], case['updates'], FormulaEval(table), rec, chain=case.get('chain', False))
        return rec.violations
    if case['part'] == 'raise':
        grp = case['group']
        ev = Evaluator(B.Table(case['spec']['alts'], [grp['u']], [grp['avail']]), rec)
        ev(_unjson(case['spec']))
        return rec.violations
    grp = case['group']
    alts = case['a']['alts']
    table = B.Table(alts, [grp['u']], [grp['avail']])
    va = eval_any(_unjson(case['a']), table)
    vb = eval_any(_unjson(case['b']), table)
    rel = 1e-13 if case['clause'].startswith('tuple') else REL
    compare(rec, case['clause'], case['names'][0], case['names'][1], case['a'], case['b'], table, va, vb, case['info'], rel=rel)
    return rec.violations
