"""C07 — estimation returns a feasible point that is a maximum of the stated likelihood.

Bounded exhaustive exploration on the real BIOGEME.estimate()/quick_estimate():
  concave model templates (binary / 3-alternative logit with linear-in-parameter utilities, normal
  regression with fixed sigma; 1-3 free parameters, optional fixed parameter)
  x ALL tables of a finite family (every choice pattern / every y-grid assignment over a fixed attribute
    table; tables for which the plain-Python reference finds no finite, well conditioned interior maximum
    are rejected and counted)
  x every algorithm name (keys of biogeme.optimization.algorithms + 'automatic') and option variants
  x bound configurations derived from the reference free optimum (none, wide box, one-sided inactive,
    upper bound active on parameter k, lower bound active on parameter k)
  x a 3-point grid of starting points x {estimate, quick_estimate}.
Oracle per run: plain-Python closed-form log likelihood / gradient / Hessian / BHHH, a damped Newton
iteration and an active-set enumeration (all 3^K active sets) for the reference optimum in the box.
History part: [estimate(run_bootstrap=True) with every resample of a family owned through numpy.random.randint,
then calculate_likelihood(x*)] must reproduce the reported final log likelihood.
Operation histories on ONE BIOGEME object: every sequence in normal form of depth 3 (thorough: 3 over a wide, 4 over a
narrow alphabet) of {estimate, quick_estimate, calculate_likelihood_and_derivatives / calculate_likelihood at another
point, set tolerance, set max_iterations, set optimization_algorithm}; every estimation in the history is judged with the
options in force when it was launched, and after every operation every results object obtained earlier must still
report the likelihood, gradient, Hessian and BHHH at its own estimates.
Formulas given as a dictionary: tables of a sub-family x EVERY vector of observation weights over a two-value alphabet x
{log likelihood under 'log_like' / 'loglike'} x {weight formula under 'weight' / 'weights' / absent} x order of the entries
x form of the weight formula (WG, WG * constant) x a further formula over a model parameter; the stated likelihood is
sum_i weight_i * loglike_i (reference: weighted closed forms, BHHH = sum_i weight_i g_i g_i'), all per-run clauses.
Iteration file: every sequence of 2 (thorough: also 3) estimations {estimate, quick_estimate} of models of ONE name in ONE
directory with save_iterations=True, the models ranging over the template and every change of status of one parameter
(free -> fixed, fixed -> free); the file left by the earlier estimations is the environment of the next one; every
estimation judged by all per-run clauses against the reference of its own model.
Table edited under a live model: tables of a sub-family, cross-sectional and panel (individuals of 1-3 rows; logit and normal
regression as log(PanelLikelihoodTrajectory(.))) x EVERY history (operations before: none / estimate / quick_estimate /
evaluation) + (edit sequence through the Database interface: remove() of EVERY subset of the rows, scale_column of every
model column by every scale, two edits in both orders) + (operations after: estimate / quick_estimate, directly or after an
evaluation) on ONE BIOGEME object and its database; the stated likelihood of an estimation is the formula applied to the
table as it is when the estimation is launched (the reference applies the same edits to its plain-Python table; panel BHHH =
sum over the individuals); all per-run clauses, and the results obtained before the edit keep reporting their own table.
"""
from __future__ import annotations

import itertools
import math
import os

from vf.rec import Rec

ID = 'C07'
LEVEL = 'exploration'
TECHNIQUE = ('bounded exhaustive enumeration of (concave model template x every table of a finite family x '
             'algorithm name/option variant x bound configuration x start x entry point) executed on the real '
             'estimate()/quick_estimate(), compared with a plain-Python closed-form likelihood, derivatives and an '
             'active-set/Newton reference optimum; bootstrap resamples owned and enumerated; every operation history '
             '(estimations, evaluations, option setters) of bounded depth on one object, each estimation judged with the '
             'options in force, every earlier results object re-read after every operation; dictionaries of formulas over '
             'every keyword / order / weight-vector combination against the weighted reference; every short sequence of '
             'estimations of same-named models (one parameter changing status) sharing the iteration file of a directory; '
             'every history (uses before) + (Database.remove of every subset of the rows / scale_column of every model column, '
             'up to two edits) + (uses after) on one live object, cross-sectional and panel data, against the reference of the '
             'table as it is when each estimation is launched')
RULE = ('one case per real estimation run (model, table, bound configuration, start, algorithm variant, entry point) '
        'and one per (table, resample vector) bootstrap history and one per (table, bounds, construction options, '
        'operation sequence) object history and one per (table, weight vector, dictionary form) estimation and one per '
        '(table, bounds, algorithm, sequence of (model variant, entry point)) iteration-file history and one per (table, '
        'individuals, bounds, algorithm, start, operation sequence with table edits) live-model edit history; a case is non-trivial when the table was accepted '
        'by the reference (finite, well conditioned interior maximum) and the run returned results; '
        'distinct = distinct (model, table, bounds, start, algorithm variant, entry point[, resample]) keys. '
        'Rejected tables (separation / ill conditioning) are counted, never sent to the library.')
ASSUMPTIONS = [
    'concave problems only: logit with linear-in-parameter utilities (2-3 alternatives, all available; also as '
    'log(PanelLikelihoodTrajectory(logit)) in the panel bootstrap part) and normal regression with fixed sigma; 1-3 free '
    'parameters, optional fixed parameter; tables of 3-6 rows from fixed value alphabets (VERIF_SEED selects one of 5 '
    'alphabets of attribute values, y grid, alternative ids, parameter names, fixed values)',
    'tolerances: recomputation / derivative identities rel 1e-9 (1e-11 against the library itself); feasibility 1e-10 rel '
    '+ 1e-12 abs; at reported convergence value within max(1e-6*max(1,|LL|), K^2*max|(-H)^-1|*(tau*S)^2) of the reference '
    'optimum and free-direction gradient <= max(1e-2*max(1,|LL|), 1.5*tau*S), tau = configured relative-gradient tolerance, '
    'S = max(1,|LL(start)|,|LL*|) (the algorithms own stopping rule; DESIGN values are the floor); sign condition on blocked '
    'directions; tables whose reference optimum has |x|>8 or max|(-H)^-1|>60 are rejected (counted)',
    'algorithms that ignore bounds (LS-*, TR-*) are compared with the unconstrained reference optimum only; leaving the '
    'box is counted as documented behaviour',
    'clause no-convergence-on-a-small-concave-problem (biogeme_optimization algorithms, no iteration cap) is a calibrated '
    'expectation, not part of the statement; scipy is exempt (L-BFGS-B stalls exist and are reported unconverged after the fix)',
    'the external optimisers (biogeme_optimization, scipy L-BFGS-B) and the engine arithmetic are exercised, not repaired; '
    'quick_estimate() does not write the estimates back to the formulas and a second estimate() on the same object '
    'restarts from the original start: both observed and counted, not demanded',
    'object histories: normal form = ends with an observable operation, contains an estimation, never sets one option twice '
    'in a row; a re-estimation may start from the original start or from the estimates of any earlier estimate() of the '
    'history (initLogLike must be the likelihood at one of them; the loosest of them scales the gradient tolerance); '
    'max_iterations is not forwarded to scipy (counted, not demanded); steptol and the other trust-region options are not '
    'changed inside histories',
    'table edits: only Database.remove and Database.scale_column (the two editing methods of the Database interface that keep '
    'the columns), at most two edits per history, tables of 4-6 rows, individuals of 1-3 rows; a history that launches an '
    'estimation on a table without reference optimum is outside the domain (counted); the bounds are those declared at '
    'construction (derived from the reference optimum of the last table of the history); a direct assignment to '
    'database.data is not an edit through the interface and is not explored; the bootstrap results an earlier '
    'estimate(run_bootstrap=True) leaves in the results of a later quick_estimate() are not part of the statement',
]
ANCHOR_FILES = ['src/biogeme/biogeme.py', 'src/biogeme/optimization.py', 'src/biogeme/negative_likelihood.py',
                'src/biogeme/results.py']
DETERMINISM_SLICE = 3
TASK_TIMEOUT = 600.0

_SEED = int(os.environ.get('VERIF_SEED', '0') or 0)
_A = _SEED % 5

# --------------------------------------------------------------------------- value alphabets (per seed)
# attribute rows (X1, X2, X3, W1, W2, W3); the first N rows are used for an N-row table
ATTR = [
    [(1.0, 2.0, 0.5, 0.0, 1.0, 2.0), (2.0, 1.0, 1.5, 1.0, 0.0, 1.0), (0.5, 1.5, 2.5, 2.0, 1.0, 0.0),
     (3.0, 1.0, 2.0, 1.0, 2.0, 0.0), (1.5, 3.0, 1.0, 0.0, 2.0, 1.0), (2.5, 0.5, 3.0, 2.0, 0.0, 1.0)],
    [(0.5, 1.0, 2.0, 1.0, 0.0, 2.0), (1.5, 0.5, 1.0, 0.0, 2.0, 1.0), (2.0, 2.5, 0.5, 2.0, 1.0, 0.0),
     (1.0, 3.0, 1.5, 0.0, 1.0, 2.0), (2.5, 1.5, 3.0, 1.0, 2.0, 0.0), (3.0, 2.0, 2.5, 2.0, 0.0, 1.0)],
    [(2.0, 0.5, 1.0, 2.0, 1.0, 0.0), (1.0, 1.5, 3.0, 0.0, 1.0, 2.0), (3.0, 2.0, 0.5, 1.0, 2.0, 0.0),
     (0.5, 2.5, 2.0, 2.0, 0.0, 1.0), (1.5, 1.0, 2.5, 1.0, 0.0, 2.0), (2.5, 3.0, 1.5, 0.0, 2.0, 1.0)],
    [(1.5, 2.5, 1.0, 0.0, 2.0, 1.0), (0.5, 2.0, 3.0, 1.0, 0.0, 2.0), (2.5, 1.0, 2.0, 2.0, 1.0, 0.0),
     (2.0, 3.0, 0.5, 1.0, 2.0, 0.0), (3.0, 0.5, 1.5, 0.0, 1.0, 2.0), (1.0, 1.5, 2.5, 2.0, 0.0, 1.0)],
    [(3.0, 1.5, 2.0, 1.0, 2.0, 0.0), (2.0, 2.5, 1.0, 2.0, 0.0, 1.0), (1.0, 0.5, 1.5, 0.0, 1.0, 2.0),
     (1.5, 2.0, 3.0, 2.0, 1.0, 0.0), (0.5, 3.0, 2.5, 1.0, 0.0, 2.0), (2.5, 1.0, 0.5, 0.0, 2.0, 1.0)],
][_A]
YVALS = [(0.5, 1.5, 3.0), (0.0, 1.0, 2.5), (1.0, 2.0, 2.5), (-0.5, 0.5, 2.0), (0.25, 1.75, 2.25)][_A]
ALT_IDS = [(1, 2, 3), (0, 1, 2), (3, 1, 2), (2, 5, 7), (1, 3, 2)][_A]
FIXVAL = [0.5, -0.25, 0.75, 0.3, -0.6][_A]
SIGMA = [0.75, 1.25, 0.5, 1.5, 0.9][_A]
# observation weights (column WG) of the dictionary-of-formulas part: every vector over these two values; WSCALE is the
# constant of the weight formula WG * WSCALE
WVALS = [(0.5, 2.0), (1.5, 0.25), (2.0, 0.75), (0.4, 1.6), (3.0, 0.5)][_A]
WSCALE = [2.0, 0.5, 1.5, 0.25, 3.0][_A]
# names: order of appearance in the formulas != ASCII order != "natural" order; the fixed one sorts first
NAMES = [
    dict(b='b_z', asc1='B2', asc2='b10', c='b_a', fix='A_fix', sig='A0_sigma', a='beta[0]'),
    dict(b='zeta', asc1='asc_10', asc2='asc_2', c='Zc', fix='ASC_0', sig='0sigma', a='a b'),
    dict(b='B_TIME', asc1='b_time', asc2='ASC car', c='B_COST', fix='A', sig='A_s', a='_cte'),
    dict(b='x', asc1='X', asc2='x1', c='x10', fix='W', sig='V', a='x2'),
    dict(b='beta2', asc1='beta10', asc2='beta1', c='Beta3', fix='BETA', sig='B_sig', a='beta_a'),
][_A]
COLUMNS = ['X2', 'CH', 'U0', 'X1', 'W3', 'X3', 'Y', 'W1', 'WG', 'ID', 'W2']  # table order (not alphabetical, one unused)

ALGOS = ['scipy', 'LS-newton', 'TR-newton', 'LS-BFGS', 'TR-BFGS', 'simple_bounds', 'simple_bounds_newton',
         'simple_bounds_BFGS', 'automatic']
UNBOUNDED = {'LS-newton', 'TR-newton', 'LS-BFGS', 'TR-BFGS'}
# option variants: name -> (algorithm, keyword overrides)
VARIANTS = {a: (a, {}) for a in ALGOS}
VARIANTS.update({
    'simple_bounds@sd0.5': ('simple_bounds', dict(second_derivatives=0.5)),
    'simple_bounds@sd0': ('simple_bounds', dict(second_derivatives=0.0)),
    'simple_bounds@icg': ('simple_bounds', dict(infeasible_cg=True)),
    'simple_bounds@r0.1': ('simple_bounds', dict(initial_radius=0.1)),
    'simple_bounds@tol': ('simple_bounds', dict(tolerance=1e-6)),
    'simple_bounds_BFGS@tol': ('simple_bounds_BFGS', dict(tolerance=1e-6)),
    'TR-BFGS@tol': ('TR-BFGS', dict(tolerance=1e-6)),
    'LS-BFGS@tol': ('LS-BFGS', dict(tolerance=1e-6)),
    'TR-newton@tol': ('TR-newton', dict(tolerance=1e-6)),
    'TR-newton@nodogleg': ('TR-newton', dict(dogleg=False)),
    'TR-BFGS@nodogleg': ('TR-BFGS', dict(dogleg=False)),
    'TR-newton@r0.1': ('TR-newton', dict(initial_radius=0.1)),
    'LS-newton@tol': ('LS-newton', dict(tolerance=1e-6)),
    'simple_bounds@it2': ('simple_bounds', dict(max_iterations=2)),
    'simple_bounds_BFGS@it2': ('simple_bounds_BFGS', dict(max_iterations=2)),
    'LS-BFGS@it2': ('LS-BFGS', dict(max_iterations=2)),
    'TR-newton@it1': ('TR-newton', dict(max_iterations=1)),
})
QUICK_VARIANTS = ALGOS + ['simple_bounds@sd0.5', 'simple_bounds@tol', 'LS-BFGS@tol', 'simple_bounds@it2', 'LS-BFGS@it2',
                          'TR-newton@nodogleg']
DEFAULT_TOLERANCE = 2.220446049250313e-16 ** 0.25  # biogeme's default `tolerance` (relative gradient)
THOROUGH_VARIANTS = list(VARIANTS)


# =========================================================================== reference model (plain Python)
def templates():
    n = NAMES
    a1, a2, a3 = ALT_IDS
    F = lambda name, init=0.0: [name, 0, init]
    return {
        'L1': dict(kind='logit', params=[F(n['b'])], alts=[[a1, [[0, 'X1']]], [a2, [[0, 'X2']]]], rows=5),
        'L2': dict(kind='logit', params=[F(n['asc1']), F(n['b'])],
                   alts=[[a1, [[0, None], [1, 'X1']]], [a2, [[1, 'X2']]]], rows=5),
        'L2F': dict(kind='logit', params=[F(n['b']), [n['fix'], 1, FIXVAL], F(n['asc1'])],
                    alts=[[a2, [[0, 'X2'], [2, None]]], [a1, [[0, 'X1'], [1, 'X3']]]], rows=5),
        'L3': dict(kind='logit', params=[F(n['asc1']), F(n['b']), F(n['asc2'])],
                   alts=[[a1, [[0, None], [1, 'X1']]], [a2, [[2, None], [1, 'X2']]], [a3, [[1, 'X3']]]], rows=6),
        'L3G': dict(kind='logit', params=[F(n['b']), F(n['c'])],
                    alts=[[a1, [[0, 'X1'], [1, 'W1']]], [a2, [[0, 'X2'], [1, 'W2']]], [a3, [[0, 'X3'], [1, 'W3']]]],
                    rows=5),
        'N1': dict(kind='normal', params=[F(n['b']), [n['sig'], 1, SIGMA]], mean=[[0, 'X1']], sigma=1, rows=4),
        'N2': dict(kind='normal', params=[F(n['a']), [n['sig'], 1, SIGMA], F(n['b'])],
                   mean=[[0, None], [2, 'X1']], sigma=1, rows=4),
        'N3': dict(kind='normal', params=[F(n['b']), F(n['a']), F(n['c']), [n['sig'], 1, SIGMA]],
                   mean=[[1, None], [0, 'X1'], [2, 'W2']], sigma=3, rows=4),
    }


def make_table(tpl, nrows, code, wvec=None, ids=None):
    """code: tuple of per-row symbols (alternative position for logit, y-grid index for normal); wvec: per-row index
    into WVALS for the column WG (None: WG = 1 everywhere); ids: per-row identifier of the individual (column ID; None:
    consecutive pairs of rows)."""
    rows = []
    for i in range(nrows):
        x1, x2, x3, w1, w2, w3 = ATTR[i]
        d = dict(X1=x1, X2=x2, X3=x3, W1=w1, W2=w2, W3=w3, U0=float(7 - i), CH=0.0, Y=0.0,
                 WG=(1.0 if wvec is None else float(WVALS[wvec[i]])), ID=float(i // 2 + 1 if ids is None else ids[i]))
        if tpl['kind'] == 'logit':
            d['CH'] = float(tpl['alts'][code[i]][0])
        else:
            d['Y'] = float(YVALS[code[i]])
        rows.append([d[c] for c in COLUMNS])
    return rows


class Problem:
    """Plain-Python likelihood with closed-form derivatives w.r.t. ALL parameters (free and fixed)."""

    def __init__(self, tpl, rows, weight=None, panel=False):
        """weight: None (the stated likelihood is the plain sum over the rows) or a factor c: the stated likelihood is
        sum_i (c * WG_i) * loglike_i (the weight formula of the dictionary of formulas).  panel: the rows of one value of
        the column ID form ONE observation (log of the product of the row likelihoods = sum of the row log likelihoods):
        value, gradient and Hessian are those of the plain sum, the BHHH sums over the individuals."""
        self.kind = tpl['kind']
        self.K = len(tpl['params'])
        self.names = [p[0] for p in tpl['params']]
        self.status = [p[1] for p in tpl['params']]
        self.init = [float(p[2]) for p in tpl['params']]
        self.free = [k for k in range(self.K) if self.status[k] == 0]
        col = {c: i for i, c in enumerate(COLUMNS)}
        self.obs = []
        for r in rows:
            if self.kind == 'logit':
                Z = []
                chosen = None
                for j, (aid, terms) in enumerate(tpl['alts']):
                    z = [0.0] * self.K
                    for k, c in terms:
                        z[k] += 1.0 if c is None else r[col[c]]
                    Z.append(z)
                    if r[col['CH']] == aid:
                        chosen = j
                self.obs.append((Z, chosen))
            else:
                z = [0.0] * self.K
                for k, c in tpl['mean']:
                    z[k] += 1.0 if c is None else r[col[c]]
                self.obs.append((z, r[col['Y']]))
        self.sigma_idx = tpl.get('sigma')
        self.w = [1.0 if weight is None else float(weight) * r[col['WG']] for r in rows]
        self.groups = [r[col['ID']] for r in rows] if panel else None
        if panel and weight is not None:
            raise RuntimeError('harness: weighted panel reference not written')

    def full(self, xfree):
        b = list(self.init)
        for k, v in zip(self.free, xfree):
            b[k] = float(v)
        return b

    def eval(self, xfree, order=2):
        """(ll, g, H, BHHH) over the FREE parameters (lists), at the free-parameter vector xfree."""
        beta = self.full(xfree)
        K = self.K
        fr = self.free
        nf = len(fr)
        ll = 0.0
        g = [0.0] * nf
        H = [[0.0] * nf for _ in range(nf)]
        B = [[0.0] * nf for _ in range(nf)]
        gsum = {}
        for n_, (ob, w) in enumerate(zip(self.obs, self.w)):
            if self.kind == 'logit':
                Z, c = ob
                V = [sum(z[k] * beta[k] for k in range(K)) for z in Z]
                m = max(V)
                e = [math.exp(v - m) for v in V]
                s = sum(e)
                P = [x / s for x in e]
                ll += w * (V[c] - m - math.log(s))
                if order == 0:
                    continue
                zbar = [sum(P[j] * Z[j][k] for j in range(len(Z))) for k in fr]
                gn = [Z[c][k] - zb for k, zb in zip(fr, zbar)]
                if order >= 2:
                    for a in range(nf):
                        for b_ in range(nf):
                            H[a][b_] -= w * (sum(P[j] * Z[j][fr[a]] * Z[j][fr[b_]] for j in range(len(Z))) - zbar[a] * zbar[b_])
            else:
                z, y = ob
                sg = beta[self.sigma_idx]
                mu = sum(z[k] * beta[k] for k in range(K))
                r = y - mu
                ll += w * (-math.log(sg) - 0.5 * math.log(2.0 * math.pi) - (r / sg) ** 2 / 2.0)
                if order == 0:
                    continue
                gn = [r * z[k] / (sg * sg) for k in fr]
                if order >= 2:
                    for a in range(nf):
                        for b_ in range(nf):
                            H[a][b_] -= w * (z[fr[a]] * z[fr[b_]] / (sg * sg))
            for a in range(nf):
                g[a] += w * gn[a]
            if self.groups is not None:
                acc = gsum.setdefault(self.groups[n_], [0.0] * nf)
                for a in range(nf):
                    acc[a] += gn[a]
                continue
            for a in range(nf):
                for b_ in range(nf):
                    B[a][b_] += w * gn[a] * gn[b_]
        for acc in gsum.values():
            for a in range(nf):
                for b_ in range(nf):
                    B[a][b_] += acc[a] * acc[b_]
        return ll, g, H, B


def solve_lin(A, b):
    """Gaussian elimination with partial pivoting; None if (numerically) singular."""
    n = len(b)
    M = [list(A[i]) + [b[i]] for i in range(n)]
    for c in range(n):
        p = max(range(c, n), key=lambda r: abs(M[r][c]))
        if abs(M[p][c]) < 1e-13:
            return None
        M[c], M[p] = M[p], M[c]
        for r in range(c + 1, n):
            f = M[r][c] / M[c][c]
            for k in range(c, n + 1):
                M[r][k] -= f * M[c][k]
    x = [0.0] * n
    for i in range(n - 1, -1, -1):
        x[i] = (M[i][n] - sum(M[i][k] * x[k] for k in range(i + 1, n))) / M[i][i]
    return x


XMAX = 8.0


def newton(prob, x0, idx):
    """Damped Newton on the coordinates idx (others held at x0).  Returns x or None (diverges / singular)."""
    x = list(x0)
    if not idx:
        return x
    ll, g, H, _ = prob.eval(x)
    for _ in range(80):
        gs = [g[i] for i in idx]
        Hs = [[-H[i][j] for j in idx] for i in idx]
        d = solve_lin(Hs, gs)
        if d is None:
            return None
        slope = sum(a * b for a, b in zip(gs, d))
        if slope <= 0.0 or slope < 1e-30:
            break
        if slope < 1e-11 * max(1.0, abs(ll)):
            # the predicted increase is below the rounding resolution of the value: polish with full Newton steps
            # accepted on the gradient norm
            xn = list(x)
            for i, di in zip(idx, d):
                xn[i] = x[i] + di
            lln, gn, Hn, _ = prob.eval(xn)
            if max(abs(gn[i]) for i in idx) < max(abs(g[i]) for i in idx):
                x, ll, g, H = xn, lln, gn, Hn
                continue
            break
        t = 1.0
        moved = False
        for _ in range(50):
            xn = list(x)
            for i, di in zip(idx, d):
                xn[i] = x[i] + t * di
            lln = prob.eval(xn, order=0)[0]
            if lln >= ll + 1e-4 * t * slope or (slope < 1e-18 and lln >= ll):
                moved = True
                break
            t /= 2.0
        if not moved:
            break
        x = xn
        if max(abs(v) for v in x) > 4 * XMAX:
            return None
        ll, g, H, _ = prob.eval(x)
        if slope < 1e-26:
            break
    if max(abs(g[i]) for i in idx) > 1e-9 * max(1.0, abs(ll)):
        return None
    return x


def inv_bound(prob, x):
    """max |entry| of (-H)^-1 at x (conditioning telltale), None if singular."""
    _, _, H, _ = prob.eval(x)
    n = len(x)
    mx = 0.0
    for c in range(n):
        e = [1.0 if i == c else 0.0 for i in range(n)]
        col = solve_lin([[-v for v in row] for row in H], e)
        if col is None:
            return None
        mx = max(mx, max(abs(v) for v in col))
    return mx


def free_optimum(prob):
    """Reference free optimum, or (None, reason)."""
    nf = len(prob.free)
    x = newton(prob, [0.0] * nf, list(range(nf)))
    if x is None:
        return None, 'no_finite_maximum'
    if max(abs(v) for v in x) > XMAX:
        return None, 'optimum_outside_domain'
    ib = inv_bound(prob, x)
    if ib is None or ib > 60.0:
        return None, 'ill_conditioned'
    return x, None


def box_optimum(prob, lb, ub, xfree_opt):
    """Active-set enumeration: every assignment of {free, at lower, at upper} per coordinate; the KKT point of a
    strictly concave problem is unique.  Returns (x, ll, active) with active[i] in {0, -1, +1}."""
    nf = len(lb)
    found = []
    for act in itertools.product((0, -1, 1), repeat=nf):
        if any((a == -1 and lb[i] is None) or (a == 1 and ub[i] is None) for i, a in enumerate(act)):
            continue
        x0 = [lb[i] if a == -1 else ub[i] if a == 1 else min(max(xfree_opt[i], -XMAX), XMAX) for i, a in enumerate(act)]
        idx = [i for i, a in enumerate(act) if a == 0]
        x = newton(prob, x0, idx)
        if x is None:
            continue
        ok = True
        for i in idx:
            if (lb[i] is not None and x[i] < lb[i] - 1e-12) or (ub[i] is not None and x[i] > ub[i] + 1e-12):
                ok = False
        if not ok:
            continue
        ll, g, _, _ = prob.eval(x, order=1)
        for i, a in enumerate(act):
            if a == 1 and g[i] < -1e-9:
                ok = False
            if a == -1 and g[i] > 1e-9:
                ok = False
        if ok:
            found.append((x, ll, act))
    if not found:
        return None
    best = max(found, key=lambda t: t[1])
    if any(abs(f[1] - best[1]) > 1e-9 * max(1.0, abs(best[1])) for f in found):
        raise RuntimeError(f'reference: KKT points with different values {found}')
    # prefer the assignment with the fewest active bounds (degenerate ties)
    best = min((f for f in found), key=lambda t: sum(1 for a in t[2] if a))
    return best


def qdown(v, step=0.25):
    return math.floor(v / step) * step


def qup(v, step=0.25):
    return math.ceil(v / step) * step


def bound_configs(xopt, tier, rot):
    """name -> (lb list, ub list, kind); derived from the reference free optimum (values on a 1/4 grid)."""
    nf = len(xopt)
    N = [None] * nf
    out = [('none', list(N), list(N), 'none'),
           ('wide', [-20.0] * nf, [20.0] * nf, 'inactive'),
           ('lower1', [qdown(v - 1.0) for v in xopt], list(N), 'inactive')]
    ks = range(nf) if tier == 'thorough' else [rot % nf]
    for k in ks:
        ub = list(N)
        ub[k] = qdown(xopt[k] - 0.3)
        out.append((f'ubact{k}', list(N), ub, 'active'))
    ks = range(nf) if tier == 'thorough' else [(rot + 1) % nf]
    for k in ks:
        lb = list(N)
        lb[k] = qup(xopt[k] + 0.3)
        ub = [None if i == k else qup(xopt[i] + 2.0) for i in range(nf)]
        out.append((f'lbact{k}', lb, ub, 'active'))
    if tier == 'thorough' and nf >= 2:
        # box with one active upper bound and every other bound present but inactive
        lb = [qdown(v - 2.0) for v in xopt]
        ub = [qup(v + 2.0) for v in xopt]
        ub[nf - 1] = qdown(xopt[nf - 1] - 0.3)
        out.append(('boxact', lb, ub, 'active'))
    return out


STARTS = [[0.0, 0.0, 0.0], [0.5, -0.5, 0.25], [-1.0, 1.0, 0.75]]


def clip_start(s, lb, ub):
    out = []
    for v, l, u in zip(s, lb, ub):
        if l is not None and v < l:
            v = l
        if u is not None and v > u:
            v = u
        out.append(float(v))
    return out


# =========================================================================== the real thing
def build_biogeme(tpl, rows, start, lb, ub, variant, share=True, boot_samples=None, as_dict=False, panel=False,
                  overrides=None, fdict=None):
    """start/lb/ub are given over the FREE parameters in template order.
    fdict = [key of the log likelihood, key of the weight formula or None, weight entry first?, form of the weight
    formula ('var': WG, 'scaled': WG * WSCALE), a further formula (first free parameter * U0) in the dictionary?]: the formulas are given as that
    dictionary."""
    import pandas as pd
    import biogeme.biogeme as bb
    import biogeme.database as db
    from biogeme import models
    from biogeme.expressions import Beta, Variable, log, exp, PanelLikelihoodTrajectory
    from biogeme.parameters import Parameters

    algo, extra = VARIANTS[variant]
    df = pd.DataFrame(rows, columns=COLUMNS)
    d = db.Database('t07', df)
    if panel:
        d.panel('ID')  # consecutive pairs of rows form one individual
    free = [k for k, p in enumerate(tpl['params']) if p[1] == 0]
    defs = {}
    for k, p in enumerate(tpl['params']):
        if p[1] == 0:
            i = free.index(k)
            defs[k] = (p[0], float(start[i]), lb[i], ub[i], 0)
        else:
            defs[k] = (p[0], float(p[2]), None, None, 1)
    cache = {}
    made = []

    def beta(k):
        if share and k in cache:
            return cache[k]
        o = Beta(*defs[k])
        cache[k] = o
        made.append((k, o))
        return o

    def lin(terms):
        e = None
        for k, c in terms:
            t = beta(k) if c is None else beta(k) * Variable(c)
            e = t if e is None else e + t
        return e

    if tpl['kind'] == 'logit':
        V = {aid: lin(terms) for aid, terms in tpl['alts']}
        if panel:
            # log of the product over the rows of an individual = sum of the row log likelihoods (the reference)
            ll = log(PanelLikelihoodTrajectory(models.logit(V, None, Variable('CH'))))
        else:
            ll = models.loglogit(V, None, Variable('CH'))
    else:
        sg = beta(tpl['sigma'])
        mu = lin(tpl['mean'])
        ll = -log(sg) - 0.5 * math.log(2.0 * math.pi) - ((Variable('Y') - mu) / beta(tpl['sigma'])) ** 2 / 2.0
        if panel:
            # the density of the observations of an individual is the product of the row densities
            ll = log(PanelLikelihoodTrajectory(exp(ll)))
    kw = dict(generate_html=False, generate_pickle=False, save_iterations=False, number_of_threads=1,
              optimization_algorithm=algo)
    kw.update(extra)
    kw.update(overrides or {})
    if boot_samples is not None:
        kw['bootstrap_samples'] = boot_samples
    formulas = {'loglike': ll, 'weight': Variable('WG')} if as_dict else ll
    if fdict is not None:
        llkey, wkey, wfirst, wform, further = fdict
        items = [(llkey, ll)]
        if wkey is not None:
            wf = Variable('WG') if wform == 'var' else Variable('WG') * WSCALE
            items.insert(0 if wfirst else 1, (wkey, wf))
        if further:
            # a formula that is neither the likelihood nor the weight, over a parameter of the model
            items.insert(1, ('U0 part', beta(free[0]) * Variable('U0')))
        formulas = dict(items)
    b = bb.BIOGEME(d, formulas, parameters=Parameters(), **kw)
    b.modelName = 'm07'
    return b, made


def _rel(a, b, scale=None):
    s = max(abs(a), abs(b), 1e-300) if scale is None else scale
    return abs(a - b) / s


def _r(v, nd=9):
    try:
        return float(f'{float(v):.{nd}g}')
    except (TypeError, ValueError):
        return repr(v)


def family_of(a):
    return 'unbounded' if a in UNBOUNDED else 'scipy' if a == 'scipy' else 'bounded'


def family(variant):
    return family_of(VARIANTS[variant][0])


def derivative_scales(prob, ref_H, ref_B):
    gsc = max(1.0, max(abs(v) for row in ref_B for v in row) ** 0.5 * len(prob.obs))
    hsc = max(1.0, max(abs(v) for row in ref_H for v in row))
    bsc = max(1.0, max(abs(v) for row in ref_B for v in row))
    return gsc, hsc, bsc


def check_reported_derivatives(viol, prob, perm, data, xs, ref, tag='', when='', with_bhhh=True):
    """Clause (4): the g / H / BHHH held by a results object are those of the likelihood at ITS estimates xs (template
    order).  `tag` prefixes the clause name when the same results object is looked at again later in a history."""
    import numpy as np

    nf = len(prob.free)
    ref_g, ref_H, ref_B = ref
    gsc, hsc, bsc = derivative_scales(prob, ref_H, ref_B)
    g = [None] * nf
    for pos, v in zip(perm, np.asarray(data.g, dtype=float)):
        g[pos] = float(v)
    bad = [i for i in range(nf) if not abs(g[i] - ref_g[i]) <= 1e-9 * gsc]
    if bad:
        viol(tag + 'gradient-not-at-estimates', f'reported g {g} != reference gradient at x* {ref_g}{when}', expected=ref_g, observed=g)
    Hm = np.asarray(data.H, dtype=float)
    Bm = np.asarray(data.bhhh, dtype=float)
    Hl = [[float(Hm[perm.index(i)][perm.index(j)]) for j in range(nf)] for i in range(nf)]
    Bl = [[float(Bm[perm.index(i)][perm.index(j)]) for j in range(nf)] for i in range(nf)]
    if any(not abs(Hl[i][j] - ref_H[i][j]) <= 1e-9 * hsc for i in range(nf) for j in range(nf)):
        viol(tag + 'hessian-not-at-estimates', f'reported H {Hl} != reference Hessian at x* {ref_H}{when}', expected=ref_H, observed=Hl)
    if with_bhhh and any(not abs(Bl[i][j] - ref_B[i][j]) <= 1e-9 * bsc for i in range(nf) for j in range(nf)):
        viol(tag + 'bhhh-not-at-estimates', f'reported BHHH {Bl} != reference BHHH at x* {ref_B}{when}', expected=ref_B, observed=Bl)


def fdict_weight(fdict):
    """The factor c of the stated likelihood sum_i (c * WG_i) * loglike_i for a dictionary of formulas (None: no
    weight formula, plain sum)."""
    if fdict is None or fdict[1] is None:
        return None
    return 1.0 if fdict[3] == 'var' else WSCALE


def check_run(rec, tpl, rows, prob, refs, bname, lb, ub, bkind, sidx, variant, mode, case, light=False, fdict=None):
    """One real estimation + all per-run oracles.  refs = dict(free=(x, ll), box=(x, ll, act))."""
    import numpy as np

    algo, extra = VARIANTS[variant]
    fam = family(variant)
    nf = len(prob.free)
    start = clip_start(STARTS[sidx][:nf], lb, ub)
    share = (sidx != 1)
    b, made = build_biogeme(tpl, rows, start, lb, ub, variant, share=share, as_dict=(sidx == 2 and fdict is None), fdict=fdict)
    names_lib = list(b.free_beta_names)
    free_names = [prob.names[k] for k in prob.free]
    perm = [free_names.index(nm) for nm in names_lib]  # library position -> template free position
    ftag = '' if fdict is None else f'|formulas={{{fdict[0]},{fdict[1] or "no weight"}}}'
    fctx = '' if fdict is None else f' formulas={fdict} WG={case.get("wvec")} of {list(WVALS)}'

    def viol(clause, what, expected=None, observed=None):
        rec.violation((f'C07|{clause}|family={fam}|bounds={bkind}' if fdict is None else f'C07|{clause}{ftag}'),
                      f'{clause}: {what} [model={case["model"]} '
                      f'table={case["code"]} bounds={bname} lb={lb} ub={ub} start={start} variant={variant} '
                      f'entry={mode}{fctx}]', case, expected=expected, observed=observed)

    if sorted(names_lib) != sorted(free_names):
        viol('free-parameter-set', f'library free names {names_lib} != {free_names}')
        return None
    try:
        r = b.estimate() if mode == 'estimate' else b.quick_estimate()
    except Exception as e:  # noqa: BLE001
        if isinstance(e, RuntimeError):
            rec.retire = True
        rec.case(None, ('raised', type(e).__name__), outcome=('raised', type(e).__name__))
        viol(f'estimation-raised-{type(e).__name__}', f'{type(e).__name__}: {str(e)[:300]}', observed=repr(e)[:300])
        return None
    out = run_oracles(rec, viol, b, made, r, prob, refs, lb, ub, [start], algo, extra, mode, perm, names_lib, light, variant)
    if out is None:
        return None
    xs, xs_lib, ll_rep, conv, infeasible = out['xs'], out['xs_lib'], out['ll'], out['conv'], out['infeasible']
    scale = max(1.0, abs(out['ref_ll']))
    bounded = fam != 'unbounded'
    # (9) history [estimate(), estimate()] on the same object.  The statement speaks about the formulas only (checked
    # above); whether the SAME object restarts from the estimates is observed and counted, not demanded.
    if mode == 'estimate' and not light and sidx == 0 and variant == 'simple_bounds':
        try:
            r2 = b.estimate()
            il2 = r2.data.initLogLike
            if il2 is not None and _rel(float(il2), ll_rep, scale) <= 1e-9:
                rec.count('second_estimate_on_same_object_starts_from_the_estimates')
            else:
                rec.count('second_estimate_on_same_object_restarts_from_the_original_start(not demanded)')
            x2 = [None] * nf
            for pos, v in zip(perm, [float(v) for v in r2.data.betaValues]):
                x2[pos] = v
            ref2 = prob.eval(x2, order=0)[0]
            if not _rel(float(r2.data.logLike), ref2, max(1.0, abs(ref2))) <= 1e-9:
                viol('second-estimate-loglike-not-the-likelihood-at-estimates', f'second estimate() reports logLike '
                     f'{float(r2.data.logLike)!r} at {x2}, the likelihood there is {ref2!r}', expected=ref2,
                     observed=float(r2.data.logLike))
            rec.count('second_estimates')
        except Exception as e:  # noqa: BLE001
            if isinstance(e, RuntimeError):
                rec.retire = True
            viol(f'second-estimate-raised-{type(e).__name__}', f'{type(e).__name__}: {str(e)[:300]}', observed=repr(e)[:300])
    active = out['active']
    if fdict is None:
        rec.case((case['model'], tuple(case['code']), bname, sidx, variant, mode),
                 (case['model'], case['code'], bname, sidx, variant, mode, [_r(v) for v in xs], _r(ll_rep), conv),
                 outcome=(fam, bkind, conv, active if bounded else None, bool(infeasible), mode))
    else:
        wv = tuple(case['wvec'])
        # non-trivial: the weights matter (a weight formula over weights that are not all equal) or must not matter
        # (no weight formula over a column WG that is not 1)
        rec.case(('wdict', case['model'], tuple(case['code']), wv, tuple(fdict), bname, sidx, variant, mode),
                 ('wdict', case['model'], case['code'], list(wv), list(fdict), bname, sidx, variant, mode, [_r(v) for v in xs],
                  _r(ll_rep), conv),
                 outcome=('wdict', fam, fdict[1], len(set(wv)) > 1, conv, mode))
        rec.count('weighted_estimations' if fdict[1] is not None else 'estimations_of_a_dictionary_without_weight_formula')
        if fdict[1] is not None and len(set(wv)) > 1:
            rec.count('weighted_estimations_with_unequal_weights')
    rec.count('estimations')
    if conv:
        rec.count('converged')
    if bounded and any(active):
        rec.count('runs_ending_on_an_active_bound')
    if not bounded and infeasible:
        rec.count('unbounded_algorithm_left_the_box(documented)')
    return dict(b=b, r=r, xs=xs, xs_lib=xs_lib, ll=ll_rep, conv=conv)


def run_oracles(rec, viol, b, made, r, prob, refs, lb, ub, starts, algo, extra, mode, perm, names_lib, light, label,
                pure=False):
    """All per-run oracle clauses (1)-(8) for ONE results object `r` just returned by estimate()/quick_estimate() of `b`.
    `starts`: the candidate starting points of that run over the free parameters in template order (one candidate for a
    first estimation; in a history on one object the original start and the estimates of every earlier estimate(), the
    statement does not say which one a re-estimation of the same object uses).  `algo` / `extra`: the algorithm and the
    options (tolerance, max_iterations) IN FORCE on the object when the run was launched."""
    import numpy as np

    fam = family_of(algo)
    nf = len(prob.free)
    start = starts[0]
    data = r.data
    xs_lib = [float(v) for v in data.betaValues]
    if list(data.betaNames) != names_lib:
        viol('results-names', f'results.betaNames {list(data.betaNames)} != free_beta_names {names_lib}')
        return None
    xs = [None] * nf
    for pos, v in zip(perm, xs_lib):
        xs[pos] = v
    conv = bool(data.convergence)
    ll_rep = float(data.logLike)
    ref_ll, ref_g, ref_H, ref_B = prob.eval(xs)
    ll_starts = [prob.eval(s, order=0)[0] for s in starts]
    ll_start = min(ll_starts)
    if mode == 'estimate' and data.initLogLike is not None:
        # the candidate the run says it started from (a single candidate: that one)
        near = [v for v in ll_starts if _rel(float(data.initLogLike), v, max(1.0, abs(v))) <= 1e-9]
        if near:
            ll_start = near[0]
    # A re-estimation of the same object starts from the values the formulas hold, i.e. the estimates of the previous run
    # (repository commit 6b4a071; with an iteration file it always did).  When that previous run used an algorithm that
    # ignores bounds, these values may lie outside the declared box: such a start is not an admissible starting point
    # (see ASSUMPTIONS: feasibility and "final >= initial" cannot both hold), so the monotonicity clauses are not judged.
    def _outside(pt):
        return any((lb[i] is not None and pt[i] < lb[i] - 1e-10 * abs(lb[i]) - 1e-12)
                   or (ub[i] is not None and pt[i] > ub[i] + 1e-10 * abs(ub[i]) + 1e-12) for i in range(nf))
    start_outside_box = False
    if len(starts) > 1:
        matching = [s_ for s_, v in zip(starts, ll_starts) if v == ll_start]
        start_outside_box = bool(matching) and all(_outside(s_) for s_ in matching)
        if start_outside_box:
            rec.count('reestimations_started_outside_the_box_by_an_earlier_unbounded_run(monotonicity not judged)')
    scale = max(1.0, abs(ref_ll))
    bounded = fam != 'unbounded'
    x_box, ll_box, act_box = refs['box']
    x_free, ll_free = refs['free']
    target_ll = ll_box if bounded else ll_free

    # (1) feasibility
    # (rounding policy: 1e-10 relative + 1e-12 absolute; a step to the boundary may land one ulp outside)
    ftol = lambda v: 1e-10 * abs(v) + 1e-12
    infeasible = [i for i in range(nf) if (lb[i] is not None and xs[i] < lb[i] - ftol(lb[i]))
                  or (ub[i] is not None and xs[i] > ub[i] + ftol(ub[i]))]
    if bounded and infeasible:
        viol('bounds-violated', f'estimate {xs} leaves the box on free parameter(s) {infeasible}', expected=[lb, ub], observed=xs)
    # (2) recomputation: reported logLike is the likelihood at the returned estimates
    if not _rel(ll_rep, ref_ll, scale) <= 1e-9:
        viol('loglike-not-the-likelihood-at-estimates', f'reported logLike {ll_rep!r} but the likelihood at the returned '
             f'estimates {xs} is {ref_ll!r}', expected=ref_ll, observed=ll_rep)
    if not pure:  # (in an operation history the driver adds no call of its own to the object)
        lib_ll = float(b.calculate_likelihood(np.array(xs_lib), scaled=False))
        if not _rel(ll_rep, lib_ll, scale) <= 1e-11:
            viol('loglike-not-recomputed-by-calculate_likelihood', f'logLike {ll_rep!r} != calculate_likelihood(x*) {lib_ll!r}',
                 expected=lib_ll, observed=ll_rep)
    # (3) monotonicity and initial value
    if mode == 'estimate':
        il = data.initLogLike
        if il is None or not _rel(float(il), ll_start, max(1.0, abs(ll_start))) <= 1e-9:
            viol('init-loglike-not-the-likelihood-at-start', f'initLogLike {il!r} but the likelihood at the start {start} '
                 f'is {ll_start!r}' + (f' (likelihood at the candidate starts {starts}: {ll_starts})' if len(starts) > 1 else ''),
                 expected=ll_start if len(starts) == 1 else ll_starts, observed=il)
        if il is not None and ll_rep < float(il) - 1e-9 * scale and not start_outside_box:
            viol('final-below-initial', f'final logLike {ll_rep!r} < initLogLike {il!r}', expected=f'>= {il}', observed=ll_rep)
    if ll_rep < ll_start - 1e-9 * scale and not start_outside_box:
        viol('final-below-likelihood-at-start', f'final logLike {ll_rep!r} < likelihood at the start {ll_start!r}',
             expected=f'>= {ll_start}', observed=ll_rep)
    # (4) reported derivatives are those of the likelihood at x*
    if mode == 'estimate':
        gsc, hsc, bsc = derivative_scales(prob, ref_H, ref_B)
        check_reported_derivatives(viol, prob, perm, data, xs, (ref_g, ref_H, ref_B))
        if not light:
            fo = b.calculate_likelihood_and_derivatives(np.array(xs_lib), scaled=False, hessian=True, bhhh=True)
            if (not np.allclose(fo.gradient, data.g, rtol=1e-11, atol=1e-11 * gsc)
                    or not np.allclose(fo.hessian, data.H, rtol=1e-11, atol=1e-11 * hsc)
                    or not np.allclose(fo.bhhh, data.bhhh, rtol=1e-11, atol=1e-11 * bsc)):
                viol('derivatives-not-recomputed-by-library', 'reported g/H/BHHH differ from '
                     'calculate_likelihood_and_derivatives(x*)', expected=repr(fo.gradient), observed=repr(data.g))
    # (5) nobody beats the reference maximum of its class (feasible points only)
    if not (bounded and infeasible) and ref_ll > target_ll + 1e-8 * scale:
        viol('above-reference-maximum', f'likelihood at x* {ref_ll!r} exceeds the reference maximum {target_ll!r} of the '
             f'{"box" if bounded else "unconstrained"} problem', expected=target_ll, observed=ref_ll)
    # (6) at reported convergence: KKT and agreement with the reference optimum.
    # Tolerances: DESIGN (gradient 1e-2*scale, value 1e-6*scale), widened only to what the algorithms' own stopping
    # rule permits on this problem: relative gradient max_i |g_i|*max(|x_i|,1)/max(|LL|, typf) <= tau with
    # typf = max(1,|LL(start)|), i.e. |g_i| <= tau*S (a start with a very low likelihood legitimately loosens it),
    # propagated through the curvature for the value: gap <= 1/2 g'(-H)^-1 g <= K^2*max|(-H)^-1|*(tau*S)^2.
    tau = float(extra.get('tolerance', DEFAULT_TOLERANCE))
    S = max(1.0, max(abs(v) for v in ll_starts), abs(ref_ll))
    gtol = max(1e-2 * scale, 1.5 * tau * S)
    if 'tolerance' in extra:
        gtol = min(gtol, 100.0 * tau * S)  # a configured (tight) tolerance must be visible in the returned point
    vtol = max(1e-6 * scale, nf * nf * refs['ib'] * (tau * S) ** 2)
    if conv:
        for i in range(nf):
            at_ub = bounded and ub[i] is not None and abs(xs[i] - ub[i]) <= 1e-9
            at_lb = bounded and lb[i] is not None and abs(xs[i] - lb[i]) <= 1e-9
            if at_ub:
                if ref_g[i] < -gtol:
                    viol('converged-but-descent-sign-on-blocked-direction', f'at the upper bound of free parameter {i} '
                         f'the gradient is {ref_g[i]!r} (pointing inside)', expected='>= 0', observed=ref_g[i])
            elif at_lb:
                if ref_g[i] > gtol:
                    viol('converged-but-descent-sign-on-blocked-direction', f'at the lower bound of free parameter {i} '
                         f'the gradient is {ref_g[i]!r} (pointing inside)', expected='<= 0', observed=ref_g[i])
            elif abs(ref_g[i]) > gtol:
                viol('converged-but-gradient-not-zero', f'convergence reported, gradient {ref_g} at x*={xs} in free '
                     f'direction {i}', expected=f'|g| <= {gtol}', observed=ref_g[i])
        if abs(ref_ll - target_ll) > vtol:
            viol('converged-away-from-reference-maximum', f'convergence reported at x*={xs} with LL {ref_ll!r}; reference '
                 f'{"box" if bounded else "unconstrained"} maximum is {target_ll!r} at {x_box if bounded else x_free}',
                 expected=target_ll, observed=ref_ll)
    # (7) option plumbing that is visible in the result: max_iterations is an upper bound
    mi = extra.get('max_iterations')
    if not conv and mi is None and fam != 'scipy':
        # not demanded by the statement as such (it is conditional on reported convergence); on these tiny concave
        # problems every run of the biogeme_optimization algorithms converges on the unchanged tree, so a run that
        # does not is reported (a broken hand-over of the function / derivatives shows up here first)
        viol('no-convergence-on-a-small-concave-problem', f'convergence not reported; returned x*={xs} LL={ref_ll!r}, reference '
             f'maximum {target_ll!r}; cause: {data.optimizationMessages.get("Cause of termination")}', expected='convergence',
             observed=str(data.optimizationMessages.get('Cause of termination')))
    if not conv:
        rec.count('not_converged:' + label)
    if mi is not None:
        nit = data.optimizationMessages.get('Number of iterations')
        try:
            nit = int(nit)
        except (TypeError, ValueError):
            nit = None
        if nit is not None and nit > mi:
            viol('max-iterations-exceeded', f'{nit} iterations with max_iterations={mi}', expected=f'<= {mi}', observed=nit)
    # (8) write-back and fixed parameters
    for k, o in made:
        nm, init, _, _, st = (prob.names[k], prob.init[k], None, None, prob.status[k])
        if st != 0:
            if o.initValue != init or o.status != 1:
                viol('fixed-parameter-touched', f'fixed parameter {nm} is now {o.initValue!r}/status {o.status} (was {init!r})',
                     expected=init, observed=o.initValue)
        else:
            i = prob.free.index(k)
            if mode == 'estimate':
                if o.initValue != xs[i]:
                    viol('estimate-not-written-back', f'after estimate() Beta {nm} has initValue {o.initValue!r}, estimate '
                         f'is {xs[i]!r}', expected=xs[i], observed=o.initValue)
            elif o.initValue == start[i] and start[i] != xs[i]:
                rec.count('quick_estimate_left_the_start_value_in_the_formula(not demanded)')
            elif o.initValue != xs[i] and all(o.initValue != s_[i] for s_ in starts):
                viol('quick-estimate-start-value-corrupted', f'after quick_estimate() Beta {nm} has initValue {o.initValue!r}, '
                     f'neither the start {[s_[i] for s_ in starts] if len(starts) > 1 else start[i]!r} nor the estimate {xs[i]!r}',
                     expected=[s_[i] for s_ in starts] + [xs[i]], observed=o.initValue)
    if mode == 'estimate':
        bv = b.get_beta_values()
        for k in prob.free:  # get_beta_values() lists the free parameters only
            want = xs[prob.free.index(k)]
            if bv.get(prob.names[k]) != want:
                viol('get-beta-values-after-estimation', f'get_beta_values()[{prob.names[k]}] = {bv.get(prob.names[k])!r}, '
                     f'expected {want!r}', expected=want, observed=bv.get(prob.names[k]))
    active = tuple(1 if (ub[i] is not None and abs(xs[i] - ub[i]) <= 1e-9) else -1 if (lb[i] is not None and abs(xs[i] - lb[i]) <= 1e-9)
                   else 0 for i in range(nf))
    return dict(xs=xs, xs_lib=xs_lib, ll=ll_rep, conv=conv, infeasible=infeasible, active=active, ref_ll=ref_ll)


# =========================================================================== bootstrap history
def all_multisets(n):
    return [list(v) for v in itertools.combinations_with_replacement(range(n), n)]


def check_boot_history(rec, tpl, rows, prob, refs, variant, vecs, case, panel=False):
    """History [estimate(run_bootstrap=True) with the resamples `vecs` (owned), calculate_likelihood(x*),
    calculate_likelihood_and_derivatives(x*), estimate()] on one BIOGEME object."""
    import numpy as np
    import numpy.random as npr

    nf = len(prob.free)
    N = [None] * nf
    b, made = build_biogeme(tpl, rows, [0.0] * nf, N, N, variant, boot_samples=len(vecs), panel=panel)

    def resampled(v):
        # rows of the resample: the rows themselves, or both rows of each drawn individual (panel)
        return [rows[i] for i in v] if not panel else [rows[2 * i + t] for i in v for t in (0, 1)]

    names_lib = list(b.free_beta_names)
    free_names = [prob.names[k] for k in prob.free]
    perm = [free_names.index(nm) for nm in names_lib]
    tape = [list(v) for v in vecs]
    used = []

    def fake_randint(low, high=None, size=None, **kw):
        v = tape[len(used)]
        used.append(v)
        return np.array(v, dtype=int)

    def viol(clause, what, expected=None, observed=None):
        rec.violation(f'C07|{clause}|history=[estimate(run_bootstrap{",panel" if panel else ""}),{clause.split(":")[-1]}]',
                      f'{clause}: {what} [model={case["model"]} table={case["code"]} variant={variant} '
                      f'resamples={vecs}]', case, expected=expected, observed=observed)

    saved = npr.randint
    npr.randint = fake_randint
    try:
        try:
            r = b.estimate(run_bootstrap=True)
        finally:
            npr.randint = saved
    except Exception as e:  # noqa: BLE001
        if isinstance(e, RuntimeError):
            rec.retire = True
        rec.case(None, ('boot-raised', type(e).__name__), outcome=('boot-raised', type(e).__name__))
        rec.count('bootstrap_estimation_raised_' + type(e).__name__)
        return
    if len(used) != len(vecs):
        raise RuntimeError(f'harness: resample tape consumed {len(used)} of {len(vecs)}')
    data = r.data
    xs_lib = [float(v) for v in data.betaValues]
    xs = [None] * nf
    for pos, v in zip(perm, xs_lib):
        xs[pos] = v
    ref_ll = prob.eval(xs, order=0)[0]
    scale = max(1.0, abs(ref_ll))
    ll_rep = float(data.logLike)
    if not _rel(ll_rep, ref_ll, scale) <= 1e-9:
        viol('loglike-not-the-likelihood-at-estimates', f'reported logLike {ll_rep!r}, likelihood of the estimation data at '
             f'x* is {ref_ll!r}', expected=ref_ll, observed=ll_rep)
    # the derivatives held by the results are those of the estimation data at x* (looked at BEFORE the object is used
    # again; the reference BHHH sums over rows, the library's over individuals: not compared on panel data)
    check_reported_derivatives(viol, prob, perm, data, xs, prob.eval(xs)[1:], when=' (results of estimate(run_bootstrap=True))',
                               with_bhhh=not panel)
    # the likelihood recomputed at the returned estimates
    after = float(b.calculate_likelihood(np.array(xs_lib), scaled=False))
    differs = not _rel(after, ll_rep, scale) <= 1e-9
    if differs:
        samp = Problem(tpl, resampled(vecs[-1]))
        samp_ll = samp.eval(xs, order=0)[0]
        viol('recomputed-after-bootstrap:calculate_likelihood', f'after estimate(run_bootstrap=True) calculate_likelihood(x*) = '
             f'{after!r} but results.logLike = {ll_rep!r} (the likelihood of the LAST bootstrap sample at x* is {samp_ll!r})',
             expected=ll_rep, observed=after)
    fo = b.calculate_likelihood_and_derivatives(np.array(xs_lib), scaled=False, hessian=True, bhhh=True)
    if not (np.allclose(fo.gradient, data.g, rtol=1e-9, atol=1e-9 * scale) and np.allclose(fo.hessian, data.H, rtol=1e-9, atol=1e-9)
            and np.allclose(fo.bhhh, data.bhhh, rtol=1e-9, atol=1e-9)):
        viol('recomputed-after-bootstrap:calculate_likelihood_and_derivatives', f'after estimate(run_bootstrap=True) the '
             f'derivatives at x* are g={np.asarray(fo.gradient).tolist()} but results hold g={np.asarray(data.g).tolist()}',
             expected=np.asarray(data.g).tolist(), observed=np.asarray(fo.gradient).tolist())
    # bootstrap rows are maxima of the resampled likelihood (only where the reference accepts the resample)
    boot = np.asarray(data.bootstrap, dtype=float)
    for s, v in enumerate(vecs):
        samp = Problem(tpl, resampled(v))
        xo, why = free_optimum(samp)
        if xo is None:
            rec.count('bootstrap_resample_without_reference_optimum')
            continue
        xb = [None] * nf
        for pos, val in zip(perm, boot[s]):
            xb[pos] = float(val)
        lo = samp.eval(xo, order=0)[0]
        lb_ = samp.eval(xb, order=0)[0]
        if abs(lo - lb_) > 1e-5 * max(1.0, abs(lo)):
            viol('bootstrap-row-not-a-maximum-of-its-resample:bootstrap', f'bootstrap row {s} = {xb} has resampled likelihood {lb_!r}, '
                 f'reference maximum of resample {v} is {lo!r} at {xo}', expected=lo, observed=lb_)
    # a second estimation on the same object is an estimation on the estimation data
    try:
        r2 = b.estimate()
        x2_lib = [float(v) for v in r2.data.betaValues]
        x2 = [None] * nf
        for pos, v in zip(perm, x2_lib):
            x2[pos] = v
        ref2 = prob.eval(x2, order=0)[0]
        if not _rel(float(r2.data.logLike), ref2, max(1.0, abs(ref2))) <= 1e-9:
            viol('second-estimate-after-bootstrap-not-on-estimation-data:estimate', f'estimate() after estimate(run_bootstrap=True) '
                 f'reports logLike {float(r2.data.logLike)!r} at {x2}; the likelihood of the estimation data there is {ref2!r}',
                 expected=ref2, observed=float(r2.data.logLike))
    except Exception as e:  # noqa: BLE001
        if isinstance(e, RuntimeError):
            rec.retire = True
        rec.count('second_estimate_raised_' + type(e).__name__)
    nontrivial = any(sorted(v) != list(range(len(v))) for v in vecs)
    rec.case(('boot', panel, case['model'], tuple(case['code']), variant, tuple(map(tuple, vecs))) if nontrivial else None,
             ('boot', case['model'], case['code'], variant, vecs, [_r(v) for v in xs], _r(after)),
             outcome=('boot', differs, len(vecs)))
    rec.count('bootstrap_histories')


# =========================================================================== operation histories on ONE object
# The statement is about every estimation, also the n-th one made with the same BIOGEME object after its options
# were changed, and about what a results object REPORTS, also when it is read after the object has been used again.
LOOSE = [0.5, 0.3, 0.4, 0.2, 0.5][_A]      # a relative-gradient tolerance met after 0-2 iterations
TIGHT = [1e-6, 1e-7, 1e-6, 1e-5, 1e-6][_A]
DEFAULT_MAX_ITERATIONS = 1000
HIST_OPS = {
    # E estimate(), Q quick_estimate(), D0/D1 calculate_likelihood_and_derivatives(start / second point, hessian, bhhh),
    # L1 calculate_likelihood(second point); setters: T tolerance, M max_iterations, A optimization_algorithm
    'narrow': ['E', 'Q', 'D0', 'T:tight', 'T:loose', 'M:2', 'A:LS-BFGS', 'A:simple_bounds'],
    'wide': ['E', 'Q', 'D0', 'D1', 'L1', 'T:tight', 'T:loose', 'T:default', 'M:2', 'M:default', 'A:LS-BFGS',
             'A:simple_bounds', 'A:TR-newton', 'A:scipy', 'A:simple_bounds_BFGS'],
}
OBSERVERS = ('E', 'Q', 'D0', 'D1', 'L1')


def histories(alphabet, depth):
    """Every operation sequence of exactly `depth` operations in normal form: it ends with an operation whose effect
    is observable (a trailing setter is not), contains an estimation, and never sets the same option twice in a row
    (the first value is overwritten unseen).  Every shorter history is a prefix of one of them and all clauses are
    checked after every operation, so the set covers all histories of length <= depth."""
    out = []
    for h in itertools.product(HIST_OPS[alphabet], repeat=depth):
        if h[-1] not in OBSERVERS or not any(o in ('E', 'Q') for o in h):
            continue
        if any(h[i] not in OBSERVERS and h[i + 1] not in OBSERVERS and h[i][0] == h[i + 1][0] for i in range(depth - 1)):
            continue
        out.append(list(h))
    return out


def check_history(rec, tpl, rows, prob, refs, bname, lb, ub, bkind, init, sidx, ops, case):
    """Runs the operations `ops` on ONE BIOGEME object built with init = (algorithm, tolerance or None).
    After every estimation: all per-run clauses with the options in force at that moment.  After every operation: every
    results object obtained earlier in the history still reports the likelihood / g / H / BHHH at its own estimates."""
    import numpy as np

    nf = len(prob.free)
    algo0, tol0 = init
    start = clip_start(STARTS[sidx][:nf], lb, ub)
    p1 = clip_start(STARTS[(sidx + 1) % 3][:nf], lb, ub)
    b, made = build_biogeme(tpl, rows, start, lb, ub, algo0, overrides=(None if tol0 is None else dict(tolerance=tol0)))
    names_lib = list(b.free_beta_names)
    free_names = [prob.names[k] for k in prob.free]
    perm = [free_names.index(nm) for nm in names_lib]
    to_lib = lambda x: np.array([float(x[pos]) for pos in perm])
    cur = dict(algo=algo0, extra=({} if tol0 is None else dict(tolerance=tol0)))
    starts = [start]
    held = []        # results objects obtained so far
    changed = set()  # kinds of options set since the previous estimation
    nrun = 0
    done = []
    summary = []
    ctx = lambda: (f'[model={case["model"]} table={case["code"]} bounds={bname} lb={lb} ub={ub} start={start} '
                   f'object built with algorithm={algo0} tolerance={tol0}; history so far={done}]')

    def later(clause, what, expected=None, observed=None):
        rec.violation(f'C07|earlier-results:{clause}|later-op={done[-1][0]}', f'earlier-results:{clause}: {what} {ctx()}', case,
                      expected=expected, observed=observed)

    for t, op in enumerate(ops):
        done.append(op)
        kind = op[0]
        try:
            if kind in 'EQ':
                mode = 'estimate' if kind == 'E' else 'quick_estimate'
                nrun += 1
                algo, extra = cur['algo'], dict(cur['extra'])
                fam = family_of(algo)
                pattern = ('run1' if nrun == 1 else 'run2+') + (',set:' + ''.join(sorted(changed)) if changed else '')

                def viol(clause, what, expected=None, observed=None):
                    rec.violation(f'C07|{clause}|family={fam}|bounds={bkind}|history={pattern}',
                                  f'{clause}: {what} [entry={mode} with algorithm={algo} options={extra}] {ctx()}', case,
                                  expected=expected, observed=observed)

                if fam == 'scipy' and 'max_iterations' in extra:
                    # algo_parameters is None for scipy: max_iterations is a parameter of the biogeme algorithms only
                    extra.pop('max_iterations')
                    rec.count('history_scipy_run_with_max_iterations_set(not forwarded, not demanded)')
                r = b.estimate() if kind == 'E' else b.quick_estimate()
                out = run_oracles(rec, viol, b, made, r, prob, refs, lb, ub, list(starts), algo, extra, mode, perm, names_lib,
                                  True, 'history:' + algo, pure=True)
                rec.count('history_estimations')
                if nrun > 1 and changed:
                    rec.count('history_reestimations_after_an_option_change')
                changed = set()
                if out is None:
                    break
                if out['conv']:
                    rec.count('history_converged')
                    g = prob.eval(out['xs'], order=1)[1]
                    if extra.get('tolerance') == LOOSE and fam != 'scipy' and max(abs(v) for v in g) > 1e-2 * max(1.0, abs(out['ref_ll'])):
                        rec.count('history_loose_tolerance_runs_stopping_away_from_the_maximum')
                if kind == 'E' and out['xs'] not in starts:
                    starts.append(list(out['xs']))
                held.append(dict(r=r, mode=mode, at=t, xs_lib=[float(v) for v in r.data.betaValues]))
                summary.append((op, [_r(v) for v in out['xs']], _r(out['ll']), out['conv']))
                first_new = len(held) - 1
            else:
                first_new = len(held)
                if op == 'D0':
                    b.calculate_likelihood_and_derivatives(to_lib(start), scaled=False, hessian=True, bhhh=True)
                elif op == 'D1':
                    b.calculate_likelihood_and_derivatives(to_lib(p1), scaled=False, hessian=True, bhhh=True)
                elif op == 'L1':
                    b.calculate_likelihood(to_lib(p1), scaled=False)
                elif kind == 'T':
                    v = dict(tight=TIGHT, loose=LOOSE, default=DEFAULT_TOLERANCE)[op[2:]]
                    b.tolerance = v
                    cur['extra']['tolerance'] = v
                    changed.add('T')
                elif kind == 'M':
                    v = 2 if op == 'M:2' else DEFAULT_MAX_ITERATIONS
                    b.max_iterations = v
                    cur['extra']['max_iterations'] = v
                    changed.add('M')
                elif kind == 'A':
                    b.optimization_algorithm = op[2:]
                    cur['algo'] = op[2:]
                    changed.add('A')
                else:
                    raise RuntimeError(f'harness: unknown operation {op}')
        except Exception as e:  # noqa: BLE001
            if isinstance(e, RuntimeError):
                if str(e).startswith('harness:'):
                    raise
                rec.retire = True
            rec.violation(f'C07|history-operation-raised-{type(e).__name__}|op={kind}', f'operation {op} raised {type(e).__name__}: '
                          f'{str(e)[:300]} {ctx()}', case, observed=repr(e)[:300])
            summary.append((op, 'raised', type(e).__name__))
            break
        # every results object obtained BEFORE this operation must still report what the statement says
        for h in held[:first_new]:
            data = h['r'].data
            now = [float(v) for v in data.betaValues]
            when = f' (results of operation #{h["at"] + 1} read after operation #{t + 1}={op})'
            if now != h['xs_lib']:
                later('estimates-changed', f'betaValues were {h["xs_lib"]}, are now {now}{when}', expected=h['xs_lib'], observed=now)
            xs = [None] * nf
            for pos, v in zip(perm, now):
                xs[pos] = v
            ref_ll, ref_g, ref_H, ref_B = prob.eval(xs)
            if not _rel(float(data.logLike), ref_ll, max(1.0, abs(ref_ll))) <= 1e-9:
                later('loglike-not-the-likelihood-at-estimates', f'logLike {float(data.logLike)!r}, the likelihood at its estimates '
                      f'{xs} is {ref_ll!r}{when}', expected=ref_ll, observed=float(data.logLike))
            if h['mode'] == 'estimate':
                check_reported_derivatives(later, prob, perm, data, xs, (ref_g, ref_H, ref_B), when=when)
            rec.count('history_rechecks_of_earlier_results')
    rec.case(('hist', case['model'], tuple(case['code']), bname, tuple(init), sidx, tuple(ops)),
             ('hist', case['model'], case['code'], bname, list(init), sidx, list(ops), summary),
             outcome=('hist', family_of(algo0), bkind, tuple(x[-1] for x in summary)))
    rec.count('histories')


def hist_plan(tier):
    """(model, rows, step through the table family, alphabet, depth, parts) of the history part."""
    if tier == 'quick':
        return [('L2', 5, 3, 'narrow', 3, 2), ('N2', 3, 3, 'narrow', 3, 2), ('L3G', 4, 8, 'narrow', 3, 2)]
    return [('L2', 5, 3, 'wide', 3, 4), ('N2', 3, 3, 'wide', 3, 4), ('L3G', 4, 8, 'wide', 3, 4), ('L2F', 5, 8, 'wide', 3, 4),
            ('L3', 5, 60, 'wide', 3, 4),
            ('L2', 5, 8, 'narrow', 4, 6), ('N3', 3, 7, 'narrow', 4, 6), ('L3G', 4, 20, 'narrow', 4, 6)]


def _hist_table(rec, task, tpl, rows, prob, xfree, base):
    k = task['k']
    tier = task['tier']
    cfgs = bound_configs(xfree, 'quick', k)
    # the bound configuration, the algorithm and the tolerance the object is built with rotate with the table
    bname, lb, ub, bkind = [c for c in cfgs if c[0] == 'none' or c[3] == 'active'][(k // 2) % 3]
    refs = references(prob, lb, ub, xfree)
    if bkind == 'active' and not any(refs['box'][2]):
        raise RuntimeError(f'harness: bound configuration {bname} is not active at the reference optimum')
    inits = [(ALGOS[k % len(ALGOS)], (None, LOOSE)[k % 2])]
    if tier == 'thorough' and task['depth'] <= 3:
        inits.append((ALGOS[(k + 4) % len(ALGOS)], (LOOSE, TIGHT)[k % 2]))
    hs = histories(task['alphabet'], task['depth'])
    part, parts = task['hpart']
    for init in inits:
        for ops in hs[part::parts]:
            case = dict(base, part='hist', bname=bname, lb=lb, ub=ub, bkind=bkind, init=list(init), sidx=k % 3, ops=ops)
            check_history(rec, tpl, rows, prob, refs, bname, lb, ub, bkind, init, k % 3, ops, case)
    if part == 0:
        rec.sample(dict(base, part='hist', bname=bname, inits=[list(i) for i in inits], alphabet=task['alphabet'],
                        depth=task['depth'], histories=len(hs) * len(inits)))


# =========================================================================== formulas given as a dictionary
# The stated likelihood of a dictionary of formulas is sum_i weight_i * loglike_i: the log likelihood and the weight
# formula may each be declared under either of their documented keywords, in any order, next to further formulas.
LL_KEYS = ('log_like', 'loglike')
W_KEYS = ('weight', 'weights')


def fdicts():
    out = [[lk, wk, wf, 'var', False] for lk in LL_KEYS for wk in W_KEYS for wf in (False, True)]
    out += [['log_like', 'weights', False, 'scaled', True], ['loglike', 'weight', True, 'scaled', True],
            ['log_like', None, False, 'var', False], ['loglike', None, False, 'var', True]]
    return out


def wdict_plan(tier):
    """(model, rows, step through the table family) of the dictionary-of-formulas part; the weight column takes EVERY
    vector over WVALS."""
    if tier == 'quick':
        return [('L2', 4, 2), ('N2', 3, 5), ('L3G', 4, 16)]
    return [('L2', 5, 2), ('N2', 4, 4), ('L3G', 5, 20), ('L2F', 5, 4), ('N3', 4, 9), ('L3', 5, 30)]


def _wdict_table(rec, task, tpl, base, ti):
    tier = task['tier']
    nrows = task['nrows']
    code = base['code']
    variants = ALGOS if tier == 'quick' else QUICK_VARIANTS
    wvecs = list(itertools.product(range(len(WVALS)), repeat=nrows))
    part, parts = task['wpart']
    first = True
    for wi, wvec in list(enumerate(wvecs))[part::parts]:
        rows = make_table(tpl, nrows, code, wvec)
        cache = {}
        for fi, fd in enumerate(fdicts()):
            c = fdict_weight(fd)
            if c not in cache:
                prob = Problem(tpl, rows, weight=c)
                xfree, why = free_optimum(prob)
                if xfree is None:
                    rec.count('weighted_tables_rejected_' + why)
                    rec.case(None, ('rejected', task['model'], code, list(wvec), c, why), outcome=('rejected', why))
                cache[c] = (prob, xfree)
            prob, xfree = cache[c]
            if xfree is None:
                continue
            cfgs = bound_configs(xfree, 'quick', ti + wi)
            bname, lb, ub, bkind = cfgs[(ti + wi + fi) % len(cfgs)]
            refs = references(prob, lb, ub, xfree)
            if bkind == 'active' and not any(refs['box'][2]):
                raise RuntimeError(f'harness: bound configuration {bname} is not active at the reference optimum')
            variant = variants[(ti + 2 * wi + fi) % len(variants)]
            sidx = (ti + wi + fi // 2) % 3
            mode = 'quick_estimate' if (wi + fi) % 4 == 3 else 'estimate'
            case = dict(base, part='wdict', wvec=list(wvec), fdict=fd, bname=bname, lb=lb, ub=ub, bkind=bkind, sidx=sidx,
                        variant=variant, mode=mode)
            out = check_run(rec, tpl, rows, prob, refs, bname, lb, ub, bkind, sidx, variant, mode, case, light=(fi % 3 != 0),
                            fdict=fd)
            if first and out is not None and fd[1] is not None and len(set(wvec)) > 1:
                rec.sample(dict(case, estimates=[_r(v) for v in out['xs']], logLike=_r(out['ll']),
                                reference_optimum=[_r(v) for v in refs['box'][0]], converged=out['conv']))
                first = False


# =========================================================================== iteration file left in the directory
# With save_iterations=True (the library's default) estimate() reads the file __<model name>.iter of the working
# directory, which an earlier estimation of a model of that name has written: the usual sequence "estimate, change the
# status of a parameter, estimate again".  The file is part of the environment of the estimation; the statement holds
# for every estimation of such a sequence (the values of the file are an admissible starting point of the parameters
# that are free in the model at hand).
ITERFIX = [0.25, -0.5, 0.5, -0.25, 0.75][_A]
ITER_NAME = 'm07'


def status_variants(tpl):
    """The model itself and every model obtained by changing the status of ONE parameter: a free parameter fixed at
    ITERFIX, a fixed parameter of a linear term set free (never the scale of the normal density: not concave)."""
    out = [('orig', tpl)]
    for k, p in enumerate(tpl['params']):
        q = dict(tpl, params=[list(x) for x in tpl['params']])
        if p[1] == 0:
            q['params'][k] = [p[0], 1, ITERFIX]
            if not any(x[1] == 0 for x in q['params']):
                continue
            out.append((f'fix{k}', q))
        elif k != tpl.get('sigma'):
            q['params'][k] = [p[0], 0, 0.0]
            out.append((f'free{k}', q))
    return out


def read_iteration_file():
    """name -> value of the file the next estimate() of the model ITER_NAME will find, None if there is none."""
    try:
        with open(f'__{ITER_NAME}.iter', encoding='utf-8') as f:
            lines = f.read().splitlines()
    except OSError:
        return None
    out = {}
    for line in lines:
        name, sep, value = line.rpartition(' = ')
        if not sep:
            raise RuntimeError(f'harness: line {line!r} of the iteration file')
        out[name] = float(value)
    return out


def remove_iteration_file():
    for nm in (f'__{ITER_NAME}.iter', f'__{ITER_NAME}.iter.tmp'):
        try:
            os.remove(nm)
        except OSError:
            pass


def iter_sequences(nvariants, depth):
    """Every sequence of `depth` estimations (variant index, entry point)."""
    steps = [(v, e) for v in range(nvariants) for e in ('E', 'Q')]
    return [list(map(list, s)) for s in itertools.product(steps, repeat=depth)]


def check_iter_history(rec, tpl, rows, wide, sidx, algo, seq, case):
    """Estimations of several models of ONE name in ONE directory with save_iterations=True, a new BIOGEME object each;
    every estimation judged by all per-run clauses against the reference of ITS model.  The start of estimate() is the
    declared one or the declared one overlaid with the values the file holds for the free parameters of the model."""
    variants = status_variants(tpl)
    remove_iteration_file()
    summary = []
    prev = None
    try:
        for t, (vi, entry) in enumerate(seq):
            vname, vt = variants[vi]
            prob = Problem(vt, rows)
            xfree, why = free_optimum(prob)
            if xfree is None:
                rec.count('iteration_file_histories_cut_at_a_model_without_reference_optimum')
                summary.append((vname, 'rejected', why))
                break
            nf = len(prob.free)
            lb = [-20.0] * nf if wide else [None] * nf
            ub = [20.0] * nf if wide else [None] * nf
            bname = bkind = 'wide' if wide else 'none'
            if wide:
                bkind = 'inactive'
            refs = references(prob, lb, ub, xfree)
            declared = [float(STARTS[sidx][k % 3]) for k in prob.free]
            found = read_iteration_file()
            starts = [declared]
            if found is not None and entry == 'E':
                over = [float(found.get(prob.names[k], declared[i])) for i, k in enumerate(prob.free)]
                if over != declared:
                    starts.append(over)
            b, made = build_biogeme(vt, rows, declared, lb, ub, algo, overrides=dict(save_iterations=True))
            if b.modelName != ITER_NAME:
                raise RuntimeError('harness: model name')
            names_lib = list(b.free_beta_names)
            free_names = [prob.names[k] for k in prob.free]
            perm = [free_names.index(nm) for nm in names_lib]
            mode = 'estimate' if entry == 'E' else 'quick_estimate'
            fam = family_of(algo)
            kind = lambda n: n.rstrip('0123456789')
            env = 'no-file' if found is None else f'file-of:{kind(prev)}->{kind(vname)}'
            done = [[variants[v][0], e] for v, e in seq[:t + 1]]

            def viol(clause, what, expected=None, observed=None):
                rec.violation(f'C07|{clause}|family={fam}|save_iterations,{env}',
                              f'{clause}: {what} [entry={mode} algorithm={algo} save_iterations=True; model={case["model"]} '
                              f'table={case["code"]} bounds={bname}; models estimated so far under the name {ITER_NAME} in this '
                              f'directory (fixN / freeN: parameter N of the template fixed at {ITERFIX} / set free)={done}; '
                              f'iteration file found={found}; declared start={declared}]', case, expected=expected,
                              observed=observed)

            if sorted(names_lib) != sorted(free_names):
                viol('free-parameter-set', f'library free names {names_lib} != {free_names}')
                break
            try:
                r = b.estimate() if entry == 'E' else b.quick_estimate()
            except Exception as e:  # noqa: BLE001
                if isinstance(e, RuntimeError):
                    rec.retire = True
                viol(f'estimation-raised-{type(e).__name__}', f'{type(e).__name__}: {str(e)[:300]}', observed=repr(e)[:300])
                summary.append((vname, entry, 'raised', type(e).__name__))
                break
            out = run_oracles(rec, viol, b, made, r, prob, refs, lb, ub, starts, algo, {}, mode, perm, names_lib, True,
                              'iteration-file:' + algo, pure=True)
            rec.count('iteration_file_estimations')
            if found is not None:
                rec.count('iteration_file_estimations_finding_a_file')
                if any(prob.status[k] != 0 and prob.names[k] in found for k in range(prob.K)):
                    rec.count('iteration_file_estimations_finding_a_file_that_names_a_fixed_parameter')
                if len(starts) > 1 and r.data.initLogLike is not None and _rel(
                        float(r.data.initLogLike), prob.eval(starts[1], order=0)[0]) <= 1e-9 < _rel(
                        float(r.data.initLogLike), prob.eval(starts[0], order=0)[0]):
                    rec.count('iteration_file_estimations_started_from_the_file')
            if out is None:
                summary.append((vname, entry, 'no-results'))
                break
            summary.append((vname, entry, [_r(v) for v in out['xs']], _r(out['ll']), out['conv']))
            prev = vname
    finally:
        remove_iteration_file()
    rec.case(('iter', case['model'], tuple(case['code']), wide, sidx, algo, tuple(map(tuple, seq))),
             ('iter', case['model'], case['code'], wide, sidx, algo, seq, summary),
             outcome=('iter', family_of(algo), tuple((x[0].rstrip('0123456789'), x[1], x[-1]) for x in summary)))
    rec.count('iteration_file_histories')


def iter_plan(tier):
    """(model, rows, step through the table family, depth, parts)."""
    if tier == 'quick':
        return [('L2F', 5, 4, 2, 1), ('N2', 3, 4, 2, 1), ('L3G', 4, 12, 2, 1)]
    return [('L2F', 5, 4, 2, 1), ('N2', 4, 6, 2, 1), ('L3G', 5, 30, 2, 1), ('L2', 5, 3, 2, 1), ('N3', 4, 9, 2, 1), ('L3', 5, 40, 2, 1),
            ('L2F', 5, 16, 3, 4), ('N2', 3, 9, 3, 2), ('L3G', 4, 27, 3, 2)]


def _iter_table(rec, task, tpl, rows, base):
    k = task['k']
    nv = len(status_variants(tpl))
    seqs = iter_sequences(nv, task['depth'])
    part, parts = task['ipart']
    for j, seq in list(enumerate(seqs))[part::parts]:
        algo = ALGOS[(k + j) % len(ALGOS)]
        wide = bool((k + j // len(ALGOS)) % 2)
        case = dict(base, part='iter', wide=wide, sidx=k % 3, algo=algo, seq=seq)
        check_iter_history(rec, tpl, rows, wide, k % 3, algo, seq, case)
    if part == 0:
        rec.sample(dict(base, part='iter', variants=[v[0] for v in status_variants(tpl)], depth=task['depth'], histories=len(seqs)))


# =========================================================================== table edited under a live model
# The stated likelihood is the formula applied to the database AS IT IS when the estimation is launched.  The table may
# be edited through the Database interface (remove, scale_column) while the BIOGEME object built on it is alive, before
# or after the object has been used; the reference applies the same edits to its own plain-Python copy of the table.
EDIT_SCALES = [(0.5, 2.0), (2.0, 0.25), (0.5, 1.5), (4.0, 0.5), (0.25, 2.0)][_A]
PANEL_IDS = {
    # identifier of the individual per row (the first N entries for an N-row table); None = cross-sectional data
    'pairs': (1, 1, 2, 2, 3, 3),
    'uneven': (4, 4, 4, 2, 2, 7),     # sizes 3, 2, 1; the identifiers are not increasing: the map is built by sorting
    'triples': (1, 1, 1, 2, 2, 2),
}


def model_columns(tpl):
    """Columns of the table the likelihood depends on and that may be scaled (never the choice: alternative ids)."""
    if tpl['kind'] == 'logit':
        cols = [c for _, terms in tpl['alts'] for _, c in terms if c is not None]
    else:
        cols = [c for _, c in tpl['mean'] if c is not None] + ['Y']
    return sorted(set(cols), key=cols.index)


def sorted_as_panel(rows):
    """The order of the rows after Database.panel(): stable sort on the identifier."""
    i = COLUMNS.index('ID')
    return sorted(rows, key=lambda r: r[i])


def apply_edit(rows, op):
    """Reference of one edit of the table.  'R:i,j' removes the rows that were rows i, j of the ORIGINAL table (they are
    identified by the column U0 = 7 - i, never scaled); 'C:col:j' multiplies the column by EDIT_SCALES[j]."""
    col = {c: i for i, c in enumerate(COLUMNS)}
    if op[0] == 'R':
        gone = {float(7 - int(i)) for i in op[2:].split(',') if i != ''}
        return [list(r) for r in rows if r[col['U0']] not in gone]
    _, c, j = op.split(':')
    out = [list(r) for r in rows]
    for r in out:
        r[col[c]] = r[col[c]] * EDIT_SCALES[int(j)]
    return out


def removal_expression(op, nrows):
    """The expression given to Database.remove for 'R:i,j,...': a comparison with a threshold when the rows form a tail or
    a head of the original table, else the sum of the equality tests (non zero exactly on the rows to remove)."""
    from biogeme.expressions import Variable
    S = sorted(int(i) for i in op[2:].split(',') if i != '')
    u = Variable('U0')
    if not S:
        return u > 100.0
    if len(S) >= 2 and S == list(range(S[0], nrows)):
        return u <= float(7 - S[0])
    if len(S) >= 2 and S == list(range(0, S[-1] + 1)):
        return u >= float(7 - S[-1])
    e = None
    for i in S:
        t = (u == float(7 - i))
        e = t if e is None else e + t
    return e


EDIT_PRE = {'quick': [[], ['E']], 'thorough': [[], ['E'], ['Q'], ['D0']]}
EDIT_POST = {'quick': [['E'], ['Q']], 'thorough': [['E'], ['Q'], ['D0', 'E'], ['L1', 'Q']]}


def edit_sequences(tpl, nrows, tier):
    """Every sequence of edits of the bound: ONE removal of EVERY subset of the rows but the whole table (the empty subset
    included: an expression that is zero everywhere), ONE scaling of every model column by every scale; two edits:
    (removal of one row, scaling) in both orders (quick: one column and scale per order; thorough: every column and
    scale) and (thorough) two removals of one row each."""
    subsets = [S for r in range(0, nrows) for S in itertools.combinations(range(nrows), r)]
    R = lambda S: 'R:' + ','.join(map(str, S))
    cols = model_columns(tpl)
    scalings = [f'C:{c}:{j}' for c in cols for j in range(len(EDIT_SCALES))]
    out = [[R(S)] for S in subsets] + [[c] for c in scalings]
    for S in subsets:
        if len(S) == 1:
            for c in (scalings if tier == 'thorough' else scalings[:1]):
                out.append([R(S), c])
            for c in (scalings if tier == 'thorough' else scalings[-1:]):
                out.append([c, R(S)])
    if tier == 'thorough':
        for i in range(nrows):
            for j in range(nrows):
                if i != j:
                    out.append([R((i,)), R((j,))])
    return out


def edit_histories(tpl, nrows, tier):
    return [pre + ed + post for ed in edit_sequences(tpl, nrows, tier) for pre in EDIT_PRE[tier] for post in EDIT_POST[tier]]


def edit_tables(tpl, rows, ops):
    """The reference table after each operation of the history (list parallel to ops)."""
    out = []
    cur = rows
    for op in ops:
        if op[0] in 'RC' and ':' in op:
            cur = apply_edit(cur, op)
        out.append(cur)
    return out


def check_edit_history(rec, tpl, rows, panel, bname, lb, ub, bkind, algo, sidx, ops, case):
    """Operations `ops` on ONE BIOGEME object and ITS database: E / Q / D0 / L1 as in check_history, 'R:...' =
    database.remove(expression), 'C:col:j' = database.scale_column(col, EDIT_SCALES[j]).  Every estimation is judged by all
    per-run clauses against the reference of the table as it is at that moment; every results object obtained earlier
    keeps reporting the likelihood and derivatives of ITS table at ITS estimates."""
    import numpy as np

    tables = edit_tables(tpl, rows, ops)
    if panel:
        rows = sorted_as_panel(rows)
        tables = [sorted_as_panel(t_) for t_ in tables]
    # reference of every table on which an estimation is launched; a history that estimates on a table without a
    # reference optimum is outside the domain
    probs = {}
    for op, tab in zip(ops, tables):
        if op in ('E', 'Q'):
            key = repr(tab)
            if key not in probs:
                pr = Problem(tpl, tab, panel=panel)
                xf, why = free_optimum(pr) if len(tab) else (None, 'empty_table')
                if xf is None:
                    rec.count('edit_histories_outside_the_domain_' + why)
                    rec.case(None, ('edit-rejected', case['model'], case['code'], list(ops), why), outcome=('edit-rejected', why))
                    return
                probs[key] = (pr, references(pr, lb, ub, xf))
    prob0 = Problem(tpl, rows, panel=panel)
    nf = len(prob0.free)
    start = clip_start(STARTS[sidx][:nf], lb, ub)
    p1 = clip_start(STARTS[(sidx + 1) % 3][:nf], lb, ub)
    b, made = build_biogeme(tpl, rows, start, lb, ub, algo, panel=panel)
    database = b.database
    names_lib = list(b.free_beta_names)
    free_names = [prob0.names[k] for k in prob0.free]
    perm = [free_names.index(nm) for nm in names_lib]
    to_lib = lambda x: np.array([float(x[pos]) for pos in perm])
    fam = family_of(algo)
    data_kind = 'panel' if panel else 'cross-section'
    starts = [start]
    held = []
    done = []
    kinds = ''
    summary = []
    idcol = COLUMNS.index('ID')
    ctx = lambda: (f'[model={case["model"]} table={case["code"]} {data_kind} data'
                   + (f' individuals={[r_[idcol] for r_ in rows]}' if panel else '')
                   + f' bounds={bname} lb={lb} ub={ub} start={start} algorithm={algo}; operations so far on the one BIOGEME '
                   f'object and its database={done} (R:i,j = database.remove of the rows i,j of the original table, C:col:j = '
                   f'database.scale_column(col, {list(EDIT_SCALES)}[j]))]')

    def later(clause, what, expected=None, observed=None):
        rec.violation(f'C07|earlier-results:{clause}|later-op={done[-1][0]}', f'earlier-results:{clause}: {what} {ctx()}', case,
                      expected=expected, observed=observed)

    for t, op in enumerate(ops):
        done.append(op)
        kind = op[0]
        first_new = len(held)
        try:
            if op in ('E', 'Q'):
                mode = 'estimate' if op == 'E' else 'quick_estimate'
                prob, refs = probs[repr(tables[t])]
                pattern = f'live-model,{data_kind},edits={kinds or "none"}'

                def viol(clause, what, expected=None, observed=None):
                    rec.violation(f'C07|{clause}|family={fam}|{pattern}',
                                  f'{clause}: {what} [entry={mode}; the table has {len(tables[t])} rows at this moment] {ctx()}',
                                  case, expected=expected, observed=observed)

                r = b.estimate() if op == 'E' else b.quick_estimate()
                out = run_oracles(rec, viol, b, made, r, prob, refs, lb, ub, list(starts), algo, {}, mode, perm, names_lib,
                                  True, 'edit:' + algo, pure=True)
                rec.count('edit_estimations')
                if kinds:
                    rec.count('edit_estimations_on_an_edited_table')
                    if 'C' in kinds:
                        rec.count('edit_estimations_after_scale_column')
                    if len(tables[t]) == len(rows):
                        rec.count('edit_estimations_on_an_edited_table_with_the_original_number_of_rows')
                    if panel and len(tables[t]) != len(rows) and (
                            len({r_[idcol] for r_ in tables[t]}) == len({r_[idcol] for r_ in rows})):
                        rec.count('edit_panel_estimations_after_removals_that_keep_every_individual')
                    if panel and len({r_[idcol] for r_ in tables[t]}) != len({r_[idcol] for r_ in rows}):
                        rec.count('edit_panel_estimations_after_the_removal_of_whole_individuals')
                if out is None:
                    summary.append((op, 'no-results'))
                    break
                if op == 'Q' and r.data.initLogLike is not None:
                    # quick_estimate() calculates no initial log likelihood: its results carry the one an earlier
                    # estimate() of the object has left.  The statement: the final one is not lower than the initial one.
                    il = float(r.data.initLogLike)
                    own = [prob.eval(s_, order=0)[0] for s_ in starts]
                    if not any(_rel(il, v, max(1.0, abs(v))) <= 1e-9 for v in own):
                        rec.count('quick_estimate_results_carrying_the_initial_log_likelihood_of_the_table_before_the_edit')
                        if out['ll'] < il - 1e-9 * max(1.0, abs(il)):
                            rec.violation('C07|final-below-initial|entry=quick_estimate|initLogLike left by estimate() on the table before the edit',
                                          f'final-below-initial: the results of quick_estimate() report logLike {out["ll"]!r} next to '
                                          f'initLogLike {il!r}; the likelihood of the table at this moment at the candidate starts '
                                          f'{starts} is {own}: the initial value is the one an earlier estimate() has calculated on the '
                                          f'table before the edit {ctx()}', case, expected=f'initLogLike None or in {own}, <= logLike',
                                          observed=[il, out['ll']])
                if op == 'E' and out['xs'] not in starts:
                    starts.append(list(out['xs']))
                held.append(dict(r=r, mode=mode, at=t, xs_lib=[float(v) for v in r.data.betaValues], prob=prob))
                summary.append((op, [_r(v) for v in out['xs']], _r(out['ll']), out['conv']))
            elif op == 'D0':
                b.calculate_likelihood_and_derivatives(to_lib(start), scaled=False, hessian=True, bhhh=True)
            elif op == 'L1':
                b.calculate_likelihood(to_lib(p1), scaled=False)
            elif kind == 'R':
                database.remove(removal_expression(op, len(rows)))
                kinds += 'R'
            elif kind == 'C':
                _, c, j = op.split(':')
                database.scale_column(c, EDIT_SCALES[int(j)])
                kinds += 'C'
            else:
                raise RuntimeError(f'harness: unknown operation {op}')
        except Exception as e:  # noqa: BLE001
            if isinstance(e, RuntimeError):
                if str(e).startswith('harness:'):
                    raise
                rec.retire = True
            rec.violation(f'C07|edit-history-operation-raised-{type(e).__name__}|op={kind}|{data_kind}',
                          f'operation {op} raised {type(e).__name__}: {str(e)[:300]} {ctx()}', case, observed=repr(e)[:300])
            summary.append((op, 'raised', type(e).__name__))
            break
        if kind in 'RC' and ':' in op:
            # the harness's own reference of the table follows the database (guards the oracle, not the library's likelihood)
            n_now = len(database.data.index)
            if n_now != len(tables[t]):
                rec.violation(f'C07|edited-table-size|op={kind}|{data_kind}', f'after {op} the database has {n_now} rows, the '
                              f'reference table {len(tables[t])} {ctx()}', case, expected=len(tables[t]), observed=n_now)
                break
        for h in held[:first_new]:
            data = h['r'].data
            now = [float(v) for v in data.betaValues]
            when = f' (results of operation #{h["at"] + 1} read after operation #{t + 1}={op})'
            if now != h['xs_lib']:
                later('estimates-changed', f'betaValues were {h["xs_lib"]}, are now {now}{when}', expected=h['xs_lib'], observed=now)
            xs = [None] * nf
            for pos, v in zip(perm, now):
                xs[pos] = v
            ref_ll, ref_g, ref_H, ref_B = h['prob'].eval(xs)
            if not _rel(float(data.logLike), ref_ll, max(1.0, abs(ref_ll))) <= 1e-9:
                later('loglike-not-the-likelihood-at-estimates', f'logLike {float(data.logLike)!r}, the likelihood of its table at '
                      f'its estimates {xs} is {ref_ll!r}{when}', expected=ref_ll, observed=float(data.logLike))
            if h['mode'] == 'estimate':
                check_reported_derivatives(later, h['prob'], perm, data, xs, (ref_g, ref_H, ref_B), when=when)
            rec.count('history_rechecks_of_earlier_results')
    rec.case(('edit', case['model'], tuple(case['code']), case.get('ids'), bname, algo, sidx, tuple(ops)),
             ('edit', case['model'], case['code'], case.get('ids'), bname, algo, sidx, list(ops), summary),
             outcome=('edit', data_kind, kinds, fam, bkind, tuple(x[-1] for x in summary)))
    rec.count('edit_histories')


def edit_plan(tier):
    """(model, rows, identifiers of the individuals or None, step through the table family, parts)."""
    if tier == 'quick':
        return [('L2', 6, 'pairs', 48, 6), ('N2', 4, 'uneven', 60, 3), ('N2', 5, None, 180, 3), ('L1', 5, None, 24, 3)]
    return [('L2', 6, 'pairs', 48, 60), ('L2', 6, 'uneven', 48, 60), ('L1', 6, 'triples', 48, 60), ('N2', 5, 'uneven', 200, 60),
            ('N2', 5, 'pairs', 170, 60), ('N2', 5, None, 180, 24), ('L1', 6, None, 48, 24), ('L2F', 6, None, 48, 24),
            ('N3', 5, None, 200, 24), ('L3G', 6, None, 700, 48)]


def _edit_table(rec, task, tpl, base):
    k = task['k']
    tier = task['tier']
    nrows = task['nrows']
    ids = None if task['ids'] is None else list(PANEL_IDS[task['ids']][:nrows])
    panel = ids is not None
    rows = make_table(tpl, nrows, base['code'], ids=ids)
    if free_optimum(Problem(tpl, rows, panel=panel))[0] is None:
        rec.count('edit_tables_rejected')
        return
    hs = edit_histories(tpl, nrows, tier)
    part, parts = task['epart']
    finals = {}
    for j, ops in list(enumerate(hs))[part::parts]:
        # the bounds are declared when the object is built; they are derived from the reference optimum of the table the
        # LAST estimation of the history works on (none / upper bound active there / lower bound active there, rotating)
        final = edit_tables(tpl, rows, ops)[-1]
        key = repr(final)
        if key not in finals:
            finals[key] = free_optimum(Problem(tpl, final, panel=panel))[0] if final else None
        xfin = finals[key]
        if xfin is None:
            rec.count('edit_histories_outside_the_domain_final_table')
            rec.case(None, ('edit-rejected', task['model'], base['code'], ops), outcome=('edit-rejected', 'final'))
            continue
        cfgs = bound_configs(xfin, 'quick', k + j)
        bname, lb, ub, bkind = [c for c in cfgs if c[0] == 'none' or c[3] == 'active'][(k + j // 2) % 3]
        algo = ALGOS[(k + j) % len(ALGOS)]
        sidx = (k + j // len(ALGOS)) % 3
        case = dict(base, part='edit', ids=ids, bname=bname, lb=lb, ub=ub, bkind=bkind, algo=algo, sidx=sidx, ops=ops)
        check_edit_history(rec, tpl, rows, panel, bname, lb, ub, bkind, algo, sidx, ops, case)
    if part == 0:
        rec.sample(dict(base, part='edit', ids=ids, histories=len(hs), edit_sequences=len(edit_sequences(tpl, nrows, tier)),
                        before=EDIT_PRE[tier], after=EDIT_POST[tier]))



# =========================================================================== tasks
def model_plan(tier):
    """(model, rows in the table) per tier; the table family is ALL codes over those rows."""
    if tier == 'quick':
        return [('L1', 5), ('L2', 5), ('L2F', 5), ('N1', 3), ('N2', 3), ('N3', 3), ('L3G', 4), ('L3', 4)]
    return [('L1', 6), ('L2', 6), ('L2F', 6), ('N1', 4), ('N2', 4), ('N3', 4), ('L3G', 5), ('L3', 5)]


def nsymbols(tpl):
    return len(tpl['alts']) if tpl['kind'] == 'logit' else len(YVALS)


def tasks(tier, seed):
    T = templates()
    out = []
    chunk = 4 if tier == 'quick' else 3
    for model, nrows in model_plan(tier):
        tpl = T[model]
        codes = list(itertools.product(range(nsymbols(tpl)), repeat=nrows))
        for i in range(0, len(codes), chunk):
            out.append(dict(part='est', model=model, nrows=nrows, first=i, codes=[list(c) for c in codes[i:i + chunk]], tier=tier))
    # bootstrap histories: tables of a sub-family x every multiset resample
    for model, nrows in [('L2', 4), ('N2', 3), ('L3G', 4)] if tier == 'quick' else [('L2', 5), ('N2', 4), ('N3', 4), ('L3G', 4), ('L2F', 5)]:
        tpl = T[model]
        codes = list(itertools.product(range(nsymbols(tpl)), repeat=nrows))
        step = (3 if nsymbols(tpl) == 2 else 9) if tier == 'quick' else 4
        for i in range(0, len(codes), step):
            out.append(dict(part='boot', model=model, nrows=nrows, first=i, codes=[list(codes[i])], tier=tier))
    # the same on panel data (3 individuals x 2 rows; the individual map is resampled)
    for model in ['L2'] if tier == 'quick' else ['L2', 'L2F', 'L3G']:
        tpl = T[model]
        codes = list(itertools.product(range(nsymbols(tpl)), repeat=6))
        step = 4 if tier == 'quick' else (2 if nsymbols(tpl) == 2 else 9)
        for i in range(0, len(codes), step):
            out.append(dict(part='boot', panel=True, model=model, nrows=6, first=i, codes=[list(codes[i])], tier=tier))
    # operation histories on one object: tables of a sub-family x (bounds, algorithm, tolerance at construction) x every
    # history in normal form of the given depth over the operation alphabet
    k = 0
    for model, nrows, step, alphabet, depth, parts in hist_plan(tier):
        tpl = T[model]
        codes = list(itertools.product(range(nsymbols(tpl)), repeat=nrows))
        for i in range(step // 2, len(codes), step):
            for part in range(parts):
                out.append(dict(part='hist', model=model, nrows=nrows, first=i, codes=[list(codes[i])], tier=tier, k=k,
                                alphabet=alphabet, depth=depth, hpart=[part, parts]))
            k += 1
    # formulas given as a dictionary: tables of a sub-family x EVERY weight vector over WVALS x keyword / order / form
    # alphabet of the dictionary (algorithm, bounds, start and entry point rotate)
    for model, nrows, step in wdict_plan(tier):
        tpl = T[model]
        codes = list(itertools.product(range(nsymbols(tpl)), repeat=nrows))
        parts = max(1, (len(WVALS) ** nrows) // 16)
        for i in range(step // 2, len(codes), step):
            for part in range(parts):
                out.append(dict(part='wdict', model=model, nrows=nrows, first=i, codes=[list(codes[i])], tier=tier,
                                wpart=[part, parts]))
    # sequences of estimations of models of one name in one directory with save_iterations=True (iteration file)
    k = 0
    for model, nrows, step, depth, parts in iter_plan(tier):
        tpl = T[model]
        codes = list(itertools.product(range(nsymbols(tpl)), repeat=nrows))
        for i in range(step // 2, len(codes), step):
            for part in range(parts):
                out.append(dict(part='iter', model=model, nrows=nrows, first=i, codes=[list(codes[i])], tier=tier, k=k,
                                depth=depth, ipart=[part, parts]))
            k += 1
    # table edited through the Database interface under a live model: tables of a sub-family (cross-sectional and panel)
    # x every history (operations before) + (edit sequence) + (operations after)
    k = 0
    for model, nrows, ids, step, parts in edit_plan(tier):
        tpl = T[model]
        codes = list(itertools.product(range(nsymbols(tpl)), repeat=nrows))
        for i in range(step // 2, len(codes), step):
            for part in range(parts):
                out.append(dict(part='edit', model=model, nrows=nrows, ids=ids, first=i, codes=[list(codes[i])], tier=tier, k=k,
                                epart=[part, parts]))
            k += 1
    return out


def references(prob, lb, ub, xfree):
    box = box_optimum(prob, lb, ub, xfree)
    if box is None:
        raise RuntimeError(f'reference: no KKT point found for lb={lb} ub={ub}')
    return dict(free=(xfree, prob.eval(xfree, order=0)[0]), box=box, ib=inv_bound(prob, xfree))


def run_task(task):
    rec = Rec()
    T = templates()
    tpl = T[task['model']]
    tier = task['tier']
    for off, code in enumerate(task['codes']):
        ti = task['first'] + off
        if task['part'] == 'wdict':
            _wdict_table(rec, task, tpl, dict(model=task['model'], nrows=task['nrows'], code=list(code)), ti)
            continue
        if task['part'] == 'edit':
            _edit_table(rec, task, tpl, dict(model=task['model'], nrows=task['nrows'], code=list(code)))
            continue
        rows = make_table(tpl, task['nrows'], code)
        if task['part'] == 'iter':
            _iter_table(rec, task, tpl, rows, dict(model=task['model'], nrows=task['nrows'], code=list(code)))
            continue
        prob = Problem(tpl, rows)
        xfree, why = free_optimum(prob)
        if xfree is None:
            rec.count('tables_rejected_' + why)
            rec.case(None, ('rejected', task['model'], code, why), outcome=('rejected', why))
            continue
        rec.count('tables_accepted')
        base = dict(model=task['model'], nrows=task['nrows'], code=list(code))
        if task['part'] == 'boot':
            _boot_table(rec, tpl, rows, prob, xfree, base, ti, tier, panel=bool(task.get('panel')))
            continue
        if task['part'] == 'hist':
            _hist_table(rec, task, tpl, rows, prob, xfree, base)
            continue
        full = (ti % 4 == 0)
        cfgs = bound_configs(xfree, tier, ti)
        variants = QUICK_VARIANTS if tier == 'quick' else THOROUGH_VARIANTS
        first = True
        for bname, lb, ub, bkind in cfgs:
            refs = references(prob, lb, ub, xfree)
            if bkind == 'active' and not any(refs['box'][2]):
                raise RuntimeError(f'harness: bound configuration {bname} is not active at the reference optimum')
            if bkind != 'active' and abs(refs['box'][1] - refs['free'][1]) > 1e-9:
                raise RuntimeError(f'harness: inactive configuration {bname} changes the reference optimum')
            if full:
                plan = [(0, v, 'estimate') for v in variants]
                others = variants if tier == 'quick' else [v for v in variants if v in ALGOS or v.endswith('@tol')]
                plan += [(s, v, 'estimate') for s in (1, 2) for v in others]
                plan += [(0, v, 'quick_estimate') for v in ALGOS]
            elif bname in ('none',) or bkind == 'active':
                plan = [(ti % 3, v, 'estimate') for v in ALGOS]
                plan += [(ti % 3, ALGOS[(ti + j) % len(ALGOS)], 'quick_estimate') for j in range(2)]
            else:
                plan = []
            for sidx, variant, mode in plan:
                case = dict(base, part='est', bname=bname, lb=lb, ub=ub, bkind=bkind, sidx=sidx, variant=variant, mode=mode)
                out = check_run(rec, tpl, rows, prob, refs, bname, lb, ub, bkind, sidx, variant, mode, case,
                                light=not full)
                if first and out is not None:
                    rec.sample(dict(case, estimates=[_r(v) for v in out['xs']], logLike=_r(out['ll']),
                                    reference_optimum=[_r(v) for v in refs['box'][0]], converged=out['conv']))
                    first = False
    return rec.result()


def _boot_table(rec, tpl, rows, prob, xfree, base, ti, tier, panel=False):
    n = len(rows) // 2 if panel else len(rows)
    nf = len(prob.free)
    N = [None] * nf
    refs = references(prob, N, N, xfree)
    ident = list(range(n))
    ms = all_multisets(n)
    variants = ['simple_bounds', 'scipy', 'LS-newton', 'TR-BFGS']
    variant = variants[ti % len(variants)]
    hist = [[v] for v in ms]
    hist += [[v, ident] for v in ms if v != ident] + [[ident, v] for v in ms if v != ident]
    if tier == 'thorough':
        hist += [[ms[0], v, ms[-1]] for v in ms]
    for vecs in hist:
        case = dict(base, part='boot', panel=panel, variant=variant, vecs=vecs)
        check_boot_history(rec, tpl, rows, prob, refs, variant, vecs, case, panel=panel)
    rec.sample(dict(base, part='boot', panel=panel, variant=variant, histories=len(hist)))


# =========================================================================== replay
def replay(case):
    rec = Rec()
    T = templates()
    tpl = T[case['model']]
    if case['part'] == 'iter':
        import shutil
        import tempfile
        rows = make_table(tpl, case['nrows'], case['code'])
        here = os.getcwd()
        private = tempfile.mkdtemp(prefix='c07_iter_')  # the iteration file of the directory is part of the case
        os.chdir(private)
        try:
            check_iter_history(rec, tpl, rows, case['wide'], case['sidx'], case['algo'], case['seq'], case)
        finally:
            os.chdir(here)
            shutil.rmtree(private, ignore_errors=True)
        return rec.violations
    if case['part'] == 'edit':
        rows = make_table(tpl, case['nrows'], case['code'], ids=case['ids'])
        check_edit_history(rec, tpl, rows, case['ids'] is not None, case['bname'], case['lb'], case['ub'], case['bkind'],
                           case['algo'], case['sidx'], case['ops'], case)
        return rec.violations
    if case['part'] == 'wdict':
        rows = make_table(tpl, case['nrows'], case['code'], case['wvec'])
        prob = Problem(tpl, rows, weight=fdict_weight(case['fdict']))
        xfree, why = free_optimum(prob)
        if xfree is None:
            return []
        refs = references(prob, case['lb'], case['ub'], xfree)
        check_run(rec, tpl, rows, prob, refs, case['bname'], case['lb'], case['ub'], case['bkind'], case['sidx'],
                  case['variant'], case['mode'], case, fdict=case['fdict'])
        return rec.violations
    rows = make_table(tpl, case['nrows'], case['code'])
    prob = Problem(tpl, rows)
    xfree, why = free_optimum(prob)
    if xfree is None:
        return []
    if case['part'] == 'boot':
        nf = len(prob.free)
        refs = references(prob, [None] * nf, [None] * nf, xfree)
        check_boot_history(rec, tpl, rows, prob, refs, case['variant'], case['vecs'], case, panel=bool(case.get('panel')))
    elif case['part'] == 'hist':
        refs = references(prob, case['lb'], case['ub'], xfree)
        check_history(rec, tpl, rows, prob, refs, case['bname'], case['lb'], case['ub'], case['bkind'], tuple(case['init']),
                      case['sidx'], case['ops'], case)
    else:
        refs = references(prob, case['lb'], case['ub'], xfree)
        check_run(rec, tpl, rows, prob, refs, case['bname'], case['lb'], case['ub'], case['bkind'], case['sidx'],
                  case['variant'], case['mode'], case)
    return rec.violations


# =========================================================================== cross-task guards
def finalize(agg, tier, seed):
    """Vacuity guards (harness errors, not violations): the space must really contain converged runs, runs that end
    on an active bound, documented box-leaving runs of the unbounded algorithms and bootstrap histories."""
    need = ['estimations', 'converged', 'runs_ending_on_an_active_bound', 'unbounded_algorithm_left_the_box(documented)',
            'bootstrap_histories', 'tables_accepted', 'second_estimates', 'histories', 'history_estimations',
            'history_reestimations_after_an_option_change', 'history_rechecks_of_earlier_results',
            'history_loose_tolerance_runs_stopping_away_from_the_maximum',
            'weighted_estimations_with_unequal_weights', 'estimations_of_a_dictionary_without_weight_formula',
            'iteration_file_histories', 'iteration_file_estimations_finding_a_file_that_names_a_fixed_parameter',
            'iteration_file_estimations_started_from_the_file',
            'edit_histories', 'edit_estimations_on_an_edited_table', 'edit_estimations_after_scale_column',
            'edit_estimations_on_an_edited_table_with_the_original_number_of_rows',
            'edit_panel_estimations_after_removals_that_keep_every_individual',
            'edit_panel_estimations_after_the_removal_of_whole_individuals']
    for n in need:
        if agg.counts.get(n, 0) == 0 and not agg.harness_errors:
            agg.harness_errors.append((f'vacuous exploration: counter {n} is zero', {}))
    c = agg.counts
    if c.get('estimations') and c.get('converged', 0) < 0.5 * c['estimations']:
        agg.harness_errors.append((f"vacuous exploration: only {c.get('converged', 0)} of {c['estimations']} runs report convergence", {}))
