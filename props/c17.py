"""C17 — specification helpers equal their documented closed forms.

Bounded exhaustive exploration on the real code.  Every helper is built through its public
constructor and evaluated by the real engine on a small table whose rows hold the argument
grid (one engine call = one value per row); the reference is the documented closed form
written in plain Python (``math`` only, no biogeme import).

 (pw)   piecewise_variables / piecewise_formula / piecewise_as_variable (engine) and
        piecewise_function (Python): all admissible threshold lists of length 2..4 over a
        menu of 5 values (thorough: 2..5 over 6 values; None only at the ends, non-zero first
        thresholds included; the all-None lists must be refused) x an argument grid containing
        every threshold -0.5 / -1ulp / +0 / +1ulp / +0.5, interval midpoints and far points x
        all coefficient vectors over a menu of 3 values x the ways of passing coefficients
        (free / fixed Beta, number, value through ``betas=``, default parameters) x variable
        given by name / object.
 (bc)   boxcox: x menu (1e-3 .. 1e3) x lambda menu straddling the switching point 1e-5 (its two
        floating-point neighbours included) and zero x the ways of passing lambda (number,
        free / fixed Beta, ``betas=`` value, table column) x x as column / constant.
 (dist) normalpdf, lognormalpdf, uniformpdf, triangularpdf, logisticcdf,
        (log)likelihoodregression: parameter menus x argument grids containing every kink and
        its two floating-point neighbours x ways of passing the parameters (number, Numeric,
        free / fixed Beta, ``betas=`` value, expression of a Beta, table column, defaults);
        integral over the support by composite Simpson on engine-evaluated values.
        loglikelihoodregression additionally with every scale of the menu NEGATED: its documented closed form
        uses sigma only through sigma^2 (no positivity note, no guard, sigma is 'typically a parameter'), so a
        negative sigma is inside its domain and gives the value of |sigma|.  The density helpers document
        sigma > 0 and the documented phi((y-m)/sigma)/sigma of likelihoodregression is negative there: a
        negative scale is outside their domain (likelihoodregression is evaluated and counted, not compared).
 (seg)  Segmentation.segmented_beta / segmented_code / segmented_beta(): 0..2 (thorough: 3)
        discrete variables x 2..3 categories x every reference (and None) x parameter
        configurations (value, bounds, status) x every row (all value combinations + an unmapped
        value); the generated code is executed and must give the same values and the same
        parameter set (names, values, bounds, status).
        Merged levels: mappings that give the SAME category name to several values - every surjection of 3
        (thorough: also 4) values onto 2 (thorough: 2..3) names, i.e. every position of the repeated name -
        x every reference (and None), alone and next to a plain second variable on either side (thorough:
        both merged): every value of the reference category evaluates to the reference value alone, the
        repeated non-reference name stands for ONE shift parameter.
        Ways of supplying the segmentations: the three entry points - class Segmentation, function
        segmented_beta() and its deprecated alias segment_parameter() - declare Iterable[DiscreteSegmentationTuple].
        Every basic structure (none / one / two variables, every reference; thorough: three variables, merged
        levels) x every kind of iterable (list, tuple, generator, list iterator, filter, map, itertools.chain, dict
        values view, deque, a one-shot Iterable class, a re-iterable non-Sized class, numpy object array) x every entry point x call histories (class: the orders
        b,c / c,b / b,b,c / c,b,c,b of segmented_beta() and segmented_code() on ONE object; function and alias:
        once, or twice with the same re-iterable container object) x arguments positional / keyword / default
        prefix, parameter configurations rotating.  Same oracle: value = reference + shift on every row,
        parameter set, executed generated code.
 (nest) NestsForNestedLogit.correlation: every subset left alone x every set partition of the
        rest for 2..4 (thorough: 5) alternatives x two labelings x nest-parameter kinds (number,
        free / fixed Beta, expression) x ``parameters=`` (none, all, partial) x mu x names (none,
        in choice-set order, in another order); entries are looked up by label.
        Listing orders: every structure additionally in EVERY order of writing it down - all
        permutations of the tuple of nests x all permutations of the member list of every nest
        (the choice set itself is unsorted in the second labeling) - x labelings x all
        nest-parameter kinds, the remaining options rotating.  The statement does not depend on
        the order in which a nest lists its alternatives, nor on the order of the nests.
"""
from __future__ import annotations

import itertools
import math
import os

from vf.rec import Rec

ID = 'C17'
LEVEL = 'exploration'
TECHNIQUE = ('bounded exhaustive enumeration of helper configurations (threshold lists, coefficient vectors, '
             'transform / distribution parameters, segmentations, nest structures) x argument grids, each built '
             'through the public helper, evaluated by the real engine and compared with the documented closed form')
RULE = ('one case per (helper, configuration, way of passing parameters, argument row) value compared with the '
        'closed form, plus one per integral / parameter-set / generated-code / correlation-entry comparison; '
        'non-trivial = the reference value is informative: piecewise argument beyond the first threshold, '
        'Box-Cox x not in {0,1}, density inside the support or on a kink, segmented row in a non-reference '
        'segment or on a level merged into the reference category, correlation entry of two alternatives in the same nest (or an integral / parameter-set check); '
        'distinct = distinct (helper, configuration, passing form, argument) keys')
ASSUMPTIONS = [
    'continuous arguments and parameters are covered on finite grids that contain every threshold / kink / the '
    'Box-Cox switching point and their neighbours; values strictly between grid points are not explored',
    'density constants are given with 10 significant digits in the library (sqrt(2 pi), log(2 pi)/2): densities '
    'are compared to 1e-9 relative, the regression log likelihood to 1e-10 absolute + 1e-10 relative; everything '
    'else to 1e-10 relative + 1e-12 absolute; the regular Box-Cox branch (x^l-1)/l gets the cancellation '
    'allowance 16 eps max(1,x^l)/|l|',
    'Box-Cox at x = 0 returns 0 by an explicit guard in the library; the closed form is undefined there for '
    'l <= 0 and the row is counted as out of domain (observed, not compared)',
    'an open first piecewise interval is measured from the origin (min(x, t1)), the convention shared by '
    'piecewise_variables and piecewise_function; the documentation gives no closed form for it',
    'the 4th Box-Cox series term (l^3 log(x)^4 / 24 <= 1e-13 relative) and the 10th digit of sqrt(2 pi) are below '
    'the comparison tolerance: changes confined to them are not observable',
    'integrals are composite Simpson sums on engine-evaluated nodes (panels aligned with the kinks; lognormal in '
    'the variable log x); tolerance 1e-6',
    'the engine arithmetic (exp, log, pow, comparisons) is exercised, not separately modelled',
    'a negative scale is explored for loglikelihoodregression only (documented form in sigma^2); for the density '
    'helpers (documented sigma > 0) and likelihoodregression (documented phi(.)/sigma < 0 there) it is out of domain',
]
ANCHOR_FILES = ['src/biogeme/models/piecewise.py', 'src/biogeme/models/boxcox.py', 'src/biogeme/distributions.py',
                'src/biogeme/loglikelihood.py', 'src/biogeme/segmentation.py', 'src/biogeme/nests.py']
DETERMINISM_SLICE = 3
EPS = 2.220446049250313e-16


# =========================================================================== alphabets
def alph(seed: int) -> dict:
    """VERIF_SEED selects one of four value alphabets; each run is exhaustive over its own."""
    k = int(seed) % 4
    return dict(
        th_values=[[-5, 0, 10, 20, 35], [-7.5, 0, 2.5, 12, 30], [-20, -3, 0, 6.25, 18], [-1, 0, 0.5, 4, 100]][k],
        coefs=[[-1, 0.5, 2], [-2, 0.25, 3], [1.5, -0.5, 4], [-3, 1, 0.125]][k],
        bc_x=[[0, 0.001, 0.5, 1, 2, 10, 1000], [0, 0.002, 0.25, 1, 3, 7.5, 800], [0, 0.004, 0.8, 1, 1.25, 100, 1500],
              [0, 0.003, 0.1, 1, 5, 40, 600]][k],
        bc_far=[[1e-3, 0.5, 1, 2], [2e-3, 0.25, 1, 3], [1e-4, 0.75, 1, -2], [5e-3, 0.3, 1, 1.5]][k],
        loc=[[0.0, -1.5, 2.0], [0.0, 0.75, -3.0], [0.0, 10.0, -0.25], [0.0, 1.0, -8.0]][k],
        scale=[[1.0, 0.5, 3.0], [1.0, 0.4, 2.5], [1.0, 0.25, 7.0], [1.0, 0.8, 1.75]][k],
        uni=[[(-1, 1), (0, 2.5), (-3, -0.5), (2, 10)], [(-1, 1), (0, 1), (-8, -2), (0.5, 0.75)],
             [(-1, 1), (0, 100), (-0.25, 0.5), (3, 4)], [(-1, 1), (0, 7), (-12, -11), (1.5, 6)]][k],
        tri=[[(-1, 1, 0), (0, 4, 1), (-3, 2, 1.5), (2, 10, 2.5)], [(-1, 1, 0), (0, 1, 0.25), (-8, -2, -3), (1, 9, 8.5)],
             [(-1, 1, 0), (0, 100, 10), (-0.5, 0.5, 0.25), (3, 4, 3.5)], [(-1, 1, 0), (0, 7, 6), (-12, -11, -11.75), (1.5, 6, 2)]][k],
        seg_vals=[[1, 2, 3], [0, 1, 2], [10, 20, 30], [-1, 0, 5]][k],
        seg_vals2=[[0, 1, 2], [1, 2, 3], [7, 8, 9], [2, 4, 6]][k],
        seg_val_extra=[4, 3, 40, 9][k],  # a fourth level of the first variable (merged levels, thorough tier)
        seg_beta=[[(0, None, None, 0), (1.5, -10, 10, 0), (-2, None, 5, 1), (0.25, -1, None, 0)],
                  [(0, None, None, 0), (-0.75, -5, 5, 0), (3, 0, None, 1), (2, None, 10, 0)],
                  [(0, None, None, 0), (2.5, 0, 100, 0), (-1, -2, -0.5, 1), (1, None, 1, 0)],
                  [(0, None, None, 0), (0.125, -1, 1, 0), (4, None, None, 1), (-3, -4, None, 0)]][k],
        mu_menu=[[1.5, 2.0, 1.25, 3.0], [1.25, 4.0, 1.5, 2.5], [2.0, 1.1, 5.0, 1.75], [1.6, 1.2, 2.4, 10.0]][k],
        mu_top=[0.75, 0.5, 1.1, 0.9][k],
        # thorough tier only
        th_extra=[7.5, -0.1, 1e3, 0.3][k],
        bc_x_extra=[[0.01, 0.9, 1.1, 3, 50, 1e4], [0.05, 0.99, 1.01, 4, 20, 500], [0.3, 0.7, 1.5, 6, 30, 2000],
                    [0.02, 0.6, 1.2, 8, 90, 300]][k],
        bc_far_extra=[[0.1, 3, 5], [0.05, 2, 4], [0.2, 2.5, -3], [0.01, 0.9, 3.5]][k],
        loc_extra=[[5.0, -0.1], [-20.0, 0.3], [30.0, -1e-3], [2.5, -40.0]][k],
        scale_extra=[[0.1, 10.0], [0.05, 20.0], [0.3, 4.0], [0.2, 50.0]][k],
        labels=[[2, 4, 1, 3, 5], [3, 1, 4, 2, 5], [10, 20, 50, 30, 40], [5, 4, 3, 2, 1]][k],
    )


# =========================================================================== reference models (plain Python)
def ref_pw_vars(x, th):
    """Documented piecewise variables: max(0, min(t - a, b)); open first end: min(t, t1) (measured from the
    origin); open last end: max(0, t - a)."""
    out = []
    for a, nxt in zip(th[:-1], th[1:]):
        if a is None:
            out.append(min(x, nxt))
        elif nxt is None:
            out.append(max(0.0, x - a))
        else:
            out.append(max(0.0, min(x - a, nxt - a)))
    return out


def ref_clip_distance(x, th):
    lo, hi = th[0], th[-1]
    c = x
    if lo is not None:
        c = max(c, lo)
    if hi is not None:
        c = min(c, hi)
    return c - (lo if lo is not None else 0.0)


def ref_boxcox(x, lam):
    L = math.log(x)
    if lam == 0:
        return L
    return math.expm1(lam * L) / lam


SQRT2PI = math.sqrt(2.0 * math.pi)


def ref_normalpdf(x, mu, s):
    return math.exp(-(x - mu) * (x - mu) / (2.0 * s * s)) / (s * SQRT2PI)


def ref_lognormalpdf(x, mu, s):
    if x <= 0:
        return 0.0
    lx = math.log(x)
    return math.exp(-(lx - mu) * (lx - mu) / (2.0 * s * s) - lx) / (s * SQRT2PI)


def ref_uniformpdf(x, a, b):
    return 1.0 / (b - a) if a <= x <= b else 0.0


def ref_triangularpdf(x, a, b, c):
    if x < a:
        return 0.0
    if x < c:
        return 2.0 * (x - a) / ((b - a) * (c - a))
    if x < b:
        return 2.0 * (b - x) / ((b - a) * (b - c))
    return 0.0


def ref_logisticcdf(x, mu, s):
    return 1.0 / (1.0 + math.exp(-(x - mu) / s))


def ref_loglikreg(y, m, s):
    t = (y - m) / s
    return -t * t / 2.0 - math.log(s * s) / 2.0 - 0.5 * math.log(2.0 * math.pi)


def simpson(values, h):
    n = len(values) - 1
    assert n % 2 == 0
    s = values[0] + values[-1]
    s += 4.0 * math.fsum(values[1:-1:2])
    s += 2.0 * math.fsum(values[2:-1:2])
    return s * h / 3.0


def set_partitions(items):
    """All set partitions, blocks ordered by their smallest element (deterministic)."""
    items = list(items)
    if not items:
        yield []
        return
    first, rest = items[0], items[1:]
    for part in set_partitions(rest):
        for i in range(len(part)):
            yield part[:i] + [[first] + part[i]] + part[i + 1:]
        yield [[first]] + part


def close(a, b, rel=1e-10, ab=1e-12):
    if a is None or b is None:
        return False
    if isinstance(a, float) and isinstance(b, float) and (math.isnan(a) or math.isnan(b)):
        return False
    if a == b:
        return True
    if math.isinf(a) or math.isinf(b):
        return False
    return abs(a - b) <= ab + rel * max(abs(a), abs(b))


def fnum(v):
    """Menu values are written as ints or floats; the library receives exactly these objects."""
    return v


# =========================================================================== real-code helpers
def make_db(columns: dict):
    import pandas as pd
    import biogeme.database as db
    return db.Database('c17', pd.DataFrame({k: [float(v) for v in vals] for k, vals in columns.items()}))


def engine_values(rec, expr, database, betas=None):
    """One engine call: one value per row."""
    try:
        v = expr.get_value_c(database=database, betas=betas, prepare_ids=True)
    except RuntimeError:
        rec.retire = True  # sticky engine error (DESIGN 3.1): discard this worker afterwards
        raise
    return [float(z) for z in v]


def exc_name(e):
    return type(e).__name__


# =========================================================================== (pw) piecewise
def threshold_lists(values, max_len=4):
    """All admissible lists of length 2..max_len: strictly increasing numbers, None only at the ends, not all None."""
    out = []
    vals = sorted(values)
    for n in range(2, max_len + 1):
        for first_none in (False, True):
            for last_none in (False, True):
                k = n - int(first_none) - int(last_none)
                if k < 1:
                    continue
                for comb in itertools.combinations(vals, k):
                    out.append(([None] if first_none else []) + list(comb) + ([None] if last_none else []))
    # simplest first: closed, short
    out.sort(key=lambda t: (len(t), t[0] is None, t[-1] is None))
    return out


def pw_grid(th):
    nums = [t for t in th if t is not None]
    g = set()
    for t in nums:
        g.update((t - 0.5, float(t), t + 0.5, math.nextafter(t, -math.inf), math.nextafter(t, math.inf)))
    g.add(min(nums) - 7.0)
    g.add(max(nums) + 9.0)
    for a, b in zip(nums[:-1], nums[1:]):
        g.add((a + b) / 2.0)
    return sorted(g)


def pw_class(th):
    t0 = 'none' if th[0] is None else ('zero' if th[0] == 0 else 'nonzero')
    return f"t0={t0},{'K=2' if len(th) == 2 else 'K>2'}"


def pw_where(x, th):
    nums = [t for t in th if t is not None]
    if x in nums:
        return 'kink'
    if th[0] is not None and x < th[0]:
        return 'below'
    if th[-1] is not None and x > th[-1]:
        return 'above'
    return 'interior'


PW_KINDS = ['free', 'fixed', 'num', 'dict']


def pw_make_betas(kind, coefs, prefix='c'):
    """Returns (list passed to the helper, betas= dict for the engine call)."""
    from biogeme.expressions import Beta
    if kind == 'free':
        # names whose ASCII order differs from positional order
        return [Beta(f'{prefix}_{9 - i}', fnum(c), None, None, 0) for i, c in enumerate(coefs)], None
    if kind == 'fixed':
        return [Beta(f'{prefix}_{9 - i}', fnum(c), None, None, 1) for i, c in enumerate(coefs)], None
    if kind == 'num':
        return [fnum(c) for c in coefs], None
    if kind == 'dict':
        bs = [Beta(f'{prefix}_{9 - i}', 77.0, -1000, 1000, 0) for i, c in enumerate(coefs)]
        return bs, {f'{prefix}_{9 - i}': float(c) for i, c in enumerate(coefs)}
    raise ValueError(kind)


def default_beta_names(var, th, skip_first):
    names = []
    rng = range(1, len(th) - 1) if skip_first else range(len(th) - 1)
    for i in rng:
        a, b = th[i], th[i + 1]
        names.append(f"beta_{var}_{'minus_inf' if a is None else a}_{'inf' if b is None else b}")
    return names


def check_pw(cfg, rec: Rec):
    """cfg: dict(th=[...], coefs=[...], kinds='all'|'rotate', seed=int)."""
    from biogeme.exceptions import BiogemeError
    from biogeme.expressions import Variable, TypeOfElementaryExpression as T
    from biogeme.models import piecewise_variables, piecewise_formula, piecewise_as_variable, piecewise_function

    th = cfg['th']
    K = len(th)
    cls = pw_class(th)
    menu = cfg['coefs']

    def case_of(**kw):
        return dict(part='pw', cfg=cfg, **kw)

    # ---- refused lists (all None): documented BiogemeError
    if all(t is None for t in th):
        for name, call in (('piecewise_variables', lambda: piecewise_variables('x', th)),
                           ('piecewise_formula', lambda: piecewise_formula('x', th)),
                           ('piecewise_as_variable', lambda: piecewise_as_variable('x', th)),
                           ('piecewise_function', lambda: piecewise_function(1.0, th, [1.0] * (K - 1)))):
            try:
                call()
                got = 'returned'
            except BiogemeError:
                got = 'BiogemeError'
            except Exception as e:  # noqa
                got = exc_name(e)
            rec.case(('pw-refuse', name, th), got, outcome='pw:refused:' + got)
            if got != 'BiogemeError':
                rec.violation(f'C17|{name}|all-None-thresholds-not-refused,K={K}',
                              f'{name} with thresholds {th}: expected BiogemeError, got {got}',
                              case_of(helper=name), expected='BiogemeError', observed=got)
        return

    xs = pw_grid(th)
    database = make_db({'zz_unused': [1.0] * len(xs), 'x': xs})
    ref_vars = [ref_pw_vars(x, th) for x in xs]

    # ---- piecewise_variables, by name and by object
    variables_failed = False
    for form in ('name', 'object'):
        try:
            vs = piecewise_variables('x' if form == 'name' else Variable('x'), th)
        except Exception as e:  # noqa
            rec.case(('pw-vars', form, th), exc_name(e), outcome='pw:raised')
            rec.violation(f'C17|piecewise_variables|raises={exc_name(e)},{cls}',
                          f'piecewise_variables(x, {th}) raises {exc_name(e)}: {e}',
                          case_of(helper='piecewise_variables'), expected=f'{K - 1} variables', observed=repr(e))
            variables_failed = True
            continue
        if len(vs) != K - 1:
            rec.case(('pw-vars-count', form, th), len(vs), outcome='pw:count')
            rec.violation(f'C17|piecewise_variables|number-of-variables,{cls}',
                          f'piecewise_variables(x, {th}) returns {len(vs)} variables for {K} thresholds (documented: K-1)',
                          case_of(helper='piecewise_variables'), expected=K - 1, observed=len(vs))
            continue  # values / sum of a list of the wrong length: dependent, not reported separately
        rec.case(None, ('count', len(vs)))
        cols = [engine_values(rec, v, database) for v in vs]
        for r, x in enumerate(xs):
            w = pw_where(x, th)
            got = [c[r] for c in cols]
            for i, g in enumerate(got[:K - 1]):
                e = ref_vars[r][i]
                rec.case(('pw-var', form, th, i, x) if e != 0 else None, (i, x, g), outcome=f'pw:var:{w}')
                if not close(g, e):
                    rec.violation(f'C17|piecewise_variables|value,{cls}',
                                  f'variable {i} of thresholds {th} at x={x}: {g}, documented max(0,min(t-a,b)) = {e}',
                                  case_of(helper='piecewise_variables', x=x), expected=e, observed=g)
            total, want = math.fsum(got), ref_clip_distance(x, th)
            rec.case(('pw-sum', form, th, x) if want != 0 else None, (x, total), outcome=f'pw:sum:{w}')
            if not close(total, want):
                rec.violation(f'C17|piecewise_variables|sum=clipped-distance,{cls}',
                              f'sum of the {len(got)} piecewise variables of {th} at x={x} is {total}; '
                              f'clipped distance from the first threshold is {want}',
                              case_of(helper='piecewise_variables', x=x), expected=want, observed=total)

    # ---- formula / as_variable / function for every coefficient vector
    # (both are built on piecewise_variables: if that raised, their failure is the same finding)
    if variables_failed:
        rec.count('dependent_checks_skipped_piecewise_variables_raised')
    kinds_all = cfg.get('kinds', 'rotate') == 'all'
    counter = 0
    for helper, ncoef in (('piecewise_formula', K - 1), ('piecewise_as_variable', K - 2)):
        if variables_failed:
            break
        vectors = list(itertools.product(menu, repeat=ncoef))
        for vi, coefs in enumerate(vectors):
            kinds = PW_KINDS if kinds_all else [PW_KINDS[(vi + counter) % len(PW_KINDS)]]
            for kind in kinds:
                form = 'name' if (vi + len(kind)) % 2 == 0 else 'object'
                betas, bdict = pw_make_betas(kind, coefs)
                var = 'x' if form == 'name' else Variable('x')
                try:
                    if helper == 'piecewise_formula':
                        expr = piecewise_formula(var, th, betas)
                    else:
                        expr = piecewise_as_variable(var, th, betas)
                    vals = engine_values(rec, expr, database, bdict)
                except RuntimeError:
                    raise
                except Exception as e:  # noqa
                    rec.case(('pw', helper, kind, th, coefs), exc_name(e), outcome='pw:raised')
                    rec.violation(f'C17|{helper}|raises={exc_name(e)},{cls}',
                                  f'{helper}(x, {th}, {kind} {list(coefs)}) raises {exc_name(e)}: {e}',
                                  case_of(helper=helper, coefs=list(coefs), kind=kind), observed=repr(e))
                    continue
                full = list(coefs) if helper == 'piecewise_formula' else [1.0] + list(coefs)
                for r, x in enumerate(xs):
                    e = 0.0
                    for c, v in zip(full, ref_vars[r]):
                        e += c * v
                    g = vals[r]
                    w = pw_where(x, th)
                    rec.case((helper, kind, form, th, coefs, x) if e != 0 else None, (x, g), outcome=f'pw:{helper}:{w}')
                    if cfg.get('sample') and not rec.samples and w == 'interior' and abs(e) > 0.1 and x == int(x):
                        rec.sample(dict(helper=helper, thresholds=th, coefficients=list(coefs), passed_as=kind, x=x,
                                        engine_value=g, closed_form=e))
                    if not close(g, e):
                        rec.violation(f'C17|{helper}|value,{cls}',
                                      f'{helper}(x, {th}, {kind} {list(coefs)}) at x={x}: {g}, closed form {e}',
                                      case_of(helper=helper, coefs=list(coefs), kind=kind, x=x), expected=e, observed=g)
        counter += 1
        # default parameters (betas=None): documented names, value 0, K-1 (K-2) free parameters
        names = default_beta_names('x', th, skip_first=(helper == 'piecewise_as_variable'))
        try:
            expr = piecewise_formula('x', th) if helper == 'piecewise_formula' else piecewise_as_variable('x', th)
            found = sorted(expr.set_of_elementary_expression(T.FREE_BETA))
            coefs = [menu[i % len(menu)] for i in range(len(names))]
            vals = engine_values(rec, expr, database, {n: float(c) for n, c in zip(names, coefs)})
        except RuntimeError:
            raise
        except Exception as e:  # noqa
            rec.case((helper, 'default', th), exc_name(e), outcome='pw:raised')
            rec.violation(f'C17|{helper}|raises={exc_name(e)},{cls}',
                          f'{helper}(x, {th}) raises {exc_name(e)}: {e}', case_of(helper=helper, kind='default'),
                          observed=repr(e))
        else:
            rec.case((helper, 'default-names', th), found, outcome='pw:default-names')
            if found != sorted(names):
                rec.violation(f'C17|{helper}|default-parameter-names,{cls}',
                              f'{helper}(x, {th}) creates parameters {found}, one per interval expected: {sorted(names)}',
                              case_of(helper=helper, kind='default'), expected=sorted(names), observed=found)
            else:
                full = coefs if helper == 'piecewise_formula' else [1.0] + coefs
                for r, x in enumerate(xs):
                    e = 0.0
                    for c, v in zip(full, ref_vars[r]):
                        e += c * v
                    rec.case((helper, 'default', th, x) if e != 0 else None, (x, vals[r]), outcome=f'pw:{helper}:default')
                    if not close(vals[r], e):
                        rec.violation(f'C17|{helper}|value,{cls}',
                                      f'{helper}(x, {th}) with {dict(zip(names, coefs))} at x={x}: {vals[r]}, closed form {e}',
                                      case_of(helper=helper, kind='default', x=x), expected=e, observed=vals[r])

    # ---- piecewise_function (plain Python) == formula == reference
    for coefs in itertools.product(menu, repeat=K - 1):
        for r, x in enumerate(xs):
            e = 0.0
            for c, v in zip(coefs, ref_vars[r]):
                e += c * v
            w = pw_where(x, th)
            try:
                g = piecewise_function(x, th, list(coefs))
            except Exception as ex:  # noqa
                rec.case(('pw-fn', th, coefs, x), exc_name(ex), outcome='pw:raised')
                rec.violation(f'C17|piecewise_function|raises={exc_name(ex)},{cls}',
                              f'piecewise_function({x}, {th}, {list(coefs)}) raises {exc_name(ex)}: {ex}',
                              case_of(helper='piecewise_function', coefs=list(coefs), x=x), observed=repr(ex))
                continue
            rec.case(('pw-fn', th, coefs, x) if e != 0 else None, (x, float(g)), outcome=f'pw:function:{w}')
            if not close(float(g), e):
                rec.violation(f'C17|piecewise_function|value=formula,{cls}',
                              f'piecewise_function({x}, {th}, {list(coefs)}) = {g}; piecewise formula / closed form = {e}',
                              case_of(helper='piecewise_function', coefs=list(coefs), x=x), expected=e, observed=float(g))


# =========================================================================== (bc) Box-Cox
def bc_lambdas(far, extra_near=()):
    near = [1e-6, 9.9e-6, math.nextafter(1e-5, 0.0), 1e-5, math.nextafter(1e-5, 1.0), 1.1e-5] + list(extra_near)
    lams = [0.0]
    for v in near + list(far):
        lams.append(v)
        if -v not in lams and v != 0:
            lams.append(-v)
    # the menu 'far' may already contain negative entries
    out = []
    for v in lams:
        if v not in out:
            out.append(v)
    return out


def bc_branch(lam):
    if lam == 0:
        return 'zero'
    return 'series' if -1e-5 < lam < 1e-5 else 'regular'


def bc_tol(x, lam, ref):
    tol = 1e-12 + 1e-10 * abs(ref)
    if bc_branch(lam) == 'regular':
        tol += 16 * EPS * max(1.0, x ** lam) / abs(lam)
    return tol


def check_bc(cfg, rec: Rec):
    """cfg: dict(form=..., xs=[...], lams=[...], xform='var'|'num')."""
    from biogeme.expressions import Beta, Variable
    from biogeme.models import boxcox

    form, xs, lams = cfg['form'], cfg['xs'], cfg['lams']

    def case_of(**kw):
        return dict(part='bc', cfg=cfg, **kw)

    results = {}  # (x, lam) -> value

    def compare(x, lam, g):
        br = bc_branch(lam)
        if x == 0:
            rec.count('skipped_out_of_domain_boxcox_x0')
            rec.case(None, (x, lam, g), outcome='bc:guard-x0')
            return
        e = ref_boxcox(x, lam)
        results[(x, lam)] = g
        rec.case(('bc', form, cfg.get('xform'), x, lam) if x != 1 else None, (x, lam, g), outcome=f'bc:{br}')
        if cfg.get('sample') and not rec.samples and br == 'series' and x not in (0, 1):
            rec.sample(dict(helper='boxcox', x=x, lam=lam, passed_as=form, branch=br, engine_value=g, closed_form=e))
        if not (abs(g - e) <= bc_tol(x, lam, e)):
            sign = '+' if lam > 0 else '-'
            rec.violation(f'C17|boxcox|closed-form,branch={br}',
                          f'boxcox(x={x}, lambda={lam} passed as {form}) = {g!r}; (x^l-1)/l = {e!r} '
                          f'(relative error {abs(g - e) / max(abs(e), 1e-300):.3g})',
                          case_of(x=x, lam=lam), expected=e, observed=g)

    try:
        if form == 'var':
            pairs = [(x, l) for l in lams for x in xs]
            database = make_db({'x': [p[0] for p in pairs], 'lam': [p[1] for p in pairs]})
            vals = engine_values(rec, boxcox(Variable('x'), Variable('lam')), database)
            for (x, l), g in zip(pairs, vals):
                compare(x, l, g)
        elif cfg.get('xform') == 'num':
            from biogeme.expressions import Numeric
            database = make_db({'x': [1.0, 2.0]})
            for l in lams:
                for x in xs:
                    if x == 0:
                        continue
                    ell = {'num': fnum(l), 'free': Beta('ell', fnum(l), -10, 10, 0),
                           'fixed': Beta('ell', fnum(l), -10, 10, 1)}[form]
                    vals = engine_values(rec, boxcox(Numeric(x), ell), database)
                    compare(x, l, vals[0])
                    if vals[0] != vals[1]:
                        rec.violation('C17|boxcox|constant-x-differs-across-rows', f'{vals}', case_of(x=x, lam=l))
        else:
            database = make_db({'x': xs})
            for l in lams:
                bd = None
                if form == 'num':
                    ell = fnum(l)
                elif form == 'free':
                    ell = Beta('ell', fnum(l), -10, 10, 0)
                elif form == 'fixed':
                    ell = Beta('ell', fnum(l), -10, 10, 1)
                elif form == 'dict':
                    ell = Beta('ell', 0.3, -10, 10, 0)
                    bd = {'ell': float(l)}
                else:
                    raise ValueError(form)
                vals = engine_values(rec, boxcox(Variable('x'), ell), database, bd)
                for x, g in zip(xs, vals):
                    compare(x, l, g)
    except RuntimeError:
        raise
    except Exception as e:  # noqa
        rec.case(('bc', form, 'raised'), exc_name(e), outcome='bc:raised')
        rec.violation(f'C17|boxcox|raises={exc_name(e)},form={form}', f'boxcox with lambda as {form}: {exc_name(e)}: {e}',
                      case_of(), observed=repr(e))
        return

    # continuity across the switching point and through zero: neighbours in the sorted lambda menu
    sl = sorted(l for l in lams if abs(l) <= 1.2e-5)
    for x in xs:
        if x in (0, 1):
            continue
        for l1, l2 in zip(sl[:-1], sl[1:]):
            if (x, l1) not in results or (x, l2) not in results:
                continue
            jump = results[(x, l2)] - results[(x, l1)]
            want = ref_boxcox(x, l2) - ref_boxcox(x, l1)
            b1, b2 = bc_branch(l1), bc_branch(l2)
            if b1 == b2:
                continue  # same branch: covered by the value comparison
            straddles = 'regular' in (b1, b2)
            rec.case(('bc-cont', form, cfg.get('xform'), x, l1, l2), (x, l1, l2, jump),
                     outcome='bc:cont:switch' if straddles else 'bc:cont:zero')
            tol = 1e-9 * max(1.0, abs(ref_boxcox(x, l1))) + 32 * EPS * max(1.0, x ** l2) / 1e-5 * (1 if straddles else 0)
            if abs(jump - want) > tol:
                where = '|lambda|=1e-5' if straddles else 'lambda=0'
                rec.violation(f"C17|boxcox|continuity-in-lambda,at={where}",
                              f'boxcox(x={x}, .) moves by {jump:.6g} between lambda={l1} and {l2} ({form}); '
                              f'the transform moves by {want:.6g}',
                              case_of(x=x, lam=[l1, l2]), expected=want, observed=jump)


# =========================================================================== (dist) densities
def neighbours(v):
    return [math.nextafter(v, -math.inf), float(v), math.nextafter(v, math.inf)]


def dist_param(kind, name, value, other=None):
    """How a distribution parameter is handed to the helper; returns (object, betas-dict entry or None)."""
    from biogeme.expressions import Beta, Numeric
    if kind == 'num':
        return fnum(value), None
    if kind == 'numeric':
        return Numeric(value), None
    if kind == 'free':
        return Beta(name, fnum(value), None, None, 0), None
    if kind == 'fixed':
        return Beta(name, fnum(value), None, None, 1), None
    if kind == 'column':
        from biogeme.expressions import Variable
        return Variable('p_' + name), ('column', 'p_' + name, float(value))
    if kind == 'expr':
        # an expression of a parameter whose value is exactly the tested one: 2 * Beta(value / 2)
        return Numeric(2.0) * Beta(name, value / 2.0, None, None, 0), None
    if kind == 'dict':
        # the Beta carries another (admissible) value; the value under test arrives through betas=
        return Beta(name, other, None, None, 0), (name, float(value))
    raise ValueError(kind)


DIST_KINDS = ['num', 'numeric', 'free', 'fixed', 'dict', 'expr', 'column']


def other_point(dist, params):
    """Another admissible parameter point (initial values of the Betas when the tested values come via betas=)."""
    if dist == 'uniformpdf':
        a, b = params
        return [a - 0.5, b + 0.5]
    if dist == 'triangularpdf':
        a, b, c = params
        return [a - 0.5, b + 0.5, c + (b - c) / 2.0]
    mu, s = params
    return [mu + 0.25, s + 0.5 if s > 0 else s - 0.5]


def check_dist(cfg, rec: Rec):
    """cfg: dict(dist=..., params=[...], kind=..., nodes=int)."""
    import biogeme.distributions as D
    import biogeme.loglikelihood as LL
    from biogeme.expressions import Variable

    dist, params, kind, nodes = cfg['dist'], cfg['params'], cfg['kind'], cfg['nodes']

    def case_of(**kw):
        return dict(part='dist', cfg=cfg, **kw)

    rel, ab = 1e-9, 1e-12  # 10-digit constants in the library (see ASSUMPTIONS)
    integral_kind = 'pdf'
    weights = None
    region = lambda x: 'in'  # noqa
    if dist in ('normalpdf', 'likelihoodregression', 'loglikelihoodregression'):
        mu, s = params
        grid = [mu + s * z for z in (-8, -3, -1, -0.5, 0, 0.5, 1, 3, 8)]
        lo, hi = mu - 12 * s, mu + 12 * s
        panels = [(lo, hi)]
        if dist == 'normalpdf':
            ref = lambda x: ref_normalpdf(x, mu, s)  # noqa
            names = ('mu', 's')
        elif dist == 'likelihoodregression':
            ref = lambda x: ref_normalpdf(x, mu, s)  # noqa
            names = ('model', 'sigma')
        else:
            ref = lambda x: ref_loglikreg(x, mu, s)  # noqa
            names = ('model', 'sigma')
            rel, ab = 1e-10, 1e-10
            integral_kind = None
        if s < 0:
            # A negative scale.  The documented closed form of loglikelihoodregression,
            #   -(y-m)^2 / (2 sigma^2) - log(sigma^2) / 2 - log(2 pi) / 2,
            # uses sigma only through sigma^2, carries no positivity note and no guard, and sigma is 'typically a
            # parameter' (an unbounded Beta takes negative values during estimation): sigma < 0 is inside its domain
            # and the value is the one of |sigma|.  normalpdf / lognormalpdf / logisticcdf document sigma > 0 (and
            # refuse a non-positive number), and the documented form of likelihoodregression, phi((y-m)/sigma)/sigma,
            # is negative for sigma < 0 - not a likelihood: for these a negative scale is outside the documented
            # domain (likelihoodregression is evaluated and counted, not compared).
            if dist == 'normalpdf':
                raise ValueError('normalpdf: a non-positive scale is outside the documented domain')
            region = lambda x: 'sigma<0'  # noqa
    elif dist == 'lognormalpdf':
        mu, s = params
        if mu + 12 * s > 700 or mu - 12 * s < -700:
            rec.count('skipped_out_of_domain_lognormal_exp_overflow')  # the support grid itself leaves the doubles
            return
        grid = [-1.0, 0.0, 1e-300] + [math.exp(mu + s * z) for z in (-8, -3, -1, 0, 0.5, 1, 3, 8)] + [1.0]
        ref = lambda x: ref_lognormalpdf(x, mu, s)  # noqa
        names = ('mu', 's')
        region = lambda x: 'in' if x > 0 else 'out'  # noqa
        panels = [(mu - 12 * s, mu + 12 * s)]
        integral_kind = 'logx'
    elif dist == 'uniformpdf':
        a, b = params
        grid = [a - 1.0] + neighbours(a) + [(a + b) / 2.0, a + (b - a) / 3.0] + neighbours(b) + [b + 0.5]
        ref = lambda x: ref_uniformpdf(x, a, b)  # noqa
        names = ('a', 'b')
        region = lambda x: 'out' if (x < a or x > b) else ('edge' if x in (a, b) else 'in')  # noqa
        panels = [(a, b)]
    elif dist == 'triangularpdf':
        a, b, c = params
        grid = ([a - 1.0] + neighbours(a) + [(a + c) / 2.0] + neighbours(c) + [(c + b) / 2.0] + neighbours(b) + [b + 1.0])
        ref = lambda x: ref_triangularpdf(x, a, b, c)  # noqa
        names = ('a', 'b', 'c')
        region = lambda x: ('x<a' if x < a else 'x=a' if x == a else 'a<x<c' if x < c else 'x=c' if x == c  # noqa
                            else 'c<x<b' if x < b else 'x=b' if x == b else 'x>b')
        panels = [(a, c), (c, b)]
    elif dist == 'logisticcdf':
        mu, s = params
        grid = [mu + s * z for z in (-40, -8, -3, -1, -0.5, 0, 0.5, 1, 3, 8, 40)]
        ref = lambda x: ref_logisticcdf(x, mu, s)  # noqa
        names = ('mu', 's')
        rel, ab = 1e-10, 1e-12
        integral_kind = 'cdf'
        panels = []
    else:
        raise ValueError(dist)

    extra_cols = {}

    def build():
        objs, bd = [], {}
        if kind == 'default':
            return [], None
        other = dict(zip(names, other_point(dist, params)))
        for n, v in zip(names, params):
            o, entry = dist_param(kind, n, v, other[n])
            objs.append(o)
            if entry and entry[0] == 'column':
                extra_cols[entry[1]] = entry[2]
            elif entry:
                bd[entry[0]] = entry[1]
        return objs, (bd or None)

    def table(points):
        cols = {'x': points}
        for cname, cval in extra_cols.items():
            cols[cname] = [cval] * len(points)
        return make_db(cols)

    def make_expr(objs):
        x = Variable('x')
        if dist in ('likelihoodregression', 'loglikelihoodregression'):
            f = getattr(LL, dist)
            return f(x, objs[0], objs[1])
        return getattr(D, dist)(x, *objs)

    try:
        objs, bd = build()
        expr = make_expr(objs)
        database = table(grid)
        vals = engine_values(rec, expr, database, bd)
    except RuntimeError:
        raise
    except Exception as e:  # noqa
        rec.case((dist, kind, tuple(params), 'raised'), exc_name(e), outcome='dist:raised')
        rec.violation(f'C17|{dist}|raises={exc_name(e)},params-as={kind}',
                      f'{dist} with parameters {params} passed as {kind}: {exc_name(e)}: {e}', case_of(), observed=repr(e))
        return
    if dist == 'likelihoodregression' and params[1] < 0:
        rec.count('skipped_out_of_domain_likelihoodregression_negative_sigma', len(grid))
        for x, g in zip(grid, vals):
            rec.case(None, (x, g), outcome='dist:likelihoodregression:sigma<0:not-compared')
        return
    for x, g in zip(grid, vals):
        e = ref(x)
        rg = region(x)
        informative = (e != 0) or rg not in ('in',)
        rec.case((dist, kind, tuple(params), x) if informative else None, (x, g), outcome=f'dist:{dist}:{rg}')
        if cfg.get('sample') and not rec.samples and e != 0:
            rec.sample(dict(helper=dist, parameters=dict(zip(names, params)), passed_as=kind, x=x, region=rg,
                            engine_value=g, textbook_value=e))
        if not close(g, e, rel, ab):
            rec.violation(f'C17|{dist}|value,region={rg}',
                          f'{dist}(x={x!r}; {dict(zip(names, params))} as {kind}) = {g!r}; textbook value {e!r}',
                          case_of(x=x), expected=e, observed=g)
    if integral_kind == 'cdf':
        # a distribution function: limits 0 and 1, non-decreasing on the grid, 1/2 at the location
        ok = vals[0] <= 1e-15 and abs(vals[-1] - 1.0) <= 1e-15 and all(p <= q for p, q in zip(vals[:-1], vals[1:]))
        rec.case((dist, kind, tuple(params), 'limits'), (vals[0], vals[-1]), outcome='dist:cdf-limits')
        if not ok:
            rec.violation(f'C17|{dist}|limits-0-1-monotone', f'{dist} {params} ({kind}): values {vals}', case_of(),
                          expected='0 ... 1 non-decreasing', observed=vals)
        return
    if integral_kind is None or not nodes:
        return
    # composite Simpson on engine-evaluated nodes, one panel per smooth piece
    total = 0.0
    for lo, hi in panels:
        n = nodes
        h = (hi - lo) / n
        ts = [lo + i * h for i in range(n)] + [hi]
        if integral_kind == 'logx':
            pts = [math.exp(t) for t in ts]
        else:
            pts = ts
        objs, bd = build()
        v = engine_values(rec, make_expr(objs), table(pts), bd)
        if integral_kind == 'logx':
            v = [vv * p for vv, p in zip(v, pts)]
        total += simpson(v, h)
        rec.count('integral_nodes', n + 1)
    rec.case((dist, kind, tuple(params), 'integral'), round(total, 9), outcome='dist:integral')
    if not abs(total - 1.0) <= 1e-6:
        rec.violation(f'C17|{dist}|integral-over-support',
                      f'{dist} {dict(zip(names, params))} ({kind}) integrates to {total!r} over its support', case_of(),
                      expected=1.0, observed=total)


# =========================================================================== (seg) segmentation
CAT_NAMES = [['male', 'female', 'other'], ['low', 'high', '2nd']]
VAR_NAMES = ['g', 'inc']


def seg_configs(a, tier):
    """All (variables, categories, reference) structures x parameter configurations x API forms."""
    one = []
    for v in (0, 1):
        vals = a['seg_vals'] if v == 0 else a['seg_vals2']
        for ncat in (2, 3):
            orders = [list(range(ncat))]
            if tier == 'thorough':
                orders = [list(p) for p in itertools.permutations(range(ncat))]
            for order in orders:
                mapping = [[vals[i], CAT_NAMES[v][i]] for i in order]
                for ref in [None] + [CAT_NAMES[v][i] for i in range(ncat)]:
                    one.append(dict(var=VAR_NAMES[v], mapping=mapping, ref=ref))
    structs = [[]]  # no segmentation at all: the parameter itself
    structs += [[s] for s in one if s['var'] == 'g'] + [[s] for s in one if s['var'] == 'inc' and tier == 'thorough']
    g_side = [s for s in one if s['var'] == 'g']
    i_side = [s for s in one if s['var'] == 'inc']
    if tier == 'quick':
        # two variables: every (categories, reference) pair, identity mapping order
        structs += [[s, t] for s in g_side for t in i_side]
    else:
        ident = lambda s: [m[1] for m in s['mapping']] == CAT_NAMES[VAR_NAMES.index(s['var'])][:len(s['mapping'])]  # noqa
        structs += [[s, t] for s in g_side for t in i_side if ident(s) or ident(t)]
        # three variables: a third one with two categories, every reference
        third = [dict(var='age', mapping=[[41, 'young'], [42, 'old']], ref=r) for r in (None, 'young', 'old')]
        structs += [[s, t, u] for s in g_side for t in i_side for u in third if ident(s) and ident(t)]
    # ---- merged levels: several values of the variable mapped to the SAME category name (every surjection of the
    # value list onto 2..n-1 category names, hence every position of the repeated name in the mapping) x every
    # reference (and None = the category of the first entry).  All structures above are appended to, never
    # reordered: the rotating options of the configurations that existed before stay what they were.
    def merged(v, vals, ncat):
        out = []
        for f in itertools.product(range(ncat), repeat=len(vals)):
            if len(set(f)) != ncat:
                continue
            mapping = [[vals[i], CAT_NAMES[v][c]] for i, c in enumerate(f)]
            for ref in [None] + CAT_NAMES[v][:ncat]:
                out.append(dict(var=VAR_NAMES[v], mapping=mapping, ref=ref))
        return out

    g_merged = merged(0, a['seg_vals'], 2)
    i_merged = merged(1, a['seg_vals2'], 2)
    if tier == 'thorough':
        four = a['seg_vals'] + [a['seg_val_extra']]
        g_merged += merged(0, four, 2) + merged(0, four, 3)
    ident_ = lambda s: [m[1] for m in s['mapping']] == CAT_NAMES[VAR_NAMES.index(s['var'])][:len(s['mapping'])]  # noqa
    g_plain = [s for s in g_side if ident_(s)]
    i_plain = [s for s in i_side if ident_(s)]
    structs += [[s] for s in g_merged]
    if tier == 'thorough':
        structs += [[s] for s in i_merged]
    # two variables: a merged one next to every plain (identity order) one, on either side; both merged
    structs += [[s, t] for s in g_merged for t in i_plain if tier == 'thorough' or len(t['mapping']) == 2]
    structs += [[s, t] for s in g_plain for t in i_merged if tier == 'thorough' or len(s['mapping']) == 3]
    if tier == 'thorough':
        structs += [[s, t] for s in merged(0, a['seg_vals'], 2) for t in i_merged]
    cfgs = []
    for si, st in enumerate(structs):
        for bi, beta in enumerate(a['seg_beta']):
            if tier == 'quick' and bi != 0 and (si + bi) % 2:
                continue
            cfgs.append(dict(struct=st, beta=list(beta), varform=['name', 'object'][(si + bi) % 2],
                             api=['class', 'function'][(si // 2 + bi) % 2], prefix=['segmented', 'my_seg'][(si // 3 + bi) % 2]))
    # ---- ways of SUPPLYING the segmentations (appended: everything above keeps its configuration).  The three entry
    # points (class Segmentation, function segmented_beta, its deprecated alias segment_parameter) declare
    # Iterable[DiscreteSegmentationTuple]: every kind of iterable of SEG_CONTAINERS x every entry point x every
    # call history of SEG_HISTORIES x the basic structures (none / one / two variables, every reference).
    basic = [[]] + [[s] for s in g_plain]
    if tier == 'quick':
        basic += [[s, t] for s in g_plain for t in i_plain if len(t['mapping']) == 2]
    else:
        basic += [[s] for s in i_plain] + [[s, t] for s in g_plain for t in i_plain]
        basic += [[s] for s in merged(0, a['seg_vals'], 2)]
        third = [dict(var='age', mapping=[[41, 'young'], [42, 'old']], ref=r) for r in (None, 'old')]
        basic += [[s, t, u] for s in g_plain for t in i_plain for u in third
                  if len(s['mapping']) == 2 and len(t['mapping']) == 2]
    n = 0
    for si, st in enumerate(basic):
        for ci, cont in enumerate(SEG_CONTAINERS):
            for api in ('class', 'function', 'alias'):
                for hist in SEG_HISTORIES[api]:
                    if hist == 'twice' and cont in SEG_ONE_SHOT:
                        continue  # a consumed one-shot iterable is legitimately empty the second time
                    betas = a['seg_beta'] if tier == 'thorough' else [a['seg_beta'][n % len(a['seg_beta'])]]
                    for bi, beta in enumerate(betas):
                        if tier == 'thorough' and bi not in (n % 4, (n + 1) % 4):
                            continue
                        cfgs.append(dict(struct=st, beta=list(beta), varform=['name', 'object'][(n + bi) % 2], api=api,
                                         prefix=['segmented', 'my_seg'][(n // 2 + bi) % 2], container=cont, history=hist,
                                         argform=['keyword', 'positional', 'default-prefix'][(n + ci + bi) % 3]))
                    n += 1
    return cfgs


# how the segmentation tuples are handed over (all are Iterable[DiscreteSegmentationTuple], the declared type)
SEG_CONTAINERS = ['list', 'tuple', 'generator', 'iterator', 'filter', 'map', 'chain', 'dict_values', 'deque', 'oneshot',
                  'reiterable', 'ndarray']
# can be traversed once only
SEG_ONE_SHOT = {'generator', 'iterator', 'filter', 'map', 'chain', 'oneshot'}
# call histories.  class: order and repetition of the two methods on ONE Segmentation object (b = segmented_beta(),
# c = segmented_code(); the last result of each is the one compared).  function / alias: called once, or twice with
# the same (re-iterable) container object - the second result is the one compared.
SEG_HISTORIES = {'class': ['bc', 'cb', 'bbc', 'cbcb'], 'function': ['once', 'twice'], 'alias': ['once', 'twice']}


def seg_supplier(container, tuples):
    """Returns a function producing the iterable handed to the library.  One-shot kinds are made afresh for every call
    (the library is free to traverse what it receives once); the others are ONE object, reused for all calls."""
    import collections

    class OneShot:  # an Iterable that is its own iterator: no __len__, no __getitem__, exhausted after one pass
        def __init__(self, items):
            self._it = iter(list(items))

        def __iter__(self):
            return self

        def __next__(self):
            return next(self._it)

    class ReIterable:  # an Iterable that is neither Sized nor a Sequence; every iter() starts afresh
        def __init__(self, items):
            self._items = list(items)

        def __iter__(self):
            return iter(list(self._items))

    fresh = {
        'generator': lambda: (t for t in tuples),
        'iterator': lambda: iter(list(tuples)),
        'filter': lambda: filter(lambda t: t is not None, list(tuples)),
        'map': lambda: map(lambda t: t, list(tuples)),
        'chain': lambda: itertools.chain(tuples[:1], tuples[1:]),
        'oneshot': lambda: OneShot(tuples),
    }
    if container in fresh:
        return fresh[container]
    if container == 'list':
        obj = tuples
    elif container == 'tuple':
        obj = tuple(tuples)
    elif container == 'dict_values':
        obj = {f'k{i}': t for i, t in enumerate(tuples)}.values()
    elif container == 'deque':
        obj = collections.deque(tuples)
    elif container == 'reiterable':
        obj = ReIterable(tuples)
    elif container == 'ndarray':
        import numpy as np
        obj = np.empty(len(tuples), dtype=object)
        for i, t in enumerate(tuples):
            obj[i] = t
    else:
        raise ValueError(container)
    return lambda: obj


def check_seg(cfg, rec: Rec):
    import biogeme.segmentation as seg
    from biogeme.expressions import Beta, Variable, bioMultSum, TypeOfElementaryExpression as T

    struct, (init, lb, ub, status) = cfg['struct'], cfg['beta']

    def case_of(**kw):
        return dict(part='seg', cfg=cfg, **kw)

    tag = f"vars={len(struct)},status={'free' if status == 0 else 'fixed'}"
    if any(len({m[1] for m in s['mapping']}) < len(s['mapping']) for s in struct):
        tag += ',merged-levels'  # some category name is given to several values of the variable
    beta = Beta('B', fnum(init), lb, ub, status)
    tuples = []
    for s in struct:
        mapping = {m[0]: m[1] for m in s['mapping']}
        v = s['var'] if cfg['varform'] == 'name' else Variable(s['var'])
        tuples.append(seg.DiscreteSegmentationTuple(variable=v, mapping=mapping, reference=s['ref']))
    refs = [s['ref'] if s['ref'] is not None else s['mapping'][0][1] for s in struct]

    container = cfg.get('container', 'list')
    if 'container' in cfg:
        # the way of supplying the segmentations is part of the finding key (new configurations only)
        tag += ',tuples-as=' + ('one-shot-iterable' if container in SEG_ONE_SHOT else 're-iterable-container')
        tag += ',entry=' + {'class': 'Segmentation', 'function': 'segmented_beta', 'alias': 'segment_parameter'}[cfg['api']]
    try:
        prefix = cfg.get('prefix', 'segmented')
        if 'container' not in cfg:
            S = seg.Segmentation(beta, tuples, prefix=prefix)
            expr = S.segmented_beta() if cfg['api'] == 'class' else seg.segmented_beta(beta, tuples, prefix=prefix)
            code = S.segmented_code()
        else:
            import warnings
            supply = seg_supplier(container, tuples)
            argform = cfg.get('argform', 'keyword')
            if argform == 'default-prefix':
                prefix = 'segmented'

            def call(f):
                if argform == 'positional':
                    return f(beta, supply(), prefix)
                if argform == 'default-prefix':
                    return f(beta, supply())
                return f(beta=beta, segmentation_tuples=supply(), prefix=prefix)

            S = call(seg.Segmentation)
            expr = code = None
            for step in (cfg['history'] if cfg['api'] == 'class' else 'c'):
                if step == 'b':
                    expr = S.segmented_beta()
                else:
                    code = S.segmented_code()
            if cfg['api'] != 'class':
                f = seg.segmented_beta if cfg['api'] == 'function' else seg.segment_parameter
                with warnings.catch_warnings():
                    warnings.simplefilter('ignore')  # the alias announces its deprecation
                    for _ in range(2 if cfg['history'] == 'twice' else 1):
                        expr = call(f)
    except Exception as e:  # noqa
        rec.case(('seg', 'raised', str(cfg)), exc_name(e), outcome='seg:raised')
        rec.violation(f'C17|segmentation|raises={exc_name(e)},{tag}', f'segmentation {cfg}: {exc_name(e)}: {e}', case_of(),
                      observed=repr(e))
        return

    # expected parameter set
    want = {'B': (float(init), lb, ub, status)}
    shift_value = {'B': 0.7}
    n = 0
    for s, r in zip(struct, refs):
        for val, cat in s['mapping']:
            if cat != r:
                n += 1
                want[f'B_{cat}'] = (float(init), None, None, status)
                shift_value[f'B_{cat}'] = [0.125, -0.5, 2.0, 0.3, -1.75, 4.0][(n - 1) % 6] * (1 + (n - 1) // 6)

    def params_of(e):
        return {k: (float(b.initValue), b.lb, b.ub, b.status) for k, b in e.dict_of_elementary_expression(T.BETA).items()}

    got = params_of(expr)
    rec.case(('seg-params', str(cfg)), sorted(got.items(), key=repr),
             outcome='seg:params' + (f':tuples-as={container}' if 'container' in cfg else ''))
    if got != want:
        diff = 'names' if set(got) != set(want) else 'bounds/values/status'
        rec.violation(f'C17|segmentation|parameter-set,{diff},{tag}',
                      f'segmented parameter {cfg["beta"]} over {struct}: parameters {got}; expected {want}',
                      case_of(), expected=want, observed=got)

    # generated code, executed
    ns = {'Beta': Beta, 'Variable': Variable, 'bioMultSum': bioMultSum}
    code_expr = None
    try:
        lines = code.split('\n')
        target = f'{prefix}_{beta.name}'
        exec('\n'.join(lines[:-1]), ns)  # noqa: S102  (the library's own generated specification code)
        if lines[-1].startswith(target + ' = '):
            exec(lines[-1], ns)  # noqa: S102
            code_expr = ns[target]
        else:
            code_expr = eval(lines[-1], ns)  # noqa: S307
    except Exception as e:  # noqa
        rec.case(('seg-code', 'raised', str(cfg)), exc_name(e), outcome='seg:code-raised')
        rec.violation(f'C17|segmentation|generated-code-does-not-execute,{exc_name(e)},{tag}',
                      f'segmented_code() of {cfg} fails when executed: {exc_name(e)}: {e}\n{code}', case_of(), observed=repr(e))
    if code_expr is not None:
        gc = params_of(code_expr)
        rec.case(('seg-code-params', str(cfg)), sorted(gc.items(), key=repr), outcome='seg:code-params')
        if gc != want:
            rec.violation(f'C17|segmentation|generated-code-parameter-set,{tag}',
                          f'executed segmented_code() of {cfg} has parameters {gc}; expected {want}', case_of(),
                          expected=want, observed=gc)

    # rows: all value combinations + an unmapped value per variable
    cols = {}
    if struct:
        value_sets = [[m[0] for m in s['mapping']] + [987] for s in struct]
        rows = list(itertools.product(*value_sets))
        for j, s in enumerate(struct):
            cols[s['var']] = [r[j] for r in rows]
    else:
        rows = [(), ()]
    cols['zz'] = [1.0] * len(rows)
    database = make_db(cols)

    for mode in ('defaults', 'values'):
        if mode == 'values':
            theta = dict(shift_value)
            if status == 0:
                bd = {k: float(v) for k, v in theta.items()}
            else:
                bd = None
                expr.change_init_values(theta)
                if code_expr is not None:
                    code_expr.change_init_values(theta)
        else:
            theta = {k: float(init) for k in want}
            bd = None
        try:
            vals = engine_values(rec, expr, database, bd)
            cvals = engine_values(rec, code_expr, database, bd) if code_expr is not None else None
        except RuntimeError:
            raise
        except Exception as e:  # noqa
            rec.case(('seg', 'eval-raised', str(cfg)), exc_name(e), outcome='seg:raised')
            rec.violation(f'C17|segmentation|evaluation-raises={exc_name(e)},{tag}', f'{cfg}: {e}', case_of(), observed=repr(e))
            return
        for ri, row in enumerate(rows):
            e = theta['B']
            in_shift = False
            mapped = True
            merged_ref = merged_other = False
            for s, r, val in zip(struct, refs, row):
                cat = {m[0]: m[1] for m in s['mapping']}.get(val)
                if cat is None:
                    mapped = False
                    continue
                if sum(1 for m in s['mapping'] if m[1] == cat) > 1:
                    merged_ref = merged_ref or cat == r
                    merged_other = merged_other or cat != r
                if cat != r:
                    in_shift = True
                    e = e + theta[f'B_{cat}']
            oc = ('seg:' + ('shifted' if in_shift else 'reference') + ('' if mapped else '+unmapped')
                  + ('+merged-reference-level' if merged_ref else '') + ('+merged-level' if merged_other else ''))
            # a level merged into the reference category is informative although no shift applies: the reference
            # value alone is expected there for every one of the merged values
            rec.case(('seg', mode, str(cfg), row) if (in_shift or merged_ref) else None, (row, vals[ri]), outcome=oc)
            if cfg.get('sample') and not rec.samples and in_shift and mode == 'values':
                rec.sample(dict(helper='segmented_beta', structure=struct, beta=cfg['beta'], row=list(row), parameter_values=theta,
                                engine_value=vals[ri], reference_plus_shifts=e, generated_code=code))
            if not close(vals[ri], e):
                rec.violation(f'C17|segmentation|value=reference+shift,{tag}',
                              f'segmented parameter {cfg["beta"]} over {struct} on row {dict(zip([s["var"] for s in struct], row))} '
                              f'({mode}): {vals[ri]}; reference + shifts = {e}',
                              case_of(row=list(row), mode=mode), expected=e, observed=vals[ri])
            if cvals is not None:
                rec.case(('seg-code', mode, str(cfg), row) if (in_shift or merged_ref) else None, (row, cvals[ri]),
                         outcome=oc + ':code')
                if not close(cvals[ri], e) or not close(cvals[ri], vals[ri]):
                    rec.violation(f'C17|segmentation|generated-code-value,{tag}',
                                  f'executed segmented_code() of {cfg} on row {list(row)} ({mode}): {cvals[ri]}; '
                                  f'segmented_beta(): {vals[ri]}; reference + shifts = {e}',
                                  case_of(row=list(row), mode=mode), expected=e, observed=cvals[ri])


# =========================================================================== (nest) nested-logit correlation
def nest_structures(J):
    """Every subset left alone x every set partition of the rest (positions 0..J-1)."""
    out = []
    for k in range(J + 1):
        for alone in itertools.combinations(range(J), k):
            rest = [i for i in range(J) if i not in alone]
            for part in set_partitions(rest):
                out.append(dict(alone=list(alone), nests=part))
    out.sort(key=lambda s: (len(s['nests']), sum(len(n) for n in s['nests'])))
    return out


NEST_KINDS = ['float', 'free', 'fixed', 'expr']


def nest_listings(nests):
    """Every way of writing down one nest structure other than the canonical one: all permutations of the tuple
    of nests x all permutations of the member list of each nest (canonical = the listing produced by set_partitions:
    members ascending in choice-set position)."""
    canonical = [list(m) for m in nests]
    out = []
    for order in itertools.permutations(range(len(nests))):
        for members in itertools.product(*[itertools.permutations(nests[i]) for i in order]):
            v = [list(m) for m in members]
            if v != canonical:
                out.append(v)
    return out


def nest_listing_class(nests_pos):
    """'choice-set-order' | 'nests-reordered' (only the tuple of nests is in another order) | 'members-reordered'
    (some nest lists its alternatives in another order than the choice set)."""
    if any(list(m) != sorted(m) for m in nests_pos):
        return 'members-reordered'
    firsts = [min(m) for m in nests_pos]
    return 'choice-set-order' if firsts == sorted(firsts) else 'nests-reordered'


def nest_configs(a, tier):
    cfgs = []
    idx = 0
    for J in ((2, 3, 4) if tier == 'quick' else (2, 3, 4, 5)):
        labelings = [list(range(1, J + 1)), [l for l in a['labels'] if l in sorted(a['labels'])[:J]]]
        if labelings[1] == labelings[0]:
            labelings = labelings[:1]
        for st in nest_structures(J):
            for labels in labelings:
                for kind in NEST_KINDS:
                    for assign in ('distinct', 'equal'):
                        if assign == 'equal' and len(st['nests']) < 2:
                            continue
                        pdicts = ['none'] if kind == 'float' else ['none', 'override', 'partial']
                        for pd_ in pdicts:
                            combos = [(m, n) for m in ('default', 'one', 'top') for n in ('none', 'ordered', 'permuted')]
                            if tier == 'quick' or J == 5:
                                combos = [combos[idx % 9], combos[(idx + 4) % 9]]
                            for mu, names in combos:
                                cfgs.append(dict(J=J, labels=labels, alone=st['alone'], nests=st['nests'], kind=kind,
                                                 assign=assign, pdict=pd_, mu=mu, names=names,
                                                 syntax=['object', 'tuple'][idx % 2]))
                            idx += 1
    # ---- listing orders: every non-canonical way of writing each structure down
    combos9 = [(m, n) for m in ('default', 'one', 'top') for n in ('none', 'ordered', 'permuted')]
    idx = 0
    for J in ((2, 3, 4) if tier == 'quick' else (2, 3, 4, 5)):
        labelings = [list(range(1, J + 1)), [l for l in a['labels'] if l in sorted(a['labels'])[:J]]]
        if labelings[1] == labelings[0]:
            labelings = labelings[:1]
        for st in nest_structures(J):
            for listing in nest_listings(st['nests']):
                for labels in labelings:
                    for ki, kind in enumerate(NEST_KINDS):
                        pdicts = ['none'] if kind == 'float' else ['none', 'override', 'partial']
                        assigns = ['distinct', 'equal'] if len(listing) >= 2 else ['distinct']
                        # the options that are not enumerated in full rotate with a counter that is independent
                        # of the kind (idx advances once per (listing, labeling))
                        if tier == 'quick' or J == 5:
                            variants = [(assigns[(idx + ki) % len(assigns)], pdicts[(idx + ki) % len(pdicts)],
                                         combos9[(2 * idx + ki + 4 * k) % 9])
                                        for k in ((0, 1) if tier == 'quick' else (0, 1, 2))]
                        else:
                            variants = [(as_, pd_, combos9[(idx + ki + 3 * k) % 9]) for as_ in assigns for pd_ in pdicts
                                        for k in (0, 1, 2)]
                        for assign, pd_, (mu, names) in variants:
                            cfgs.append(dict(J=J, labels=labels, alone=st['alone'], nests=listing, kind=kind,
                                             assign=assign, pdict=pd_, mu=mu, names=names,
                                             syntax=['object', 'tuple'][(idx // 2 + ki) % 2]))
                    idx += 1
    return cfgs


def check_nest(cfg, rec: Rec, a=None):
    from biogeme.expressions import Beta, Numeric
    from biogeme.nests import NestsForNestedLogit, OneNestForNestedLogit

    a = a or alph(cfg.get('seed', 0))
    labels = cfg['labels']
    nests_pos = cfg['nests']
    menu = a['mu_menu']

    def case_of(**kw):
        return dict(part='nest', cfg=cfg, **kw)

    mu_m, nests, override = [], [], {}
    for i, members in enumerate(nests_pos):
        val = menu[0] if cfg['assign'] == 'equal' else menu[i % len(menu)]
        new = val
        name = f'mu_{chr(ord("z") - i)}'  # ASCII order opposite to nest order
        if cfg['pdict'] == 'override' or (cfg['pdict'] == 'partial' and i == 0):
            new = menu[(i + 1) % len(menu)] if cfg['assign'] == 'distinct' else menu[1]
            override[name] = new
        if cfg['kind'] == 'float':
            p = val
        elif cfg['kind'] == 'free':
            p = Beta(name, val, 1, None, 0)
        elif cfg['kind'] == 'fixed':
            p = Beta(name, val, 1, None, 1)
        else:  # an expression of a parameter: 2 * b with b = value / 2
            p = Numeric(2.0) * Beta(name, val / 2.0, None, None, 0)
            if name in override:
                override[name] = new / 2.0
        mu_m.append(new)
        alts = [labels[j] for j in members]
        nests.append(OneNestForNestedLogit(nest_param=p, list_of_alternatives=alts, name=f'n{i}')
                     if cfg['syntax'] == 'object' else (p, alts))
    kwargs = {}
    if cfg['pdict'] in ('override', 'partial'):
        kwargs['parameters'] = dict(override)
    top = 1.0
    if cfg['mu'] == 'one':
        kwargs['mu'] = 1.0
    elif cfg['mu'] == 'top':
        kwargs['mu'] = top = a['mu_top']
    name_of = {l: str(l) for l in labels}
    if cfg['names'] != 'none':
        name_of = {l: f'alt{l}' for l in labels}
        order = list(labels) if cfg['names'] == 'ordered' else sorted(labels, reverse=(sorted(labels) == list(labels)))
        if cfg['names'] == 'permuted' and order == list(labels):
            order = order[1:] + order[:1]
        kwargs['alternatives_names'] = {l: name_of[l] for l in order}
    try:
        obj = NestsForNestedLogit(choice_set=list(labels), tuple_of_nests=tuple(nests))
        corr = obj.correlation(**kwargs)
    except RuntimeError:
        rec.retire = True
        raise
    except Exception as e:  # noqa
        rec.case(('nest', 'raised', str(cfg)), exc_name(e), outcome='nest:raised')
        rec.violation(f'C17|nested-correlation|raises={exc_name(e)},kind={cfg["kind"]}', f'{cfg}: {exc_name(e)}: {e}', case_of(),
                      observed=repr(e))
        return
    _judge_nest(cfg, rec, corr, mu_m, top, name_of, case_of, '')
    if cfg['kind'] == 'float':
        return
    # the same object is asked again with a dictionary that holds the same names and OTHER values (the estimates of another
    # model), and then once more as the first time: every answer follows the values of its own request
    names_all = [f'mu_{chr(ord("z") - i)}' for i in range(len(nests_pos))]
    mu_2 = [menu[(i + 2) % len(menu)] + 0.25 * (i + 1) for i in range(len(nests_pos))]
    par_2 = {nm: (v / 2.0 if cfg['kind'] == 'expr' else v) for nm, v in zip(names_all, mu_2)}
    for tag, kw, mus in ((',second-request-on-the-same-object-with-other-values', dict(kwargs, parameters=par_2), mu_2),
                         (',first-request-repeated-after-another', kwargs, mu_m)):
        if tag.startswith(',first') and cfg['pdict'] != 'override':
            # a request that does not name every nest parameter reads the values the parameter objects hold now; the library
            # writes the values of a dictionary into them (change_init_values), so what such a request means after another one
            # is not fixed by the statement: not compared
            rec.count('skipped_repeated_request_that_does_not_name_every_parameter')
            continue
        try:
            corr_k = obj.correlation(**kw)
        except RuntimeError:
            rec.retire = True
            raise
        except Exception as e:  # noqa
            rec.violation(f'C17|nested-correlation|raises={exc_name(e)},kind={cfg["kind"]}{tag}', f'{cfg}: {exc_name(e)}: {e}',
                          case_of(), observed=repr(e))
            return
        _judge_nest(cfg, rec, corr_k, mus, top, name_of, case_of, tag)


def _judge_nest(cfg, rec, corr, mu_m, top, name_of, case_of, tag):
    labels = cfg['labels']
    nests_pos = cfg['nests']
    nest_of = {}
    for i, members in enumerate(nests_pos):
        for j in members:
            nest_of[labels[j]] = i
    listing = nest_listing_class(nests_pos)
    # only a member list in another order than the choice set is named in the finding key (the order of the tuple
    # of nests already varies in the canonical structures, whose keys stay as they were)
    listing_tag = ',listing=members-reordered' if listing == 'members-reordered' else ''
    ok_labels = sorted(map(str, corr.index)) == sorted(name_of.values()) and list(corr.index) == list(corr.columns)
    rec.case(('nest-labels', str(cfg), tag), list(map(str, corr.index)), outcome='nest:labels')
    if not ok_labels:
        rec.violation(f'C17|nested-correlation|labels,names={cfg["names"]}{tag}',
                      f'{cfg}: index {list(corr.index)} columns {list(corr.columns)}', case_of(),
                      expected=sorted(name_of.values()), observed=list(map(str, corr.index)))
        return
    for x, y in itertools.combinations_with_replacement(labels, 2):
        g = float(corr.loc[name_of[x], name_of[y]])
        g2 = float(corr.loc[name_of[y], name_of[x]])
        if x == y:
            e, clause = 1.0, 'diagonal'
        elif x in nest_of and nest_of.get(x) == nest_of.get(y):
            m = mu_m[nest_of[x]]
            e, clause = 1.0 - (top * top) / (m * m), 'within-nest'
        else:
            e, clause = 0.0, 'across-nests' if (x in nest_of and y in nest_of) else 'alone'
        rec.case(('nest', str(cfg), x, y, tag) if clause == 'within-nest' else None, (x, y, g),
                 outcome=f'nest:{clause}' + (':' + listing if listing != 'choice-set-order' else ''))
        if cfg.get('sample') and not rec.samples and clause == 'within-nest':
            rec.sample(dict(helper='NestsForNestedLogit.correlation', cfg=cfg, pair=[x, y], value=g, expected=e))
        if not (close(g, e) and close(g2, e)):
            rec.violation(f'C17|nested-correlation|{clause},names={cfg["names"]}{listing_tag}{tag}',
                          f'correlation of alternatives {x},{y} (looked up by label {name_of[x]!r},{name_of[y]!r}) = {g} / {g2}; '
                          f'expected {e} for nests {[[labels[j] for j in m_] for m_ in nests_pos]} with mu_m {mu_m}, mu {top}; cfg {cfg}',
                          case_of(pair=[x, y]), expected=e, observed=[g, g2])


# =========================================================================== tasks
def tasks(tier, seed):
    a = alph(seed)
    t = []
    # (pw)
    if tier == 'quick':
        ths = threshold_lists(a['th_values'], 4)
    else:
        ths = threshold_lists(a['th_values'] + [a['th_extra']], 5)
    ths = [[None, None], [None, None, None]] + ths
    for i, th in enumerate(ths):
        # K = 5 has 81 coefficient vectors: the passing form rotates over them; all forms for K <= 4
        kinds = 'all' if len(th) <= 4 else 'rotate'
        t.append(dict(part='pw', cfgs=[dict(th=th, coefs=a['coefs'], kinds=kinds, seed=seed, sample=(i == 40))]))
    # (bc)
    if tier == 'quick':
        lams, bxs = bc_lambdas(a['bc_far']), a['bc_x']
    else:
        lams, bxs = bc_lambdas(a['bc_far'] + a['bc_far_extra'], [5e-6, 2e-5, 1e-4]), a['bc_x'] + a['bc_x_extra']
    forms = ['var', 'num', 'free', 'fixed', 'dict']
    for f in forms:
        t.append(dict(part='bc', cfgs=[dict(form=f, xs=bxs, lams=lams, xform='var', seed=seed, sample=(f == 'free'))]))
    for f in (['num', 'free'] if tier == 'quick' else ['num', 'free', 'fixed']):
        t.append(dict(part='bc', cfgs=[dict(form=f, xs=bxs, lams=lams, xform='num', seed=seed)]))
    # (dist)
    nodes = 2000 if tier == 'quick' else 20000
    locs, scales = (a['loc'], a['scale']) if tier == 'quick' else (a['loc'] + a['loc_extra'], a['scale'] + a['scale_extra'])
    two = [(m, s) for m in locs for s in scales]
    families = [('normalpdf', two), ('lognormalpdf', two), ('logisticcdf', two), ('likelihoodregression', two),
                ('loglikelihoodregression', two), ('uniformpdf', a['uni']), ('triangularpdf', a['tri'])]
    # negative scale: inside the documented domain of loglikelihoodregression only (see check_dist); every
    # location x every scale of the menu with the opposite sign x every way of passing the parameters
    two_neg = [(m, -s) for m in locs for s in scales]
    families += [('likelihoodregression', two_neg), ('loglikelihoodregression', two_neg)]
    for dist, plist in families:
        kinds = list(DIST_KINDS)
        if dist in ('likelihoodregression', 'loglikelihoodregression'):
            kinds = ['numeric', 'free', 'fixed', 'dict', 'expr', 'column']  # documented argument type: Expression
        for kind in kinds:
            cfgs = [dict(dist=dist, params=list(p), kind=kind, nodes=nodes if (tier == 'thorough' or kind in ('num', 'free')) else 0,
                         seed=seed, sample=(pi == 1 and kind == 'free' and dist in ('normalpdf', 'triangularpdf')))
                    for pi, p in enumerate(plist)]
            t.append(dict(part='dist', cfgs=cfgs))
        if dist not in ('likelihoodregression', 'loglikelihoodregression'):
            t.append(dict(part='dist', cfgs=[dict(dist=dist, params=list(plist[0]), kind='default', nodes=nodes, seed=seed)]))
    # (seg)
    sc = seg_configs(a, tier)
    for i in range(0, len(sc), 12):
        t.append(dict(part='seg', cfgs=[dict(c, seed=seed, sample=(i == 24 and j == 0)) for j, c in enumerate(sc[i:i + 12])]))
    # (nest)
    nc = nest_configs(a, tier)
    for i in range(0, len(nc), 150):
        t.append(dict(part='nest', cfgs=[dict(c, seed=seed, sample=(i == 300)) for j, c in enumerate(nc[i:i + 150])]))
    return t


CHECKS = {'pw': check_pw, 'bc': check_bc, 'dist': check_dist, 'seg': check_seg, 'nest': check_nest}


def run_task(task):
    rec = Rec()
    f = CHECKS[task['part']]
    for i, cfg in enumerate(task['cfgs']):
        try:
            f(cfg, rec)
        except RuntimeError as e:
            # raised inside the engine: a helper built from admissible arguments must evaluate.  The engine error
            # is sticky (DESIGN 3.1): this worker is retired and the rest of the chunk is reported as not run.
            rec.retire = True
            rec.case((task['part'], 'engine-error', str(cfg)), 'RuntimeError', outcome='engine-error')
            rec.violation(f"C17|{task['part']}|engine-RuntimeError", f'engine raised on {cfg}: {e}',
                          dict(part=task['part'], cfg=cfg), observed=repr(e))
            left = len(task['cfgs']) - i - 1
            if left:
                rec.count('capped', left)
            break
    rec.count('evaluations_' + task['part'], rec.evals)
    for v in rec.violations:
        v['case'] = dict(v['case'], key=v['key'])  # replay re-executes the configuration and reports this clause
    return rec.result()


def replay(case):
    rec = Rec()
    try:
        CHECKS[case['part']](case['cfg'], rec)
    except RuntimeError as e:
        rec.violation(f"C17|{case['part']}|engine-RuntimeError", f'engine raised: {e}', case, observed=repr(e))
    if case.get('key'):
        return [v for v in rec.violations if v['key'] == case['key']]
    return rec.violations
