"""C18 -- MDCEV forecasts solve the consumer problem and the model pieces agree.

Bounded exhaustive exploration on the real ``biogeme.mdcev`` classes.

One *economic problem* is: a variant (gamma profile / translated / generalized / non monotonic),
prices present or not (where the variant supports them), a scale parameter present or not, which of the
three goods A, B, C (if any) is the outside good, a parameter set, a data row, a budget and one error
draw per good from {-1, 0, 1}^3 (all 27).  Good B is clearly dominated and one budget is small, so that
corner solutions are frequent (counted).  Every problem is given to the library under a whole alphabet
of *labelings* (which integer names the goods carry and in which order the dictionaries are filled).

Parts (``task['part']``):
 f  forecast sweep: ``forecast_bisection_one_draw`` for every problem x labeling, compared with a reference
    solution of the consumer problem computed here in plain Python (own closed forms, own bisection);
    KKT conditions evaluated with the reference marginal utilities at the library's answer; the library's own
    brute-force optimiser as a lower bound on the objective; ``Mdcev.forecast`` (data-frame API) against
    the one-draw answers; labeling differential (same consumption per *good* under every labeling).
 p  pieces: ``utility_one_alternative`` = engine value of ``utility_expression_one_alternative`` = reference
    closed form on a consumption x epsilon grid; ``derivative_utility_one_alternative`` = engine gradient of the
    symbolic utility = reference derivative; ``optimal_consumption_one_alternative`` = reference inverse on a
    dual-variable grid and round trip derivative(optimal(dual)) = dual; ``validation(row)`` returns [].
 h  histories over {set parameters A, set parameters B, forecast row 0/1, utility piece row 0, validation row 0}
    up to a depth bound, every step compared with the reference model holding the *current* parameters
    (a per-observation cache must not leak values of the previous parameters).
 d  data frames: which row is observation i.  ``Mdcev.forecast`` on tables (sequences of 1-4 alphabet rows) whose
    pandas index carries an alphabet of labels -- default range, permutations (left behind by the real
    ``DataFrame.sort_values``), offsets and gaps (left behind by the real ``Database.remove``), duplicates
    (``pandas.concat``), far / negative integers, strings, digit strings, floats -- with *different* draws for every
    observation: result i, draw j must be the reference optimum for the row at position i and draw j of
    epsilons[i].  The rows of ``Database.mdcev_row_split`` (all rows / an explicit reversed range) given to
    ``forecast_bisection_one_draw`` must be the rows at those positions.

    Budgets: a small one (corner solutions), a medium one and a *large* one (500; thorough also 4000): with a large
    budget the non-monotonic variant reaches optima with a negative multiplier (every mu_k + eps_k < 0), the only
    place where 'the budget is exhausted' is a binding equality and not merely an upper limit.  The library's
    brute-force optimiser is itself a forecast: its answer must be non-negative, exhaust the budget (1e-6 relative,
    SLSQP's accuracy), consume the outside good -- and must not be better than the bisection forecast.
 t  requested tolerances: the keyword options ``tolerance_dual`` / ``tolerance_budget`` of
    ``forecast_bisection_one_draw`` (keywords and positional) and of ``Mdcev.forecast`` over an alphabet of pairs
    (one omitted, budget looser, dual looser, equal): the answer must be non-negative, satisfy the KKT structure and
    be what the two tolerances allow -- either its budget gap is within ``tolerance_budget`` or it lies between the
    reference demands at (optimal multiplier +- ``tolerance_dual``).
 b  the brute-force routes: ``forecast_bruteforce_one_draw``, ``forecast(brute_force=True)`` (frame i, row j = the
    one-draw brute-force answer of observation i, draw j), ``forecast_comparison_one_draw`` and ``validate_forecast``
    with the library's log captured: the comparison must not raise, must not report a difference of the budget
    constraint between two budget-exhausting forecasts, must not report a difference of the objective when the
    reference objectives of the two answers agree to 1e-7 (nor stay silent when they differ by 1e-3) -- under the
    natural labeling and under a labeling whose sorted order differs from the positions.
 e  parameters obtained by an estimation: the model's own public entry point ``estimate_parameters`` (a real estimation,
    with and without a weight expression, on a data set written out by the reference solver: estimation rows x all 27
    draws; bounded unknown parameters, at most 20 iterations) mixed with the estimation_results setter and with
    observations, as histories over {estimate on data set A / B, set parameters A / B, observe} that hold at least one
    estimation (quick: depth 3, thorough: depth 4).  'Observe' = the pieces of row 0 (numeric utility = engine value of
    the symbolic utility = closed form, derivative = engine gradient = closed form, optimal consumption), the forecast
    of row 0 (reference optimum, KKT), ``validation(row 0)`` and the forecast of row 1 -- against the reference holding
    the *current* values: the starting values overwritten by what the returned results report.  A failing observation
    is repeated on a fresh model given the same values through the setter (key: stale state or not).

The reference (class ``Ref``) never imports biogeme.
"""
from __future__ import annotations

import itertools
import math
import os

from vf.rec import Rec

ID = 'C18'
LEVEL = 'exploration'
TECHNIQUE = ('bounded exhaustive enumeration of MDCEV consumer problems (variant x outside good x prices x scale x '
             'parameter set x row x budget x all 27 error draws) x an alphabet of integer labelings, executed on the '
             'real forecasting code and compared with a plain-Python reference solver / closed forms; exhaustive '
             'operation histories for the per-observation cache; an alphabet of data frames (row sequences x index '
             'labels x the operation that produced them) for the pairing observation <-> row <-> draws; an alphabet of '
             'requested (tolerance_dual, tolerance_budget) pairs x entry points; the brute-force routes (one draw, '
             'forecast(brute_force=True), forecast_comparison_one_draw, validate_forecast with captured log) held to the '
             'invariants of any forecast; exhaustive histories mixing the real estimation entry point '
             '(estimate_parameters, with / without weights), the estimation_results setter and observations')
RULE = ('one case per (problem, labeling) forecast, per (good, consumption, epsilon) / (good, dual, epsilon) piece '
        'comparison, per history step, per (data frame, observation, draw) of the data-frame sweep. A forecast case is non-trivial when the library returned a consumption vector '
        'that was compared with the reference optimum; corner solutions (some good at zero) are counted separately. '
        'distinct = distinct (part, configuration, parameter set, row, budget, draw, labeling | grid point | history | '
        'data frame, observation, draw) keys; part t: one case per (problem, tolerance pair, calling style / entry '
        'point); part b: one case per (problem, labeling, route); part e: one case per observation of a history '
        '(configuration, labeling, weights, history prefix) -- non-trivial when the observation follows an estimation.')
ASSUMPTIONS = [
    'the brute-force optimiser (scipy SLSQP) is only held to the invariants of any forecast (non-negative, budget '
    'exhausted to 1e-6 relative, outside good consumed, not better than the bisection forecast); how close it gets to '
    'the optimum is counted, not judged (it stops up to 3 % short on some problems)',
    'a tolerance keyword that is omitted is taken as 1e-10 (the loosest default of the entry points); a requested pair '
    'is met when the budget gap is within tolerance_budget or the answer lies between the reference demands at the '
    'optimal multiplier +- tolerance_dual',
    'continuous domains are covered on finite grids only (8 value alphabets selected by VERIF_SEED, budgets, '
    '{-1,0,1}^3 draws, 3 goods); utilities are strictly concave (0 < alpha < 1, gamma > 0, prices > 0) so the optimum '
    'is unique and the reference solver (own closed forms + bisection, plain Python) defines it',
    'the column of an epsilon vector that belongs to an alternative is the one given by the public map '
    'Mdcev.key_to_index (the library documents no other convention)',
    'parameters are changed only through the library API (the estimation_results setter, given an object with '
    'get_beta_values() as in the repository tests); prices / gamma / alpha / scale are data-independent expressions',
    'after estimate_parameters the model holds the values reported by the results it returned (get_beta_values()) on top '
    'of the previous ones; whether an estimation succeeds or converges is not judged (it is stopped after 20 iterations, '
    'estimates are kept inside the domain by bounds on the parameters; raised estimations are counted); the validation '
    'round trip at dual 10 is skipped (counted) when consumption + price * gamma cancels to less than 1e-6 relative',
    'observation i of a Database is the i-th row of its data frame by position (the order of the table), whatever '
    'labels the pandas index carries, and epsilons[i] are the draws of that observation (docstring of Mdcev.forecast)',
    'the engine (cythonbiogeme) is trusted for the value and gradient of the symbolic utility expression',
]
ANCHOR_FILES = ['src/biogeme/mdcev/mdcev.py', 'src/biogeme/mdcev/gamma_profile.py',
                'src/biogeme/mdcev/translated.py', 'src/biogeme/mdcev/generalized.py',
                'src/biogeme/mdcev/non_monotonic.py']
DETERMINISM_SLICE = 3

GOODS = ('A', 'B', 'C')
VARIANTS = ('gamma', 'translated', 'generalized', 'nonmono')
HAS_PRICES = {'gamma': True, 'translated': False, 'generalized': True, 'nonmono': False}
HAS_ALPHA = {'gamma': False, 'translated': True, 'generalized': True, 'nonmono': True}

# --------------------------------------------------------------------------- value alphabets
# baseline utilities:  V_A = b_a + b_x * x     V_B = b_b (dominated)     V_C = b_z * z
# mu utilities (non monotonic):  mu_A = m_a,  mu_B = m_b + m_x * x,  mu_C = m_c
V_SPEC = {'A': [('b_a', None), ('b_x', 'x')], 'B': [('b_b', None)], 'C': [('b_z', 'z')]}
MU_SPEC = {'A': [('m_a', None)], 'B': [('m_b', None), ('m_x', 'x')], 'C': [('m_c', None)]}


def alphabet(seed: int) -> dict:
    """Numeric constants of one run.  VERIF_SEED only selects the constants; the run is exhaustive over
    the space they span.  Dyadic shifts keep the arithmetic exact where possible."""
    s = int(seed) % 8
    d = 0.125 * (s % 4) + 0.0625 * (s // 4)   # seeds 0..7 -> eight different dyadic shifts
    D = {  # defaults = initial values of the Beta objects
        'b_a': 0.5 + d, 'b_x': 0.25, 'b_b': -3.0 - d, 'b_z': 0.5 + d / 2,
        'g_a': 1.0 + d, 'g_b': 2.0, 'g_c': 0.5 + d / 2,
        'al_a': 0.5, 'al_b': 0.25 + d / 4, 'al_c': 0.75 - d / 4,
        'p_a': 1.0, 'p_b': 2.0 + d, 'p_c': 0.5,
        'scale': 2.0 - d,
        'm_a': -0.5, 'm_b': -1.0 - d, 'm_x': 0.125, 'm_c': 0.25,
    }
    A = dict(D)  # parameter set A: moderate change of everything that is cached or read through get_value()
    A.update({'b_a': -0.25 - d, 'b_x': 0.5, 'b_b': -2.0, 'b_z': -0.5, 'g_a': 2.0, 'g_c': 1.5 + d,
              'al_a': 0.25, 'al_c': 0.5, 'p_a': 1.5, 'p_c': 1.0 + d, 'scale': 1.0 + d, 'm_a': 0.25, 'm_c': -0.75})
    B = dict(D)  # parameter set B: the dominated good changes (A becomes dominated, B attractive)
    B.update({'b_a': -3.0, 'b_x': -0.25, 'b_b': 0.75 + d, 'b_z': 1.0, 'g_a': 0.5, 'g_b': 1.0 + d, 'g_c': 3.0,
              'al_a': 0.75, 'al_b': 0.5, 'al_c': 0.25 + d / 4, 'p_a': 0.5, 'p_b': 1.0, 'p_c': 2.0,
              'scale': 0.5 + d / 2, 'm_a': -1.0, 'm_b': 0.5, 'm_x': -0.125, 'm_c': -0.25 - d})
    rows = [{'x': 1.0, 'z': 0.5 + d, 'unused': 7.0}, {'x': 2.0 + d, 'z': -1.0, 'unused': -3.0}]
    # ties (part g).  T: the three goods are identical (every utility 0 + 0 * x, the same gamma / alpha / price / mu): the
    # marginal utilities at zero of goods given the same draw are bitwise equal.  U: A and B identical, C as in D.
    T = dict(D)
    T.update({'b_a': 0.0, 'b_x': 0.0, 'b_b': 0.0, 'b_z': 0.0, 'g_a': 1.5 + d, 'g_b': 1.5 + d, 'g_c': 1.5 + d,
              'al_a': 0.5, 'al_b': 0.5, 'al_c': 0.5, 'p_a': 2.0 - d, 'p_b': 2.0 - d, 'p_c': 2.0 - d,
              'm_a': -0.5, 'm_b': -0.5, 'm_x': 0.0, 'm_c': -0.5})
    U = dict(D)
    U.update({'b_a': 0.25 + d, 'b_x': 0.0, 'b_b': 0.25 + d, 'g_a': 2.0, 'g_b': 2.0, 'al_a': 0.25 + d / 4, 'al_b': 0.25 + d / 4,
              'p_a': 1.0, 'p_b': 1.0, 'm_a': -0.5, 'm_b': -0.5, 'm_x': 0.0})
    return dict(psets={'D': D, 'A': A, 'B': B, 'T': T, 'U': U}, rows=rows)


_SEED = int(os.environ.get('VERIF_SEED', '0') or 0)


# --------------------------------------------------------------------------- reference (plain Python)
class Ref:
    """The consumer problem of one configuration, parameter values and data row; documented utility functions
    of the four variants written out by hand (see the class docstrings / utility expressions of the library):

      gamma        U = psi * gamma * ln(1 + x / (p gamma))              outside: psi * ln(x / p)
      translated   U = psi * (x + gamma)^alpha                          outside: psi * x^alpha
      generalized  U = psi * gamma * ((1 + x/(p gamma))^alpha - 1)/alpha   outside: psi * (x/p)^alpha / alpha
      nonmono      U = gamma e^V ((1 + x/gamma)^alpha - 1)/alpha + (mu + eps/sigma) x
                                                                        outside: e^V x^alpha/alpha + (mu+eps/sigma) x
      psi = exp(V + eps / sigma);  x is the expenditure, sum x = budget.
    """

    def __init__(self, cfg: dict, values: dict, row: dict):
        self.variant = cfg['variant']
        self.og = cfg['og']  # index of the outside good or None
        self.scale = values['scale'] if cfg['scale'] else None
        self.active = tuple(cfg.get('goods', (0, 1, 2)))   # goods of the model (part g: 1 or 2 goods only)
        self.V, self.gamma, self.alpha, self.price, self.mu = [], [], [], [], []
        for k, g in enumerate(GOODS):
            self.V.append(self._lin(V_SPEC[g], values, row))
            self.mu.append(self._lin(MU_SPEC[g], values, row))
            low = g.lower()
            self.gamma.append(None if self.og == k else values['g_' + low])
            self.alpha.append(values['al_' + low])
            self.price.append(values['p_' + low] if cfg['prices'] else 1.0)

    @staticmethod
    def _lin(spec, values, row):
        tot = None
        for beta, var in spec:
            term = values[beta] * row[var] if var is not None else values[beta]
            tot = term if tot is None else tot + term
        return tot

    def eps(self, e):
        return e / self.scale if self.scale is not None else e

    # -- utility ------------------------------------------------------------
    def U(self, k, x, e):
        V, g, a, p, e = self.V[k], self.gamma[k], self.alpha[k], self.price[k], self.eps(e)
        v = self.variant
        if v == 'gamma':
            if g is None:
                return math.exp(V + e) * math.log(x / p)
            return math.exp(V + e) * g * math.log(1 + x / (p * g))
        if v == 'translated':
            if g is None:
                return math.exp(V + e + a * math.log(x)) if x > 0 else 0.0
            return math.exp(V + e + a * math.log(x + g))
        if v == 'generalized':
            if g is None:
                return math.exp(V + e) * (x / p) ** a / a
            return math.exp(V + e) * g * ((1 + x / (p * g)) ** a - 1) / a
        if v == 'nonmono':
            if g is None:
                return math.exp(V) * (x ** a) / a + (self.mu[k] + e) * x
            return g * math.exp(V) * ((1 + x / g) ** a - 1) / a + (self.mu[k] + e) * x
        raise ValueError(v)

    # -- marginal utility ---------------------------------------------------
    def MU(self, k, x, e):
        V, g, a, p, e = self.V[k], self.gamma[k], self.alpha[k], self.price[k], self.eps(e)
        v = self.variant
        if g is None and x == 0:
            return math.inf
        if v == 'gamma':
            if g is None:
                return math.exp(V + e) / x
            return math.exp(V + e) * g / (x + p * g)
        if v == 'translated':
            if g is None:
                return math.exp(V + e) * a * x ** (a - 1)
            return math.exp(V + e) * a * (x + g) ** (a - 1)
        if v == 'generalized':
            if g is None:
                return math.exp(V + e) * (x / p) ** (a - 1) / p
            return math.exp(V + e) * (1 + x / (p * g)) ** (a - 1) / p
        if v == 'nonmono':
            if g is None:
                return math.exp(V) * x ** (a - 1) + self.mu[k] + e
            return math.exp(V) * (1 + x / g) ** (a - 1) + self.mu[k] + e
        raise ValueError(v)

    def dual_floor(self, k, e):
        """Marginal utility of good k stays above this value for every consumption."""
        return self.mu[k] + self.eps(e) if self.variant == 'nonmono' else 0.0

    # -- inverse of the marginal utility -------------------------------------
    def inv(self, k, lam, e):
        """x with MU(k, x) = lam (may be negative: no clipping).  lam must exceed dual_floor."""
        V, g, a, p, e = self.V[k], self.gamma[k], self.alpha[k], self.price[k], self.eps(e)
        v = self.variant
        try:
            if v == 'gamma':
                if g is None:
                    return math.exp(V + e) / lam
                return math.exp(V + e) * g / lam - p * g
            if v == 'translated':
                r = (lam / (math.exp(V + e) * a)) ** (1 / (a - 1))
                return r if g is None else r - g
            if v == 'generalized':
                r = (p * lam / math.exp(V + e)) ** (1 / (a - 1))
                return p * r if g is None else p * g * (r - 1)
            if v == 'nonmono':
                r = ((lam - self.mu[k] - e) * math.exp(-V)) ** (1 / (a - 1))
                return r if g is None else g * (r - 1)
        except OverflowError:
            return math.inf
        raise ValueError(v)

    # -- the consumer problem -------------------------------------------------
    def demand(self, lam, eps):
        xs = []
        for k in range(3):
            if k not in self.active:
                xs.append(0.0)
                continue
            if lam <= self.dual_floor(k, eps[k]):
                xs.append(math.inf)
                continue
            x = self.inv(k, lam, eps[k])
            xs.append(x if (self.og == k or x > 0) else 0.0)
        return xs

    def solve(self, budget, eps):
        """Unique optimum of max sum U_k(x_k) s.t. sum x = budget, x >= 0 (outside good > 0): (x, lambda)."""
        floor = max(self.dual_floor(k, eps[k]) for k in self.active)
        w = [self.MU(k, 0.0, eps[k]) for k in self.active]
        finite = [v for v in w if math.isfinite(v)]
        hi = max(finite + [floor + 1.0])
        n = 0
        while sum(self.demand(hi, eps)) > budget:
            hi = floor + (hi - floor) * 2.0
            n += 1
            if n > 2000:
                raise ArithmeticError('no upper bracket')
        lo = hi
        n = 0
        while sum(self.demand(lo, eps)) < budget:
            lo = floor + (lo - floor) / 2.0
            n += 1
            if n > 2000:
                raise ArithmeticError('no lower bracket')
        for _ in range(400):
            mid = (lo + hi) / 2.0
            if mid == lo or mid == hi:
                break
            if sum(self.demand(mid, eps)) > budget:
                lo = mid
            else:
                hi = mid
        lam = (lo + hi) / 2.0
        return self.demand(lam, eps), lam

    def objective(self, xs, eps):
        return sum(self.U(k, xs[k], eps[k]) for k in self.active)


# --------------------------------------------------------------------------- labelings
# labels of the goods (A, B, C) and the order in which the dictionaries are filled
PERMS_123 = [list(p) for p in itertools.permutations((1, 2, 3))]
LABELINGS_QUICK = (
    [dict(labels=p, order='fwd') for p in PERMS_123]
    + [dict(labels=[10, 20, 30], order='rev'),
       dict(labels=[0, 1, 2], order='mix'),
       dict(labels=[8, 1, 2], order='fwd'),     # set order 8,1,2: position != rank of the label
       dict(labels=[1, 10, 3], order='rev'),    # label 1 sits at position 0, position 1 holds label 10
       dict(labels=[8, 0, 1], order='fwd'),     # every label in {0,1} names another alternative's position
       dict(labels=[7, 15, 23], order='rev')]   # colliding hashes: positions depend on the insertion order
)
POOL = (0, 1, 2, 3, 8)


def labelings(tier):
    if tier == 'quick':
        return LABELINGS_QUICK
    out = list(LABELINGS_QUICK)
    seen = {(tuple(l['labels']), l['order']) for l in out}
    for i, p in enumerate(itertools.permutations(POOL, 3)):
        o = ('fwd', 'rev', 'mix')[i % 3]
        if (p, o) not in seen:
            seen.add((p, o))
            out.append(dict(labels=list(p), order=o))
    for p, o in [((7, 15, 23), 'fwd'), ((-1, -2, 5), 'fwd'), ((5, -2, -1), 'rev'), ((16, 8, 0), 'fwd'),
                 ((1000003, 2, 1), 'mix')]:
        out.append(dict(labels=list(p), order=o))
    return out


def dict_order(order, which):
    if order == 'fwd':
        return (0, 1, 2)
    if order == 'rev':
        return (2, 1, 0)
    return {'baseline': (0, 1, 2), 'gamma': (2, 1, 0), 'alpha': (1, 2, 0), 'prices': (2, 0, 1), 'mu': (1, 0, 2)}[which]


def configs(tier):
    out = []
    for variant in VARIANTS:
        for prices in ((False, True) if HAS_PRICES[variant] else (False,)):
            for scale in (False, True):
                for og in (None, 0, 1, 2):
                    out.append(dict(variant=variant, prices=prices, scale=scale, og=og))
    return out


def cfg_name(cfg):
    return (cfg['variant'] + ('+prices' if cfg['prices'] else '') + ('+scale' if cfg['scale'] else '')
            + '|og=' + ('none' if cfg['og'] is None else GOODS[cfg['og']])
            + ('|goods=' + ''.join(GOODS[k] for k in cfg['goods']) if 'goods' in cfg else ''))


# --------------------------------------------------------------------------- real objects
class _Results:
    """What the estimation_results setter needs: get_beta_values() (the repository tests use a mock too)."""

    def __init__(self, values):
        self._values = dict(values)

    def get_beta_values(self):
        return dict(self._values)


# bounds of the unknown parameters when the model is going to be estimated (part e): they contain every value of the
# parameter sets D, A, B of all value alphabets and keep the estimates inside the domain of the utility functions
# (gamma > 0, 0 < alpha < 1, prices > 0, scale > 0) and well conditioned
E_BOUNDS = {'g': (0.25, 8.0), 'al': (0.125, 0.875), 'p': (0.25, 4.0), 'scale': (0.25, 4.0), 'b': (-4.0, 4.0), 'm': (-2.0, 2.0)}


def beta_bounds(name):
    return E_BOUNDS[name.split('_')[0]]


def build_model(cfg, lab, defaults, bounded=False, weights=False):
    from biogeme.expressions import Beta, Variable
    from biogeme.mdcev import GammaProfile, Translated, Generalized, NonMonotonic

    betas = {}

    def beta(name):
        if name not in betas:
            lb, ub = beta_bounds(name) if bounded else (None, None)
            betas[name] = Beta(name, defaults[name], lb, ub, 0)
        return betas[name]

    def lin(spec):
        tot = None
        for b, var in spec:
            term = beta(b) * Variable(var) if var is not None else beta(b)
            tot = term if tot is None else tot + term
        return tot

    labels = lab['labels']
    order = lab['order']
    active = tuple(cfg.get('goods', (0, 1, 2)))

    def dorder(order, which):   # the goods of the model, in the order of the labeling
        return tuple(k for k in dict_order(order, which) if k in active)

    baseline = {labels[k]: lin(V_SPEC[GOODS[k]]) for k in dorder(order, 'baseline')}
    gamma = {labels[k]: (None if cfg['og'] == k else beta('g_' + GOODS[k].lower())) for k in dorder(order, 'gamma')}
    alpha = {labels[k]: beta('al_' + GOODS[k].lower()) for k in dorder(order, 'alpha')}
    kw = dict(model_name='m18', baseline_utilities=baseline, gamma_parameters=gamma)
    if HAS_ALPHA[cfg['variant']]:
        kw['alpha_parameters'] = alpha
    if cfg['scale']:
        kw['scale_parameter'] = beta('scale')
    if cfg['prices']:
        kw['prices'] = {labels[k]: beta('p_' + GOODS[k].lower()) for k in dorder(order, 'prices')}
    if cfg['variant'] == 'nonmono':
        kw['mu_utilities'] = {labels[k]: lin(MU_SPEC[GOODS[k]]) for k in dorder(order, 'mu')}
    if weights:
        kw['weights'] = Variable('w')
    cls = dict(gamma=GammaProfile, translated=Translated, generalized=Generalized, nonmono=NonMonotonic)[cfg['variant']]
    return cls(**kw)


def make_rows(rows):
    import pandas as pd
    from biogeme.database import Database

    df = pd.DataFrame(rows, columns=['unused', 'z', 'x'])
    db = Database('d18', df)
    one = [Database(f'row_{i}', df.iloc[[i]]) for i in range(len(rows))]
    return db, one


def set_params(model, alph, pset):
    if pset != 'D':
        model.estimation_results = _Results(alph['psets'][pset])


def lab_class(labels, index_to_key, og):
    pos = {key: i for i, key in enumerate(index_to_key)}
    if all(pos[l] == l for l in labels):
        return 'labels==positions'
    if og is not None and any(labels[k] == pos[labels[og]] for k in range(3) if k != og):
        return 'an-inside-label==outside-position'
    return 'labels!=positions'


def vkey(clause, cfg, cls=None):
    k = f"C18|{clause}|{cfg['variant']}|og={'none' if cfg['og'] is None else 'yes'}"
    if cls is not None:
        k += f'|labeling:{cls}'
    return k


def close(a, b, rel, ab):
    if not (math.isfinite(a) and math.isfinite(b)):
        return a == b
    return abs(a - b) <= ab + rel * max(abs(a), abs(b))


# --------------------------------------------------------------------------- part f: forecasts
X_ABS = 1e-7      # |x_lib - x_ref| <= X_ABS * max(1, budget)
BIG_BUDGET = 500.0    # large budgets: negative multipliers in the non-monotonic variant, flat demand curves
HUGE_BUDGET = 4000.0
DIFF_ABS = 1e-9   # labeling differential
BUDGET_TOL = 1e-6
MU_REL = 1e-6
OBJ_TOL = 1e-6
ZERO = 1e-9


def check_forecast(ref, budget, eps, xs, xref, lamref):
    """Oracle on one library answer xs (per good).  Returns list of (clause, detail)."""
    bad = []
    scale = max(1.0, budget)
    if any((not isinstance(v, float)) or math.isnan(v) for v in xs):
        return [('forecast-not-a-number', f'x={xs}')]
    if any(v < 0 for v in xs):
        bad.append(('negative-consumption', f'x={xs}'))
    if abs(sum(xs) - budget) > BUDGET_TOL * scale:
        bad.append(('budget-not-exhausted', f'sum x={sum(xs)!r} budget={budget}'))
    if ref.og is not None and not xs[ref.og] > 0:
        bad.append(('outside-good-not-consumed', f'x={xs}'))
    if bad:
        return bad
    # KKT with the reference marginal utilities at the library's point
    consumed = [k for k in ref.active if xs[k] > ZERO * scale]
    mus = {k: ref.MU(k, xs[k], eps[k]) for k in consumed}
    if consumed:
        lam = sum(mus.values()) / len(mus)
        w0 = [ref.MU(k, 0.0, eps[k]) for k in ref.active if ref.og != k]
        mag = max([abs(lam)] + [abs(v) for v in mus.values()] + [abs(v) for v in w0 if math.isfinite(v)])
        tol = MU_REL * mag
        if any(abs(v - lam) > tol for v in mus.values()):
            bad.append(('marginal-utilities-of-consumed-goods-differ', f'x={xs} MU={mus}'))
        for k in ref.active:
            if k not in consumed and ref.og != k:
                if ref.MU(k, 0.0, eps[k]) > lam + 10 * tol:
                    bad.append(('unconsumed-good-has-larger-marginal-utility',
                                f'x={xs} MU0[{GOODS[k]}]={ref.MU(k, 0.0, eps[k])!r} lambda={lam!r}'))
    if any(abs(xs[k] - xref[k]) > X_ABS * scale for k in range(3)):
        bad.append(('not-the-optimum', f'x={xs} reference={xref} lambda_ref={lamref!r}'))
    return bad


def tol_kwargs(td, tb):
    kw = {}
    if td is not None:
        kw['tolerance_dual'] = td
    if tb is not None:
        kw['tolerance_budget'] = tb
    return kw


def run_one_forecast(model, cfg, lab, row_db, budget, eps, tol=None):
    """eps per good -> library call -> consumption per good (list) or ('raised', text).
    tol = (tolerance_dual | None, tolerance_budget | None, 'kw' | 'pos'): the requested tolerances and how they are passed."""
    import numpy as np

    labels = lab['labels']
    active = tuple(cfg.get('goods', (0, 1, 2)))
    vec = np.zeros(len(active))
    for k in active:
        vec[model.key_to_index[labels[k]]] = eps[k]
    try:
        if tol is None:
            res = model.forecast_bisection_one_draw(one_row_of_database=row_db, total_budget=budget, epsilon=vec)
        elif tol[2] == 'pos':
            res = model.forecast_bisection_one_draw(row_db, budget, vec, tol[0], tol[1])
        else:
            res = model.forecast_bisection_one_draw(one_row_of_database=row_db, total_budget=budget, epsilon=vec,
                                                    **tol_kwargs(tol[0], tol[1]))
    except Exception as e:  # noqa: BLE001 - every exception on an in-domain problem is an observation
        return ('raised', type(e).__name__, str(e)[:200])
    if set(res) != {labels[k] for k in active}:
        return ('raised', 'wrong-keys', f'keys {sorted(res)} labels {sorted(labels[k] for k in active)}')
    return [float(res[labels[k]]) if k in active else 0.0 for k in range(3)]


def run_bruteforce(model, lab, row_db, budget, eps, active=(0, 1, 2)):
    import numpy as np

    labels = lab['labels']
    vec = np.zeros(len(active))
    for k in active:
        vec[model.key_to_index[labels[k]]] = eps[k]
    try:
        res = model.forecast_bruteforce_one_draw(one_row_database=row_db, total_budget=budget, epsilon=vec)
    except Exception as e:  # noqa: BLE001
        return ('raised', type(e).__name__, str(e)[:200])
    if res is None:
        return None
    return [float(res[labels[k]]) if k in active else 0.0 for k in range(3)]


BF_BUDGET_TOL = 1e-6   # relative; SLSQP's accuracy (measured on the unchanged library: <= 5e-12)
BF_NEG_TOL = 1e-9


def check_bruteforce(ref, budget, bf):
    """The invariants of ANY forecast, for the answer of the brute-force optimiser: list of (clause, detail)."""
    scale = max(1.0, budget)
    bad = []
    if any((not isinstance(v, float)) or math.isnan(v) for v in bf):
        return [('brute-force-forecast-not-a-number', f'x={bf}')]
    if any(v < -BF_NEG_TOL * scale for v in bf):
        bad.append(('brute-force-negative-consumption', f'x={bf}'))
    if abs(sum(bf) - budget) > BF_BUDGET_TOL * scale:
        bad.append(('brute-force-budget-not-exhausted', f'sum x={sum(bf)!r} budget={budget} x={bf}'))
    if ref.og is not None and not bf[ref.og] > 0:
        bad.append(('brute-force-outside-good-not-consumed', f'x={bf}'))
    return bad


def fcase(cfg, pset, ri, budget, eps, lab):
    return dict(part='f', cfg=cfg, pset=pset, row=ri, budget=budget, eps=list(eps), lab=lab, seed=_SEED)


def _part_f(task, rec):
    alph = alphabet(task.get('seed', _SEED))
    cfg, pset, ri = task['cfg'], task['pset'], task['row']
    db, one = make_rows(alph['rows'])
    ref = Ref(cfg, alph['psets'][pset], alph['rows'][ri])
    labs = task['labs']
    budgets = task['budgets']
    draws = [tuple(float(v) for v in e) for e in task['draws']]
    bf_labs = set(task.get('bf_labs', [0]))
    name = cfg_name(cfg)
    refsol = {}
    for budget in budgets:
        for eps in draws:
            try:
                refsol[(budget, eps)] = ref.solve(budget, eps)
            except (ArithmeticError, ValueError, ZeroDivisionError):
                refsol[(budget, eps)] = None
                rec.count('skipped_reference_has_no_solution')
    first_answer = {}
    fails = {}   # (budget, eps, clause) -> list of (cls, what, case, expected, observed)
    ran = {}     # (budget, eps) -> number of labelings executed
    answered = {}  # (budget, eps) -> number of labelings for which the library returned a consumption vector

    def fail(budget, eps, clause, cls, what, case, expected, observed):
        fails.setdefault((budget, eps, clause), []).append((cls, what, case, expected, observed))

    for li, lab in enumerate(labs):
        model = build_model(cfg, lab, alph['psets']['D'])
        set_params(model, alph, pset)
        itk = list(model.index_to_key)
        if sorted(itk) != sorted(lab['labels']) or any(model.key_to_index[k] != i for i, k in enumerate(itk)):
            rec.violation(vkey('label-position-maps-inconsistent', cfg), f'index_to_key={itk} key_to_index={model.key_to_index}',
                          fcase(cfg, pset, ri, budgets[0], draws[0], lab))
            continue
        cls = lab_class(lab['labels'], itk, cfg['og'])
        rec.count('labeling_class:' + cls)
        for budget in budgets:
            for eps in draws:
                sol = refsol[(budget, eps)]
                if sol is None:
                    continue
                xref, lamref = sol
                ran[(budget, eps)] = ran.get((budget, eps), 0) + 1
                case = fcase(cfg, pset, ri, budget, eps, lab)
                where = (f'{name} params {pset} row {ri} budget {budget} eps(A,B,C)={list(eps)} labels(A,B,C)={lab["labels"]} '
                         f'[{lab["order"]}]')
                out = run_one_forecast(model, cfg, lab, one[ri], budget, eps)
                ck = ('f', name, pset, ri, budget, eps, tuple(lab['labels']), lab['order'])
                if isinstance(out, tuple):
                    rec.case(None, (ck, out), outcome=f"{cfg['variant']}|raised:{out[1]}")
                    rec.count('forecast_raised')
                    fail(budget, eps, 'forecast-raises:' + out[1], cls,
                         f'{where}: forecast_bisection_one_draw raised {out[1]}: {out[2]}', case, dict(x=xref), f'{out[1]}: {out[2]}')
                    if out[1] == 'RuntimeError':
                        rec.retire = True
                    continue
                xs = out
                answered[(budget, eps)] = answered.get((budget, eps), 0) + 1
                scale = max(1.0, budget)
                pattern = ''.join(GOODS[k] for k in range(3) if xs[k] > ZERO * scale)
                ncorner = sum(1 for k in range(3) if xref[k] == 0.0)
                rec.count('corner_solutions' if ncorner else 'interior_solutions')
                if ncorner == 2:
                    rec.count('corner_solutions_two_goods_at_zero')
                rec.case(ck, (ck, [round(v, 9) for v in xs]), outcome=f"{cfg['variant']}|consumed={pattern}")
                if li == 0 and budget == budgets[0] and eps == draws[0]:
                    rec.sample(dict(case=case, x=xs, reference=xref))
                for clause, detail in check_forecast(ref, budget, eps, xs, xref, lamref):
                    fail(budget, eps, clause, cls, f'{where}: {clause}: {detail}', case, dict(x=xref, dual=lamref), dict(x=xs))
                # labeling differential
                key = (budget, eps)
                if key not in first_answer:
                    first_answer[key] = (xs, lab)
                else:
                    x0, lab0 = first_answer[key]
                    if any(abs(xs[k] - x0[k]) > DIFF_ABS * scale for k in range(3)):
                        rec.violation(vkey('consumption-depends-on-labeling', cfg, cls),
                                      f'{name} params {pset} row {ri} budget {budget} eps={list(eps)}: labels {lab["labels"]} give x(A,B,C)={xs} '
                                      f'but labels {lab0["labels"]} give {x0}', dict(case, lab0=lab0), expected=x0, observed=xs)
                # brute force of the library as lower bound on the objective
                if li in bf_labs:
                    bf = run_bruteforce(model, lab, one[ri], budget, eps)
                    if bf is None:
                        rec.count('bruteforce_returned_none')
                    elif isinstance(bf, tuple):
                        rec.count('bruteforce_raised:' + bf[1])
                        if bf[1] == 'RuntimeError':
                            rec.retire = True
                    else:
                        # the brute-force answer is a forecast too: non-negative, budget exhausted, outside good consumed
                        for clause, detail in check_bruteforce(ref, budget, bf):
                            fail(budget, eps, clause, cls, f'{where}: forecast_bruteforce_one_draw: {clause}: {detail}', case,
                                 dict(sum=budget, reference_optimum=xref), dict(x=bf))
                        feasible = (abs(sum(bf) - budget) <= 1e-7 * scale and all(v >= -1e-9 for v in bf)
                                    and (ref.og is None or bf[ref.og] > 0))
                        if not feasible:
                            rec.count('bruteforce_infeasible_skipped')
                        else:
                            try:
                                ob = ref.objective([max(v, 0.0) for v in bf], eps)
                                ol = ref.objective(xs, eps)
                            except (ValueError, OverflowError):
                                rec.count('bruteforce_objective_undefined_skipped')
                            else:
                                rec.count('bruteforce_compared')
                                if ol < ob - OBJ_TOL * max(1.0, abs(ob)):
                                    fail(budget, eps, 'worse-than-brute-force', cls,
                                         f'{where}: objective {ol!r} at x={xs} < brute force objective {ob!r} at {bf}', case, ob, ol)
                                if ob < ol - 1e-4 * max(1.0, abs(ol)):
                                    rec.count('bruteforce_worse_than_forecast_by_1e-4')
    # a clause failing under every labeling of the task is not about labels: one key ('labeling:any');
    # otherwise the key carries the class of the failing labeling
    force = task.get('force_cls')
    for (budget, eps, clause), lst in fails.items():
        n = ran.get((budget, eps), 0) if clause.startswith('forecast-raises') else answered.get((budget, eps), 0)
        nb = n
        everywhere = (len(lst) >= nb and nb > 1) or clause == 'worse-than-brute-force' or clause.startswith('brute-force-')
        for cls, what, case, expected, observed in lst:
            c = force if force is not None else ('any' if everywhere else cls)
            rec.violation(vkey(clause, cfg, c), what, dict(case, cls=c), expected=expected, observed=observed)


# --------------------------------------------------------------------------- part a: the data-frame API
def _part_a(task, rec):
    """Mdcev.forecast on the whole table (both rows, all 27 draws per row) against the reference optimum."""
    import numpy as np

    alph = alphabet(task.get('seed', _SEED))
    cfg, pset, lab, budget = task['cfg'], task['pset'], task['lab'], task['budget']
    db, _ = make_rows(alph['rows'])
    name = cfg_name(cfg)
    labels = lab['labels']
    draws = list(itertools.product((-1.0, 0.0, 1.0), repeat=3))
    model = build_model(cfg, lab, alph['psets']['D'])
    set_params(model, alph, pset)
    cls = lab_class(labels, list(model.index_to_key), cfg['og'])
    arr = np.zeros((len(draws), 3))
    for d, eps in enumerate(draws):
        for k in range(3):
            arr[d, model.key_to_index[labels[k]]] = eps[k]
    case = dict(part='a', cfg=cfg, pset=pset, lab=lab, budget=budget, seed=_SEED)
    ck = ('a', name, pset, budget, tuple(labels), lab['order'])
    try:
        frames = model.forecast(database=db, total_budget=budget, epsilons=[arr.copy() for _ in alph['rows']])
    except Exception as e:  # noqa: BLE001
        rec.case(None, (ck, 'raised', type(e).__name__), outcome=f"{cfg['variant']}|api-raised:{type(e).__name__}")
        rec.count('forecast_api_raised')
        rec.violation(vkey('forecast-api-raises:' + type(e).__name__, cfg, cls),
                      f'{name} params {pset} budget {budget} labels {labels} [{lab["order"]}]: Mdcev.forecast (2 rows x 27 draws) raised '
                      f'{type(e).__name__}: {str(e)[:200]}', case, observed=f'{type(e).__name__}: {str(e)[:200]}')
        if isinstance(e, RuntimeError):
            rec.retire = True
        return
    ok = len(frames) == len(alph['rows']) and all(list(f.columns) == sorted(labels) and len(f) == len(draws) for f in frames)
    if not ok:
        rec.case(None, (ck, 'shape'), outcome='api-shape')
        rec.violation(vkey('forecast-api-shape', cfg, cls), f'{name} labels {labels}: {len(frames)} frames, columns '
                      f'{[list(map(int, f.columns)) for f in frames]}, lengths {[len(f) for f in frames]}', case,
                      expected=dict(frames=len(alph['rows']), columns=sorted(labels), rows=len(draws)))
        return
    for ri, f in enumerate(frames):
        ref = Ref(cfg, alph['psets'][pset], alph['rows'][ri])
        for d, eps in enumerate(draws):
            xs = [float(f[labels[k]].iloc[d]) for k in range(3)]
            try:
                xref, lamref = ref.solve(budget, eps)
            except (ArithmeticError, ValueError, ZeroDivisionError):
                rec.count('skipped_reference_has_no_solution')
                continue
            rec.case(ck + (ri, eps), (ck, ri, eps, [round(v, 7) for v in xs]), outcome=f"{cfg['variant']}|api")
            if any(abs(xs[k] - xref[k]) > 1e-6 * max(1.0, budget) for k in range(3)):
                rec.violation(vkey('forecast-api-not-the-optimum', cfg, cls),
                              f'{name} params {pset} row {ri} budget {budget} draw #{d} {list(eps)} labels {labels}: forecast() gives x(A,B,C)={xs}, '
                              f'reference {xref}', dict(case, row=ri, draw=d), expected=xref, observed=xs)


# --------------------------------------------------------------------------- part d: data frames
# Observation i of a Database is its i-th row (by position), whatever labels the pandas index carries, and
# epsilons[i] are the draws of that observation.  A data frame is (sequence of alphabet rows, kind of index
# labels, how the frame got them: given directly, or produced by the real operation that leaves such labels
# behind -- DataFrame.sort_values, Database.remove, pandas.concat).
D_SEQS_QUICK = ((0, 1), (1, 0, 1))
D_SEQS_THOROUGH = ((0, 1), (1, 0, 1), (0,), (1,), (1, 0), (0, 0, 1), (0, 1, 1, 0))
D_KINDS = ('range', 'reversed', 'rotated', 'offset', 'gaps', 'far', 'negative', 'duplicate', 'string', 'float',
           'string-digits')
D_KINDS_QUICK = ('range', 'reversed', 'rotated', 'offset', 'gaps', 'far', 'negative', 'duplicate', 'string-digits')
D_OPS = {'reversed': 'sort_values', 'rotated': 'sort_values', 'offset': 'remove', 'gaps': 'remove',
         'duplicate': 'concat'}
D_COLUMNS = ['unused', 'z', 'x', 'pos', 'drop']
ALL_DRAWS = [tuple(float(v) for v in e) for e in itertools.product((-1.0, 0.0, 1.0), repeat=3)]


def index_labels(kind, n):
    if kind == 'range':
        return list(range(n))
    if kind == 'reversed':
        return list(range(n - 1, -1, -1))
    if kind == 'rotated':
        return [(i + 1) % n for i in range(n)]
    if kind == 'offset':
        return [i + 1 for i in range(n)]
    if kind == 'gaps':
        return [2 * i + (1 if i else 0) for i in range(n)]        # 0, 3, 5, ...
    if kind == 'far':
        return [1000003 - 7 * i for i in range(n)]
    if kind == 'negative':
        return [-1 - i for i in range(n)]
    if kind == 'duplicate':
        return [i % ((n + 1) // 2) for i in range(n)]             # 0,0 / 0,1,0 / 0,1,0,1
    if kind == 'string':
        return ['r' + 'abcdefgh'[n - 1 - i] for i in range(n)]
    if kind == 'string-digits':
        return [str((i + 1) % n) for i in range(n)]
    if kind == 'float':
        return [0.5 + i for i in range(n)]
    raise ValueError(kind)


def index_class(labels):
    n = len(labels)
    if labels == list(range(n)):
        return 'default'
    if not all(isinstance(v, int) for v in labels):
        return 'non-integer-labels'
    if len(set(labels)) < n:
        return 'duplicate-labels'
    if sorted(labels) == list(range(n)):
        return 'permutation-of-0..n-1'
    return 'integer-labels-not-0..n-1'


def frames(tier):
    """(sequence, kind, how) of every data frame of the tier; frames with the same labels obtained the same way
    (e.g. 'reversed' and 'rotated' on two rows) are listed once."""
    out, seen = [], set()
    for seq in (D_SEQS_QUICK if tier == 'quick' else D_SEQS_THOROUGH):
        for kind in (D_KINDS_QUICK if tier == 'quick' else D_KINDS):
            hows = ['direct'] + ([D_OPS[kind]] if kind in D_OPS else [])
            if tier == 'quick' and kind in D_OPS:
                hows = hows[1:]      # quick: the labels left behind by the real operation only
            for how in hows:
                sig = (seq, tuple(index_labels(kind, len(seq))), how)
                if sig in seen or (how == 'concat' and len(seq) < 2):
                    continue
                seen.add(sig)
                out.append([list(seq), kind, how])
    return out


def build_frame(alph, frame):
    """-> (Database, labels).  Row i of the result holds alphabet row seq[i] (and pos = i, drop = 0)."""
    import pandas as pd
    from biogeme.database import Database
    from biogeme.expressions import Variable

    seq, kind, how = frame
    n = len(seq)
    labels = index_labels(kind, n)
    recs = [dict(alph['rows'][s], pos=float(i), drop=0.0) for i, s in enumerate(seq)]
    if how == 'direct':
        db = Database('d18', pd.DataFrame(recs, columns=D_COLUMNS, index=labels))
    elif how == 'sort_values':
        # a frame with the default index whose row number L is the one that must end up with label L
        pre = [None] * n
        for i, lbl in enumerate(labels):
            pre[lbl] = recs[i]
        db = Database('d18', pd.DataFrame(pre, columns=D_COLUMNS).sort_values('pos'))
    elif how == 'remove':
        filler = dict(alph['rows'][1 - seq[0]], pos=-1.0, drop=1.0)
        pre = [dict(filler) for _ in range(max(labels) + 2)]
        for i, lbl in enumerate(labels):
            pre[lbl] = recs[i]
        db = Database('d18', pd.DataFrame(pre, columns=D_COLUMNS))
        db.remove(Variable('drop'))
    elif how == 'concat':
        h = (n + 1) // 2
        db = Database('d18', pd.concat([pd.DataFrame(recs[:h], columns=D_COLUMNS), pd.DataFrame(recs[h:], columns=D_COLUMNS)]))
    else:
        raise ValueError(how)
    got = list(db.data.index)
    if got != labels or [float(v) for v in db.data['pos']] != [float(i) for i in range(n)]:
        raise AssertionError(f'harness: frame {frame} has index {got} pos {list(db.data["pos"])}, wanted {labels}')
    return db, labels


def draws_of_observation(i, nd):
    """nd different draws; another selection / order for every observation (11 is coprime with 27)."""
    return [ALL_DRAWS[(3 + 5 * i + 11 * j) % 27] for j in range(nd)]


def dkey(clause, cls):
    return f'C18|forecast-on-data-frame:{clause}|index:{cls}'


def _d_frame(rec, model, cfg, pset, lab, budget, frame, nd, alph, name, refs, fails, split_orders):
    """One data frame: Mdcev.forecast on the whole table, then the rows of Database.mdcev_row_split given to the
    one-draw function.  Failures go to ``fails`` (at most one per clause and frame)."""
    import numpy as np

    seq, kind, how = frame
    labels = lab['labels']
    n = len(seq)
    ftag = (tuple(seq), kind, how)
    ck = ('d', name, pset, budget, tuple(labels), lab['order'], ftag, nd)
    case = dict(part='d', cfg=cfg, pset=pset, lab=lab, budget=budget, frame=frame, ndraws=nd, seed=_SEED)
    db, idx = build_frame(alph, frame)
    cls = index_class(idx)
    rec.count('frame_index_class:' + cls)
    where = (f'{name} params {pset} budget {budget} labels {labels}: data frame with rows {list(seq)} of the alphabet, '
             f'index labels {idx} ({how})')

    def fail(clause, what, expected=None, observed=None):
        fails.append((clause, cls, f'{where}: {what}', case, expected, observed))

    def ref_of(s, eps):
        if (s, eps) not in refs:
            try:
                refs[(s, eps)] = Ref(cfg, alph['psets'][pset], alph['rows'][s]).solve(budget, eps)[0]
            except (ArithmeticError, ValueError, ZeroDivisionError):
                refs[(s, eps)] = None
        return refs[(s, eps)]

    def vec(eps):
        v = np.zeros(3)
        for k in range(3):
            v[model.key_to_index[labels[k]]] = eps[k]
        return v

    draws = [draws_of_observation(i, nd) for i in range(n)]
    # in-domain only: every (row, draw) of the table must have a reference solution
    if any(ref_of(seq[i], e) is None for i in range(n) for e in draws[i]):
        rec.count('skipped_reference_has_no_solution')
        return
    tol = 1e-6 * max(1.0, budget)

    def who(xs):
        """Which (row position, observation whose draws) the answer is the optimum of -- text only."""
        hits = []
        for i2 in range(n):
            for i3 in range(n):
                for j3, e in enumerate(draws[i3]):
                    r = ref_of(seq[i2], e)
                    if r is not None and all(abs(xs[k] - r[k]) <= tol for k in range(3)):
                        hits.append(f'row at position {i2} with draw #{j3} of observation {i3}')
        return ('it is the optimum of ' + ' / '.join(hits[:3])) if hits else 'it is the optimum of no (row, draw) of the table'

    # (1) the data-frame API
    try:
        res = model.forecast(database=db, total_budget=budget, epsilons=[np.array([vec(e) for e in draws[i]]) for i in range(n)])
    except Exception as e:  # noqa: BLE001
        rec.case(None, (ck, 'raised', type(e).__name__), outcome=f'frame|api-raised:{type(e).__name__}')
        rec.count('forecast_api_raised')
        fail('forecast-raises:' + type(e).__name__, f'Mdcev.forecast ({n} rows x {nd} draws) raised {type(e).__name__}: {str(e)[:200]}',
             observed=f'{type(e).__name__}: {str(e)[:200]}')
        if isinstance(e, RuntimeError):
            rec.retire = True
        res = None
    if res is not None:
        ok = len(res) == n and all(list(f.columns) == sorted(labels) and len(f) == nd for f in res)
        if not ok:
            rec.case(None, (ck, 'shape'), outcome='frame|api-shape')
            fail('forecast-shape', f'{len(res)} frames, columns {[list(f.columns) for f in res][:4]}, lengths {[len(f) for f in res]}',
                 expected=dict(frames=n, columns=sorted(labels), rows=nd))
        else:
            first = True
            for i in range(n):
                for j, eps in enumerate(draws[i]):
                    xs = [float(res[i][labels[k]].iloc[j]) for k in range(3)]
                    xref = ref_of(seq[i], eps)
                    good = all(abs(xs[k] - xref[k]) <= tol for k in range(3))
                    rec.case(ck + ('api', i, j), (ck, i, j, [round(v, 7) for v in xs]),
                             outcome=f"{cfg['variant']}|frame|{cls}|{'ok' if good else 'bad'}")
                    if not good and first:
                        first = False
                        fail('observation-i-is-not-the-ith-row-with-its-draws',
                             f'forecast()[{i}] draw #{j} {list(eps)} gives x(A,B,C)={xs}; the optimum for the row at position {i} '
                             f'(alphabet row {seq[i]}) is {xref}; {who(xs)}', expected=xref, observed=xs)
                    elif not good:
                        rec.count('frame_further_wrong_answers')
    # (2) the library's own split of the table, fed to the one-draw function
    for order in split_orders:
        try:
            rows = db.mdcev_row_split() if order == 'all' else db.mdcev_row_split(range(n - 1, -1, -1))
            if order != 'all':
                rows = list(reversed(rows))
        except Exception as e:  # noqa: BLE001
            rec.case(None, (ck, 'split', order, type(e).__name__), outcome='frame|split-raised')
            fail('mdcev_row_split-raises:' + type(e).__name__, f'Database.mdcev_row_split [{order}] raised {type(e).__name__}: {str(e)[:200]}',
                 observed=f'{type(e).__name__}: {str(e)[:200]}')
            continue
        if len(rows) != n or any(len(r.data) != 1 for r in rows):
            rec.case(None, (ck, 'split', order, 'shape'), outcome='frame|split-shape')
            fail('mdcev_row_split-shape', f'[{order}] {len(rows)} databases of sizes {[len(r.data) for r in rows]}', expected=[1] * n)
            continue
        first = True
        for i in range(n):
            eps = draws[i][0]
            out = run_one_forecast(model, cfg, lab, rows[i], budget, eps)
            xref = ref_of(seq[i], eps)
            if isinstance(out, tuple):
                rec.case(None, (ck, 'split', order, i, out), outcome=f'frame|split|raised:{out[1]}')
                if first:
                    first = False
                    fail('forecast-of-a-split-row-raises:' + out[1], f'[{order}] row {i}: {out[1]}: {out[2]}', expected=xref, observed=f'{out[1]}: {out[2]}')
                if out[1] == 'RuntimeError':
                    rec.retire = True
                continue
            good = all(abs(out[k] - xref[k]) <= tol for k in range(3))
            rec.case(ck + ('split', order, i), (ck, order, i, [round(v, 7) for v in out]),
                     outcome=f"{cfg['variant']}|frame-split|{cls}|{'ok' if good else 'bad'}")
            if not good and first:
                first = False
                fail('mdcev_row_split-row-i-is-not-the-ith-row',
                     f'[{order}] forecast for the database of row {i}, draw {list(eps)}, gives x(A,B,C)={out}; the optimum for the row at '
                     f'position {i} is {xref}; {who(out)}', expected=xref, observed=out)


def _part_d(task, rec):
    alph = alphabet(task.get('seed', _SEED))
    cfg, pset, lab, budget, nd = task['cfg'], task['pset'], task['lab'], task['budget'], task['ndraws']
    name = cfg_name(cfg)
    model = build_model(cfg, lab, alph['psets']['D'])
    set_params(model, alph, pset)
    refs, fails = {}, []
    per_frame = []
    for frame in task['frames']:
        before = len(fails)
        _d_frame(rec, model, cfg, pset, lab, budget, frame, nd, alph, name, refs, fails, task.get('split', ['all', 'reversed-range']))
        per_frame.append((frame, len(fails) > before))
    if task.get('sample') and task['frames']:
        rec.sample(dict(part='d', cfg=cfg, frames=[f for f, _ in per_frame], failed=[b for _, b in per_frame]))
    # a clause that also fails on a frame with the default index is not about the index: one key ('index:any')
    force = task.get('force_cls')
    default_fails = {clause for clause, cls, *_ in fails if cls == 'default'}
    for clause, cls, what, case, expected, observed in fails:
        c = force if force is not None else ('any' if clause in default_fails else cls)
        rec.violation(dkey(clause, c), what, dict(case, cls=c), expected=expected, observed=observed)


# --------------------------------------------------------------------------- part t: requested tolerances
# (tolerance_dual, tolerance_budget); None = the keyword is omitted (the entry point's default applies)
DEFAULT_TOL = 1e-10   # loosest default of the entry points (forecast: 1e-10, one draw / validate_forecast: 1e-13)
TOLS_QUICK = ((None, 1e-3), (1e-14, 1e-3), (1e-3, None), (1e-6, 1e-2), (1e-3, 1e-3))
TOLS_MORE = ((1e-3, 1e-13), (1e-2, 1e-6), (1e-8, 1e-8), (None, 1e-1), (1e-1, None), (1e-5, 1e-4), (1e-12, 1.0))


def tol_eff(t):
    return DEFAULT_TOL if t is None else t


def tol_class(td, tb):
    a, b = tol_eff(td), tol_eff(tb)
    return 'budget-looser' if b > a else ('dual-looser' if a > b else 'equal')


def tol_name(td, tb):
    return f"tolerance_dual={'omitted' if td is None else td!r}, tolerance_budget={'omitted' if tb is None else tb!r}"


def check_forecast_tol(ref, budget, eps, xs, xref, lamref, td, tb):
    """Oracle on one library answer obtained with requested tolerances.  The statement's clauses (non-negative, outside
    good consumed, equal marginal utilities of the consumed goods, no larger marginal utility at zero) are kept; 'exhausts
    the budget' and 'is the optimum' hold up to what was requested: either the budget gap is within tolerance_budget
    (then, the demands being monotone in the multiplier, no good is further than that from the optimum) or the answer
    lies between the reference demands at (optimal multiplier + tolerance_dual) and (optimal multiplier - tolerance_dual)."""
    bad = []
    scale = max(1.0, budget)
    if any((not isinstance(v, float)) or math.isnan(v) for v in xs):
        return [('forecast-not-a-number', f'x={xs}')]
    if any(v < 0 for v in xs):
        bad.append(('negative-consumption', f'x={xs}'))
    if ref.og is not None and not xs[ref.og] > 0:
        bad.append(('outside-good-not-consumed', f'x={xs}'))
    if bad:
        return bad
    td_, tb_ = tol_eff(td), tol_eff(tb)
    slack = X_ABS * scale
    gap = abs(sum(xs) - budget)
    by_budget = (gap <= tb_ * (1 + 1e-9) + 1e-12 * scale
                 and all(abs(xs[k] - xref[k]) <= tb_ * (1 + 1e-9) + slack for k in range(3)))
    by_dual = False
    lo = hi = None
    if not by_budget:
        t = td_ * (1 + 1e-9) + 1e-15 * max(1.0, abs(lamref))
        lo = ref.demand(lamref + t, eps)
        hi = ref.demand(lamref - t, eps)     # inf for a good whose marginal utility never gets that low
        by_dual = all(lo[k] - slack <= xs[k] <= hi[k] + slack for k in range(3))
    if not (by_budget or by_dual):
        bad.append(('requested-tolerances-not-met',
                    f'x={xs} sum x={sum(xs)!r} budget={budget} (gap {gap:.3g}); optimum {xref} at multiplier {lamref!r}; '
                    f'demands at multiplier+tolerance_dual {lo}, at multiplier-tolerance_dual {hi}'))
    # KKT with the reference marginal utilities at the library's point
    consumed = [k for k in ref.active if xs[k] > ZERO * scale]
    mus = {k: ref.MU(k, xs[k], eps[k]) for k in consumed}
    if consumed:
        lam = sum(mus.values()) / len(mus)
        w0 = [ref.MU(k, 0.0, eps[k]) for k in ref.active if ref.og != k]
        mag = max([abs(lam)] + [abs(v) for v in mus.values()] + [abs(v) for v in w0 if math.isfinite(v)])
        tol = MU_REL * mag
        if any(abs(v - lam) > tol for v in mus.values()):
            bad.append(('marginal-utilities-of-consumed-goods-differ', f'x={xs} MU={mus}'))
        for k in ref.active:
            if k not in consumed and ref.og != k:
                # the multiplier of the answer may be below the optimal one by what was requested
                if ref.MU(k, 0.0, eps[k]) > max(lam, lamref) + 10 * tol:
                    bad.append(('unconsumed-good-has-larger-marginal-utility',
                                f'x={xs} MU0[{GOODS[k]}]={ref.MU(k, 0.0, eps[k])!r} lambda={lam!r} optimal lambda={lamref!r}'))
    return bad


def tkey(clause, cfg, tc):
    return vkey(clause, cfg) + f'|tolerances:{tc}'


def _part_t(task, rec):
    import numpy as np

    alph = alphabet(task.get('seed', _SEED))
    cfg, pset, budget, lab = task['cfg'], task['pset'], task['budget'], task['lab']
    rows = task['rows']
    draws = [tuple(float(v) for v in e) for e in task['draws']]
    db, one = make_rows(alph['rows'])
    name = cfg_name(cfg)
    labels = lab['labels']
    model = build_model(cfg, lab, alph['psets']['D'])
    set_params(model, alph, pset)
    refs, sols = {}, {}
    for ri in range(len(alph['rows'])):
        refs[ri] = Ref(cfg, alph['psets'][pset], alph['rows'][ri])
        for eps in draws:
            try:
                sols[(ri, eps)] = refs[ri].solve(budget, eps)
            except (ArithmeticError, ValueError, ZeroDivisionError):
                sols[(ri, eps)] = None
                rec.count('skipped_reference_has_no_solution')
    arr = np.zeros((len(draws), 3))
    for d, eps in enumerate(draws):
        for k in range(3):
            arr[d, model.key_to_index[labels[k]]] = eps[k]
    seen = set()   # one violation per (key, task); further witnesses are counted

    def viol(clause, tc, what, case, expected, observed):
        key = tkey(clause, cfg, tc)
        if key in seen:
            rec.count('further_witnesses_of_a_reported_key')
            return
        seen.add(key)
        rec.violation(key, what, case, expected=expected, observed=observed)

    for td, tb, style in [tuple(t) for t in task['tols']]:
        if tol_eff(tb) > 0.1 * budget:
            # a budget tolerance of the order of the budget asks for nothing (spending nothing would do)
            rec.count('skipped_out_of_domain:budget-tolerance-not-small-against-the-budget')
            continue
        tc = tol_class(td, tb)
        tn = tol_name(td, tb)
        rec.count('tolerance_class:' + tc)
        ok_one = {}
        for ri in rows:
            for eps in draws:
                sol = sols[(ri, eps)]
                if sol is None:
                    continue
                xref, lamref = sol
                case = dict(part='t', cfg=cfg, pset=pset, row=ri, budget=budget, eps=list(eps), lab=lab, tol=[td, tb, style],
                            entry='one-draw', seed=_SEED)
                where = (f'{name} params {pset} row {ri} budget {budget} eps(A,B,C)={list(eps)} labels {labels}: '
                         f'forecast_bisection_one_draw({tn}) [{style}]')
                ck = ('t', name, pset, ri, budget, eps, tuple(labels), lab['order'], td, tb, style)
                out = run_one_forecast(model, cfg, lab, one[ri], budget, eps, tol=(td, tb, style))
                if isinstance(out, tuple):
                    rec.case(None, (ck, out), outcome=f"{cfg['variant']}|tol|raised:{out[1]}")
                    viol('forecast-raises:' + out[1], tc, f'{where} raised {out[1]}: {out[2]}', case, dict(x=xref), f'{out[1]}: {out[2]}')
                    if out[1] == 'RuntimeError':
                        rec.retire = True
                    ok_one[(ri, eps)] = False
                    continue
                bad = check_forecast_tol(refs[ri], budget, eps, out, xref, lamref, td, tb)
                ok_one[(ri, eps)] = not bad
                gap = abs(sum(out) - budget)
                how = 'exact' if gap <= 1e-9 * max(1.0, budget) else ('within-budget-tolerance' if gap <= tol_eff(tb) * (1 + 1e-9) else 'within-dual-tolerance')
                rec.case(ck, (ck, [round(v, 7) for v in out]), outcome=f"{cfg['variant']}|tol|{tc}|{'bad' if bad else how}")
                for clause, detail in bad:
                    viol(clause, tc, f'{where}: {clause}: {detail}', case, dict(x=xref, dual=lamref, tolerance_dual=td, tolerance_budget=tb), dict(x=out))
        if not task.get('api') or style == 'pos':
            continue
        # the data-frame entry point forwards the two options
        case = dict(part='t', cfg=cfg, pset=pset, budget=budget, lab=lab, tol=[td, tb, style], entry='forecast',
                    draws=[list(e) for e in draws], rows=rows, seed=_SEED)
        where = f'{name} params {pset} budget {budget} labels {labels}: Mdcev.forecast({tn})'
        ck = ('t', name, pset, budget, tuple(labels), lab['order'], td, tb, 'api')
        try:
            frames = model.forecast(database=db, total_budget=budget, epsilons=[arr.copy() for _ in alph['rows']], **tol_kwargs(td, tb))
        except Exception as e:  # noqa: BLE001
            rec.case(None, (ck, 'raised', type(e).__name__), outcome=f"{cfg['variant']}|tol|api-raised:{type(e).__name__}")
            viol('forecast-api-raises:' + type(e).__name__, tc, f'{where} raised {type(e).__name__}: {str(e)[:200]}', case, None,
                 f'{type(e).__name__}: {str(e)[:200]}')
            if isinstance(e, RuntimeError):
                rec.retire = True
            continue
        if len(frames) != len(alph['rows']) or any(sorted(f.columns) != sorted(labels) or len(f) != len(draws) for f in frames):
            rec.case(None, (ck, 'shape'), outcome='tol|api-shape')
            viol('forecast-api-shape', tc, f'{where}: {len(frames)} frames of lengths {[len(f) for f in frames]}', case,
                 dict(frames=len(alph['rows']), rows=len(draws)), [len(f) for f in frames])
            continue
        for ri, f in enumerate(frames):
            for d, eps in enumerate(draws):
                sol = sols[(ri, eps)]
                if sol is None:
                    continue
                xref, lamref = sol
                xs = [float(f[labels[k]].iloc[d]) for k in range(3)]
                bad = check_forecast_tol(refs[ri], budget, eps, xs, xref, lamref, td, tb)
                rec.case(ck + (ri, eps), (ck, ri, eps, [round(v, 7) for v in xs]), outcome=f"{cfg['variant']}|tol-api|{tc}|{'bad' if bad else 'ok'}")
                for clause, detail in bad:
                    if ok_one.get((ri, eps)) and clause == 'requested-tolerances-not-met':
                        clause = 'forecast-api-does-not-honour-requested-tolerances'   # the one-draw call with the same options passes
                    viol(clause, tc, f'{where} row {ri} draw #{d} {list(eps)}: {clause}: {detail}', dict(case, row=ri, draw=d),
                         dict(x=xref, dual=lamref, tolerance_dual=td, tolerance_budget=tb), dict(x=xs))


# --------------------------------------------------------------------------- part b: the brute-force routes
class _LogCapture:
    """Warnings of the library's logger during one call (the worker silences logging globally)."""

    def __enter__(self):
        import logging

        self.msgs = []
        outer = self

        class H(logging.Handler):
            def emit(self, record):
                if record.levelno >= logging.WARNING:
                    outer.msgs.append(str(record.getMessage()))

        self._h = H(level=logging.WARNING)
        self._lg = logging.getLogger('biogeme.mdcev.mdcev')
        self._disabled = logging.root.manager.disable
        logging.disable(logging.NOTSET)
        self._lg.addHandler(self._h)
        return self

    def __exit__(self, *exc):
        import logging

        self._lg.removeHandler(self._h)
        logging.disable(self._disabled)
        return False


def warn_kinds(msgs):
    out = []
    for m in msgs:
        if m.startswith('Different optimal choice sets'):
            out.append('choice-sets')
        elif m.startswith('Difference between optimal utility'):
            out.append('objective')
        elif m.startswith('Difference between constraint'):
            out.append('constraint')
        elif m.startswith('Solution with'):
            continue
        elif 'failed' in m:
            out.append('failed')
        else:
            out.append('other')
    return out


def b_draws(i, nd):
    """Draws of observation i; observation 0 starts with (-1, -1, -1) (non-monotonic: every mu + eps < 0)."""
    return [ALL_DRAWS[(13 * i + 7 * j) % 27] for j in range(nd)]


def order_class(labels, index_to_key):
    return 'sorted-order==position-order' if list(index_to_key) == sorted(labels) else 'sorted-order!=position-order'


# the comparison reports a difference when not np.isclose(a, b), i.e. |a - b| > 1e-8 + 1e-5 |b|.  With the reference
# objectives of the two answers: a gap 100 times inside that threshold does not exist, 100 times outside must be reported
CMP_MARGIN = 100.0


def isclose_threshold(b):
    return 1e-8 + 1e-5 * abs(b)


def comparison_symptoms(ref, budget, eps, bis, bf, kinds):
    """What forecast_comparison_one_draw logged, against the two answers obtained directly.  -> list of (symptom, detail)."""
    out = []
    if bf is None or isinstance(bf, tuple) or isinstance(bis, tuple):
        return out
    scale = max(1.0, budget)
    if check_bruteforce(ref, budget, bf) or abs(sum(bis) - budget) > BUDGET_TOL * scale or any(v < 0 for v in bis):
        return out      # reported by its own clause
    if 'constraint' in kinds and abs(sum(bis) - sum(bf)) <= isclose_threshold(budget) / CMP_MARGIN:
        out.append(('reports-a-difference-of-the-budget-constraint-between-two-budget-exhausting-forecasts',
                    f'sum bisection {sum(bis)!r} sum brute force {sum(bf)!r}'))
    try:
        ob = ref.objective([max(v, 0.0) for v in bf], eps)
        ol = ref.objective(bis, eps)
    except (ValueError, OverflowError, ZeroDivisionError):
        return out
    thr = min(isclose_threshold(ob), isclose_threshold(ol))
    if 'objective' in kinds and abs(ob - ol) <= thr / CMP_MARGIN:
        out.append(('reports-a-difference-of-the-objective-that-does-not-exist',
                    f'objective of the bisection answer {ol!r}, of the brute-force answer {ob!r}'))
    if 'objective' not in kinds and abs(ob - ol) > CMP_MARGIN * max(isclose_threshold(ob), isclose_threshold(ol)):
        out.append(('does-not-report-the-difference-of-the-objective',
                    f'objective of the bisection answer {ol!r}, of the brute-force answer {ob!r}'))
    return out


def _part_b(task, rec):
    import numpy as np

    alph = alphabet(task.get('seed', _SEED))
    cfg, pset, budget, nd = task['cfg'], task['pset'], task['budget'], task['ndraws']
    labs = task['labs']
    db, one = make_rows(alph['rows'])
    name = cfg_name(cfg)
    n = len(alph['rows'])
    scale = max(1.0, budget)
    refs = [Ref(cfg, alph['psets'][pset], alph['rows'][ri]) for ri in range(n)]
    draws = [b_draws(i, nd) for i in range(n)]
    sols = {}
    for i in range(n):
        for eps in draws[i]:
            try:
                sols[(i, eps)] = refs[i].solve(budget, eps)
            except (ArithmeticError, ValueError, ZeroDivisionError):
                sols[(i, eps)] = None
    if any(v is None for v in sols.values()):
        rec.count('skipped_reference_has_no_solution')
        return
    fails = []       # (li, clause, what, expected, observed)
    cmp_fails = []   # (li, symptom, what, observed)
    classes = []
    base_case = dict(part='b', cfg=cfg, pset=pset, budget=budget, ndraws=nd, labs=labs, routes=task.get('routes', 'all'), seed=_SEED)
    for li, lab in enumerate(labs):
        labels = lab['labels']
        model = build_model(cfg, lab, alph['psets']['D'])
        set_params(model, alph, pset)
        oc = order_class(labels, model.index_to_key)
        classes.append(oc)
        rec.count('comparison_labeling:' + oc)
        ckb = ('b', name, pset, budget, tuple(labels), lab['order'], nd)

        def vec(eps):
            v = np.zeros(3)
            for k in range(3):
                v[model.key_to_index[labels[k]]] = eps[k]
            return v

        # (1) the two one-draw routes, directly
        bis, bfs = {}, {}
        for i in range(n):
            for j, eps in enumerate(draws[i]):
                xref, lamref = sols[(i, eps)]
                where = f'{name} params {pset} row {i} budget {budget} eps(A,B,C)={list(eps)} labels {labels} [{lab["order"]}]'
                out = run_one_forecast(model, cfg, lab, one[i], budget, eps)
                bis[(i, j)] = out
                if isinstance(out, tuple):
                    rec.case(None, (ckb, 'bis', i, j, out), outcome=f"{cfg['variant']}|raised:{out[1]}")
                    fails.append((li, 'forecast-raises:' + out[1], f'{where}: forecast_bisection_one_draw raised {out[1]}: {out[2]}', dict(x=xref), out[2]))
                    if out[1] == 'RuntimeError':
                        rec.retire = True
                else:
                    for clause, detail in check_forecast(refs[i], budget, eps, out, xref, lamref):
                        fails.append((li, clause, f'{where}: {clause}: {detail}', dict(x=xref, dual=lamref), dict(x=out)))
                bf = run_bruteforce(model, lab, one[i], budget, eps)
                bfs[(i, j)] = bf
                if bf is None:
                    rec.count('bruteforce_returned_none')
                    rec.case(None, (ckb, 'bf', i, j, None), outcome='bruteforce|none')
                    continue
                if isinstance(bf, tuple):
                    rec.count('bruteforce_raised:' + bf[1])
                    rec.case(None, (ckb, 'bf', i, j, bf), outcome='bruteforce|raised')
                    if bf[1] == 'RuntimeError':
                        rec.retire = True
                    continue
                bad = check_bruteforce(refs[i], budget, bf)
                rec.case(ckb + ('bf', i, j), (ckb, i, j, [round(v, 6) for v in bf]),
                         outcome=f"{cfg['variant']}|bruteforce|{'bad' if bad else 'feasible'}")
                for clause, detail in bad:
                    fails.append((li, clause, f'{where}: forecast_bruteforce_one_draw: {clause}: {detail}', dict(sum=budget, reference_optimum=xref), dict(x=bf)))
                if not bad and not isinstance(out, tuple):
                    try:
                        ob = refs[i].objective([max(v, 0.0) for v in bf], eps)
                        ol = refs[i].objective(out, eps)
                    except (ValueError, OverflowError, ZeroDivisionError):
                        rec.count('bruteforce_objective_undefined_skipped')
                    else:
                        rec.count('bruteforce_compared')
                        if ol < ob - OBJ_TOL * max(1.0, abs(ob)):
                            fails.append((li, 'worse-than-brute-force', f'{where}: objective {ol!r} at x={out} < brute force objective {ob!r} at {bf}', ob, ol))
                        if ob < ol - 1e-4 * max(1.0, abs(ol)):
                            rec.count('bruteforce_worse_than_forecast_by_1e-4')
        routes = task.get('routes', 'all')
        # (2) forecast(brute_force=True): frame i, row j is the brute-force answer of observation i, draw j
        if routes == 'all' or li == len(labs) - 1:
            eps_arrays = [np.array([vec(e) for e in draws[i]]) for i in range(n)]
            try:
                frames = model.forecast(database=db, total_budget=budget, epsilons=eps_arrays, brute_force=True)
            except Exception as e:  # noqa: BLE001
                rec.case(None, (ckb, 'api-bf', 'raised', type(e).__name__), outcome=f'bruteforce-api|raised:{type(e).__name__}')
                fails.append((li, 'forecast-brute-force-api-raises:' + type(e).__name__,
                              f'{name} params {pset} budget {budget} labels {labels}: forecast(brute_force=True) raised {type(e).__name__}: {str(e)[:200]}',
                              None, f'{type(e).__name__}: {str(e)[:200]}'))
                if isinstance(e, RuntimeError):
                    rec.retire = True
                frames = None
            if frames is not None:
                complete = all(isinstance(bfs[(i, j)], list) for i in range(n) for j in range(nd))
                if not complete:
                    rec.count('bruteforce_api_skipped_some_draw_failed')
                elif len(frames) != n or any(sorted(f.columns) != sorted(labels) or len(f) != nd for f in frames):
                    rec.case(None, (ckb, 'api-bf', 'shape'), outcome='bruteforce-api|shape')
                    fails.append((li, 'forecast-brute-force-api-shape', f'{name} labels {labels}: forecast(brute_force=True) gives {len(frames)} frames of '
                                  f'lengths {[len(f) for f in frames]}', dict(frames=n, rows=nd), [len(f) for f in frames]))
                else:
                    for i in range(n):
                        for j, eps in enumerate(draws[i]):
                            xs = [float(frames[i][labels[k]].iloc[j]) for k in range(3)]
                            same = all(abs(xs[k] - bfs[(i, j)][k]) <= 1e-9 * scale for k in range(3))
                            rec.case(ckb + ('api-bf', i, j), (ckb, i, j, [round(v, 6) for v in xs]),
                                     outcome=f"{cfg['variant']}|bruteforce-api|{'same' if same else 'differs'}")
                            if not same:
                                fails.append((li, 'forecast-brute-force-api-is-not-the-one-draw-brute-force-answer',
                                              f'{name} params {pset} budget {budget} labels {labels}: forecast(brute_force=True)[{i}] draw #{j} {list(eps)} '
                                              f'gives x(A,B,C)={xs}, forecast_bruteforce_one_draw for that row and draw {bfs[(i, j)]}', bfs[(i, j)], xs))
                            for clause, detail in check_bruteforce(refs[i], budget, xs):
                                if same:
                                    break   # already reported for the one-draw answer
                                fails.append((li, clause, f'{name} params {pset} budget {budget} labels {labels}: forecast(brute_force=True)[{i}] draw #{j}: '
                                              f'{clause}: {detail}', dict(sum=budget), dict(x=xs)))
        # (3) the library's own comparison of the two routes, one draw at a time
        kinds_direct = []
        for i in range(n):
            for j, eps in enumerate(draws[i]):
                where = f'{name} params {pset} row {i} budget {budget} eps(A,B,C)={list(eps)} labels {labels} [{lab["order"]}] (positions {list(model.index_to_key)})'
                with _LogCapture() as cap:
                    try:
                        ret = model.forecast_comparison_one_draw(one_row_of_database=one[i], total_budget=budget, epsilon=vec(eps))
                        raised = None
                    except Exception as e:  # noqa: BLE001
                        raised = e
                if raised is not None:
                    rec.case(None, (ckb, 'cmp', i, j, type(raised).__name__), outcome=f'comparison|raised:{type(raised).__name__}')
                    cmp_fails.append((li, 'raises:' + type(raised).__name__,
                                      f'{where}: forecast_comparison_one_draw raised {type(raised).__name__}: {str(raised)[:200]}',
                                      f'{type(raised).__name__}: {str(raised)[:200]}'))
                    if isinstance(raised, RuntimeError):
                        rec.retire = True
                    kinds_direct.append(None)
                    continue
                kinds = warn_kinds(cap.msgs)
                kinds_direct.append(sorted(set(kinds)))
                sym = comparison_symptoms(refs[i], budget, eps, bis[(i, j)], bfs[(i, j)], kinds)
                rec.case(ckb + ('cmp', i, j), (ckb, i, j, sorted(set(kinds))),
                         outcome=f"comparison|{oc}|{'+'.join(sorted(set(kinds))) or 'silent'}|{'bad' if sym else 'ok'}")
                for k in set(kinds):
                    rec.count('comparison_warning:' + k)
                for s, detail in sym:
                    cmp_fails.append((li, s, f'{where}: forecast_comparison_one_draw {s}: {detail}; it logged {cap.msgs[:4]}', cap.msgs[:4]))
        # (4) validate_forecast: the same comparisons over the table (observation i <-> row i <-> epsilons[i])
        if routes == 'all' or li == len(labs) - 1:
            with _LogCapture() as cap:
                try:
                    model.validate_forecast(database=db, total_budget=budget, epsilons=[np.array([vec(e) for e in draws[i]]) for i in range(n)])
                    raised = None
                except Exception as e:  # noqa: BLE001
                    raised = e
            if raised is not None:
                rec.case(None, (ckb, 'validate', type(raised).__name__), outcome=f'validate_forecast|raised:{type(raised).__name__}')
                if isinstance(raised, RuntimeError):
                    rec.retire = True
                if not any(k is None for k in kinds_direct):     # else: reported for the one-draw comparison
                    cmp_fails.append((li, 'validate_forecast-raises:' + type(raised).__name__,
                                      f'{name} params {pset} budget {budget} labels {labels}: validate_forecast raised {type(raised).__name__}: {str(raised)[:200]}',
                                      f'{type(raised).__name__}: {str(raised)[:200]}'))
            elif not any(k is None for k in kinds_direct):
                got = sorted(k for k in warn_kinds(cap.msgs))
                want = sorted(k for ks in kinds_direct for k in ks)
                rec.case(ckb + ('validate',), (ckb, got), outcome=f"validate_forecast|{'same' if got == want else 'differs'}")
                if got != want:
                    cmp_fails.append((li, 'validate_forecast-reports-other-differences-than-the-one-draw-comparisons',
                                      f'{name} params {pset} budget {budget} labels {labels}: validate_forecast logged {got}, the comparisons of its '
                                      f'(row, draw) pairs one at a time {want}', got))
    # keys: a forecast clause failing under every labeling of the task is not about labels
    done = set()
    for li, clause, what, expected, observed in fails:
        everywhere = all(any(l2 == lj and c2 == clause for l2, c2, *_ in fails) for lj in range(len(labs)))
        one_lab_only = len(labs) == 1 or (clause.startswith('forecast-brute-force-api') and task.get('routes', 'all') != 'all')
        cls = 'any' if (everywhere or clause.startswith('brute-force-') or clause == 'worse-than-brute-force' or one_lab_only) else classes[li]
        key = vkey(clause, cfg, cls)
        if key in done:
            rec.count('further_witnesses_of_a_reported_key')
            continue
        done.add(key)
        rec.violation(key, what, dict(base_case, cls=cls), expected=expected, observed=observed)
    # the comparison: symptoms seen only under a labeling whose sorted order differs from the positions are ONE finding
    for li, sym, what, observed in cmp_fails:
        natural_too = any(classes[l2] == 'sorted-order==position-order' and s2 == sym for l2, s2, *_ in cmp_fails)
        if classes[li] == 'sorted-order!=position-order' and not natural_too:
            key = 'C18|forecast-comparison-depends-on-labeling|labeling:sorted-order!=position-order'
        else:
            key = f'C18|forecast-comparison:{sym}|{cfg["variant"]}|labeling:' + ('any' if natural_too else classes[li])
        if key in done:
            rec.count('further_witnesses_of_a_reported_key')
            continue
        done.add(key)
        rec.violation(key, what, dict(base_case, symptom=sym), expected='the comparison of the two answers, whatever the labels', observed=observed)


# --------------------------------------------------------------------------- part p: pieces
X_GRID =(0.0, 0.25, 1.0, 3.0, 10.0)
E_GRID = (-1.0, 0.0, 1.0)
L_GRID = (0.0625, 0.5, 2.0, 8.0)
PIECE_REL = 1e-9
PIECE_ABS = 1e-11


def engine_value_and_derivative(model, label, x, e, row_db):
    from biogeme.expressions import Beta, Numeric

    consumption = Beta('consumption', x, None, None, 0)
    expr = model.utility_expression_one_alternative(the_id=label, the_consumption=consumption, unscaled_epsilon=Numeric(e))
    res = expr.get_value_and_derivatives(database=row_db, prepare_ids=True, gradient=True, named_results=True)
    return float(res.function), float(res.gradient['consumption'])


def pcase(cfg, pset, ri, lab, k, kind, point, e):
    return dict(part='p', cfg=cfg, pset=pset, row=ri, lab=lab, good=k, kind=kind, point=point, eps=e, seed=_SEED)


def piece_points(task):
    pts = []
    for k in range(3):
        for e in E_GRID:
            for x in X_GRID:
                pts.append((k, 'x', x, e))
            for lam in L_GRID:
                pts.append((k, 'dual', lam, e))
    return pts


def _piece_one(rec, model, ref, cfg, pset, ri, lab, row_db, k, kind, point, e, name):
    label = lab['labels'][k]
    g = GOODS[k]
    og = cfg['og'] == k
    case = pcase(cfg, pset, ri, lab, k, kind, point, e)
    ck = ('p', name, pset, ri, tuple(lab['labels']), lab['order'], k, kind, point, e)
    where = f'{name} params {pset} row {ri} labels {lab["labels"]} good {g} (label {label}) eps {e}'

    def viol(clause, detail, expected, observed):
        rec.violation(vkey(clause, cfg) + ('|outside-good' if og else '|inside-good'), f'{where}: {clause}: {detail}',
                      case, expected=expected, observed=observed)

    if kind == 'x':
        x = point
        if og and x == 0.0:
            rec.count('skipped_out_of_domain:outside-good-at-zero')
            return
        try:
            u_ref, d_ref = ref.U(k, x, e), ref.MU(k, x, e)
        except (ValueError, OverflowError, ZeroDivisionError):
            rec.count('skipped_out_of_domain:reference-undefined')
            return
        try:
            u_num = float(model.utility_one_alternative(the_id=label, the_consumption=x, epsilon=e, one_observation=row_db))
            d_num = float(model.derivative_utility_one_alternative(the_id=label, the_consumption=x, epsilon=e, one_observation=row_db))
            u_sym, d_sym = engine_value_and_derivative(model, label, x, e, row_db)
        except Exception as ex:  # noqa: BLE001
            rec.case(None, (ck, 'raised', type(ex).__name__), outcome='piece-raised')
            viol('piece-raises:' + type(ex).__name__, str(ex)[:200], dict(utility=u_ref, derivative=d_ref), repr(ex)[:200])
            if isinstance(ex, RuntimeError):
                rec.retire = True
            return
        rec.case(ck, (ck, round(u_num, 9), round(d_num, 9)), outcome=f"{cfg['variant']}|piece-x|{'og' if og else 'in'}")
        if name == 'gamma|og=none' and pset == 'D' and ri == 0 and k == 0 and e == 0.0 and x == 1.0:
            rec.sample(dict(case=case, utility_numeric=u_num, utility_symbolic_engine=u_sym, utility_reference=u_ref,
                            derivative_numeric=d_num, derivative_engine=d_sym, derivative_reference=d_ref))
        if not close(u_num, u_sym, PIECE_REL, PIECE_ABS):
            viol('numeric-utility!=symbolic-utility', f'x={x}: utility_one_alternative {u_num!r} vs engine value of the expression {u_sym!r}', u_sym, u_num)
        if not close(u_num, u_ref, PIECE_REL, PIECE_ABS):
            viol('numeric-utility!=documented-utility', f'x={x}: utility_one_alternative {u_num!r} vs closed form {u_ref!r}', u_ref, u_num)
        if not close(d_num, d_sym, PIECE_REL, PIECE_ABS):
            viol('derivative!=gradient-of-symbolic-utility', f'x={x}: derivative_utility_one_alternative {d_num!r} vs engine gradient {d_sym!r}', d_sym, d_num)
        if not close(d_num, d_ref, PIECE_REL, PIECE_ABS):
            viol('derivative!=documented-marginal-utility', f'x={x}: derivative_utility_one_alternative {d_num!r} vs closed form {d_ref!r}', d_ref, d_num)
    else:
        lam = point
        if lam <= ref.dual_floor(k, e) + 1e-9:
            rec.count('skipped_out_of_domain:dual-below-floor')
            return
        x_ref = ref.inv(k, lam, e)
        if not math.isfinite(x_ref) or abs(x_ref) > 1e8:
            rec.count('skipped_out_of_domain:inverse-too-large')
            return
        try:
            x_num = float(model.optimal_consumption_one_alternative(the_id=label, dual_variable=lam, epsilon=e, one_observation=row_db))
        except Exception as ex:  # noqa: BLE001
            rec.case(None, (ck, 'raised', type(ex).__name__), outcome='piece-raised')
            viol('piece-raises:' + type(ex).__name__, str(ex)[:200], dict(x=x_ref), repr(ex)[:200])
            return
        rec.case(ck, (ck, round(x_num, 9)), outcome=f"{cfg['variant']}|piece-dual|{'og' if og else 'in'}")
        if not close(x_num, x_ref, PIECE_REL, PIECE_ABS):
            viol('optimal-consumption!=inverse-of-marginal-utility', f'dual={lam}: optimal_consumption_one_alternative {x_num!r} vs closed form {x_ref!r}', x_ref, x_num)
        # round trip through the library's own derivative (only where the consumption is in the utility's domain)
        if x_num > (0.0 if og else -0.5 * (ref.price[k] * ref.gamma[k])):
            try:
                back = float(model.derivative_utility_one_alternative(the_id=label, the_consumption=x_num, epsilon=e, one_observation=row_db))
            except Exception as ex:  # noqa: BLE001
                viol('piece-raises:' + type(ex).__name__, str(ex)[:200], lam, repr(ex)[:200])
                return
            if not close(back, lam, 1e-8, 1e-10):
                viol('derivative(optimal-consumption(dual))!=dual', f'dual={lam}: x={x_num!r} derivative there {back!r}', lam, back)


def _part_p(task, rec, only=None):
    alph = alphabet(task.get('seed', _SEED))
    cfg, pset = task['cfg'], task['pset']
    db, one = make_rows(alph['rows'])
    name = cfg_name(cfg)
    for lab in task['labs']:
        model = build_model(cfg, lab, alph['psets']['D'])
        set_params(model, alph, pset)
        for ri in task['rows']:
            ref = Ref(cfg, alph['psets'][pset], alph['rows'][ri])
            for (k, kind, point, e) in piece_points(task):
                if only is not None and (k, kind, point, e, ri) != only:
                    continue
                _piece_one(rec, model, ref, cfg, pset, ri, lab, one[ri], k, kind, point, e, name)
            if only is None or only == 'validation':
                # the library's own validation of the same pieces (x in {1,10,100}, eps 0.01, dual 10)
                ck = ('p', name, pset, ri, tuple(lab['labels']), lab['order'], 'validation')
                floor = max(ref.dual_floor(k, 0.01) for k in range(3))
                if floor >= 10 - 1e-9:
                    rec.count('skipped_out_of_domain:validation-dual-below-floor')
                    continue
                try:
                    msgs = model.validation(one_row=one[ri])
                except Exception as ex:  # noqa: BLE001
                    msgs = [f'raised {type(ex).__name__}: {str(ex)[:200]}']
                    if isinstance(ex, RuntimeError):
                        rec.retire = True
                rec.case(ck, (ck, len(msgs)), outcome='validation:' + ('ok' if not msgs else 'messages'))
                if msgs:
                    rec.violation(vkey('validation-reports-inconsistent-pieces', cfg),
                                  f'{name} params {pset} row {ri} labels {lab["labels"]}: validation() returned {msgs[:3]}',
                                  dict(part='p', cfg=cfg, pset=pset, row=ri, lab=lab, kind='validation', seed=_SEED),
                                  expected=[], observed=msgs[:6])


# --------------------------------------------------------------------------- part h: histories
H_OPS = ('SA', 'SB', 'F0', 'F1', 'U0', 'V0')
H_EPS = (1.0, 0.0, -1.0)
H_BUDGET = 10.0


K_REFUSED = ('C18|result-differs-from-fresh-model-with-same-parameters'
             '|history=[refused-estimation_results-assignment(not-a-results-object),use]')
X_VALUES = ('dict', 'none', 'int')     # thorough uses the first two


def refused_value(kind, alph):
    """What a caller may hand to the estimation_results setter by mistake: the dictionary of values itself, None, a number."""
    return {'dict': dict(alph['psets']['B']), 'none': None, 'int': 3}[kind]


def history_violation(cfg, lab, hist, bad, alph):
    """Key and text of a failing history step.  The step is re-executed on a *fresh* model that is only given the
    current parameters: if it passes there, the result depends on the history (stale state); otherwise the failure
    is not about the history and keeps its own clause."""
    i, clause, detail, expected, observed = bad
    h = [tuple(o) for o in hist[:i + 1]]
    cur = 'D'
    for op in h:
        if op[0] == 'S':
            cur = op[1]
    fresh = ([('S', cur)] if cur != 'D' else []) + [h[-1]]
    if len(fresh) < len(h) and run_history(cfg, lab, fresh, alph) is None:
        row = h[-1][1]
        last_set = max(j for j, op in enumerate(h) if op[0] == 'S') if any(op[0] == 'S' for op in h) else -1
        used_before = any(op[0] != 'S' and op[1] == row for op in h[:max(last_set, 0)])
        pat = 'history=[use(row),set-parameters,use(row)]' if used_before else 'history=other'
        key = vkey('result-differs-from-fresh-model-with-same-parameters', cfg) + '|' + pat
        if any(op[0] == 'X' for op in h) and run_history(cfg, lab, [op for op in h if op[0] != 'X'], alph) is None:
            # the same history without the refused assignments passes: one finding, whatever the variant
            key = K_REFUSED
        what = (f'{cfg_name(cfg)} labels {lab["labels"]}: after the history {h} step {i} gives {clause} ({detail}); '
                f'a fresh model given parameters {cur} passes the same step')
    else:
        key = vkey(clause, cfg) + '|also-on-a-fresh-model'
        what = f'{cfg_name(cfg)} labels {lab["labels"]} history {h}: step {i} {clause}: {detail} (a fresh model fails the same way)'
    return key, what


def run_history(cfg, lab, hist, alph, rec=None, one=None, name=None):
    """Replays ``hist`` on a fresh model; checks every step against the reference holding the current
    parameters.  Returns (index, clause, detail, expected, observed) of the first failing step or None."""
    if one is None:
        _, one = make_rows(alph['rows'])
    model = build_model(cfg, lab, alph['psets']['D'])
    cur = 'D'
    labels = lab['labels']
    for i, op in enumerate(hist):
        kind = op[0]
        if kind == 'S':
            cur = op[1]
            model.estimation_results = _Results(alph['psets'][cur])
            if rec is not None:
                rec.transition()
            continue
        if kind == 'X':
            # an assignment the setter refuses (it raises): the model keeps the parameters it had
            try:
                model.estimation_results = refused_value(op[1], alph)
            except Exception:  # noqa: BLE001
                if rec is not None:
                    rec.transition()
                    rec.count('refused_assignments')
                continue
            if rec is not None:
                rec.count('skipped_out_of_model:non-results-object-accepted-by-the-setter')
            return None
        ri = int(op[1])
        ref = Ref(cfg, alph['psets'][cur], alph['rows'][ri])
        bad = None
        obs = None
        if kind == 'F':
            xref, lamref = ref.solve(H_BUDGET, H_EPS)
            out = run_one_forecast(model, cfg, lab, one[ri], H_BUDGET, H_EPS)
            obs = out
            if isinstance(out, tuple):
                bad = ('forecast-raises:' + out[1], out[2], xref, f'{out[1]}: {out[2]}')
            else:
                pb = check_forecast(ref, H_BUDGET, H_EPS, out, xref, lamref)
                if pb:
                    bad = (pb[-1][0], pb[-1][1], xref, out)
        elif kind == 'U':
            vals = []
            for k in range(3):
                x = 1.0 + k
                lam = 8.0
                oc = None
                try:
                    u = float(model.utility_one_alternative(the_id=labels[k], the_consumption=x, epsilon=H_EPS[k], one_observation=one[ri]))
                    d = float(model.derivative_utility_one_alternative(the_id=labels[k], the_consumption=x, epsilon=H_EPS[k], one_observation=one[ri]))
                    if lam > ref.dual_floor(k, H_EPS[k]) + 1e-9:
                        oc = float(model.optimal_consumption_one_alternative(the_id=labels[k], dual_variable=lam, epsilon=H_EPS[k], one_observation=one[ri]))
                except Exception as ex:  # noqa: BLE001
                    bad = ('piece-raises:' + type(ex).__name__, f'good {GOODS[k]} x={x}: {str(ex)[:200]}',
                           dict(utility=ref.U(k, x, H_EPS[k])), f'{type(ex).__name__}: {str(ex)[:200]}')
                    vals.append(('raised', type(ex).__name__))
                    break
                vals.append((u, d, oc))
                ur, dr = ref.U(k, x, H_EPS[k]), ref.MU(k, x, H_EPS[k])
                if bad is None and not (close(u, ur, PIECE_REL, PIECE_ABS) and close(d, dr, PIECE_REL, PIECE_ABS)):
                    bad = ('piece-values-not-those-of-current-parameters', f'good {GOODS[k]} x={x}: utility {u!r} derivative {d!r}',
                           dict(utility=ur, derivative=dr), dict(utility=u, derivative=d))
                if bad is None and oc is not None and not close(oc, ref.inv(k, lam, H_EPS[k]), PIECE_REL, PIECE_ABS):
                    bad = ('piece-values-not-those-of-current-parameters', f'good {GOODS[k]} dual={lam}: optimal consumption {oc!r}',
                           ref.inv(k, lam, H_EPS[k]), oc)
            obs = vals
        elif kind == 'V':
            if max(ref.dual_floor(k, 0.01) for k in range(3)) >= 10 - 1e-9:
                obs = 'skipped'
            else:
                try:
                    msgs = model.validation(one_row=one[ri])
                except Exception as ex:  # noqa: BLE001
                    msgs = [f'raised {type(ex).__name__}: {str(ex)[:200]}']
                obs = len(msgs)
                if msgs:
                    bad = ('validation-reports-inconsistent-pieces', str(msgs[:2]), [], msgs[:4])
        if rec is not None:
            h = tuple(tuple(o) for o in hist[:i + 1])
            rec.case(('h', name, tuple(labels), h), (h, _round(obs)), outcome=f"{cfg['variant']}|h|{kind}|{cur}|{'bad' if bad else 'ok'}")
            rec.state((name, cur, ''.join(o[0] + str(o[1]) for o in hist[:i + 1])))
        if bad:
            return (i,) + bad
    return None


def _round(o):
    if isinstance(o, float):
        return round(o, 8)
    if isinstance(o, (list, tuple)):
        return [_round(v) for v in o]
    return o


def h_ops(refused=()):
    return [('S', 'A'), ('S', 'B'), ('F', 0), ('F', 1), ('U', 0), ('V', 0)] + [('X', k) for k in refused]


def _part_h(task, rec):
    alph = alphabet(task.get('seed', _SEED))
    cfg, lab = task['cfg'], task['lab']
    _, one = make_rows(alph['rows'])
    name = cfg_name(cfg)
    ops = h_ops(task.get('refused', ()))
    seen = set()
    rest = task['depth'] - len(task['prefix'])
    for tail in itertools.product(ops, repeat=rest):
        hist = [tuple(o) for o in task['prefix']] + list(tail)
        if task.get('only_with_refused') and not any(o[0] == 'X' for o in hist):
            continue     # covered by the tasks without refused assignments
        if hist[-1][0] in ('S', 'X'):
            # nothing is observed after a final parameter change; the prefix is covered by the other histories
            rec.count('histories_ending_in_set_skipped')
            continue
        bad = run_history(cfg, lab, hist, alph, rec, one, name)
        rec.count('histories')
        if bad:
            h = hist[:bad[0] + 1]
            key, what = history_violation(cfg, lab, h, bad, alph)
            if key in seen:
                rec.count('further_witnesses_of_a_reported_key')
                continue
            seen.add(key)
            # minimal witness: drop earlier operations as long as the same finding is produced
            shrunk = True
            while shrunk and len(h) > 1:
                shrunk = False
                for j in range(len(h) - 1):
                    h2 = h[:j] + h[j + 1:]
                    b2 = run_history(cfg, lab, h2, alph)
                    if b2 and b2[0] == len(h2) - 1 and history_violation(cfg, lab, h2, b2, alph)[0] == key:
                        h, bad, shrunk = h2, b2, True
                        key, what = history_violation(cfg, lab, h, bad, alph)
                        break
            rec.violation(key, what, dict(part='h', cfg=cfg, lab=lab, history=[list(o) for o in h], seed=_SEED),
                          expected=bad[3], observed=bad[4])


# --------------------------------------------------------------------------- part e: parameters obtained by an estimation
# 'Any parameter values' includes the values a model holds after its own public entry point ``estimate_parameters`` has
# run (a real estimation, on a data set written out by the reference solver: estimation rows x all 27 draws, no sampling),
# and the values given through the estimation_results setter before or after such an estimation.  Histories over
#   E<T>  estimate_parameters on the data set generated with parameter set T
#   S<T>  estimation_results setter with parameter set T
#   O     observe: pieces of row 0 (numeric = symbolic (engine) = closed form, derivative, optimal consumption), forecast of
#         row 0, validation of row 0, forecast of row 1
# with at least one E, every O compared with the reference holding the *current* values: the starting values overwritten by
# what the returned results report (``get_beta_values()``).
E_BUDGET = 10.0
E_MAX_ITER = 20


def est_rows(alph):
    r0, r1 = alph['rows']
    return [dict(x=x, z=z, unused=1.0) for x in (r0['x'], r1['x']) for z in (r1['z'], r0['z'])]


def est_dataset(cfg, alph, which):
    """The estimation data: for every estimation row and every draw in {-1,0,1}^3 the optimal consumption (reference
    solver) of a consumer with parameter set ``which``; quantities = expenditure / price; weights 1, 2 alternating."""
    import pandas as pd

    recs = []
    for row in est_rows(alph):
        ref = Ref(cfg, alph['psets'][which], row)
        for eps in ALL_DRAWS:
            try:
                xs, _ = ref.solve(E_BUDGET, eps)
            except (ArithmeticError, ValueError, ZeroDivisionError):
                continue
            r = dict(row)
            for k in range(3):
                r[f'q{k}'] = xs[k] / ref.price[k]
            r['nch'] = float(sum(1 for v in xs if v > 0))
            r['w'] = 1.0 + (len(recs) % 2)
            recs.append(r)
    return pd.DataFrame(recs, columns=['unused', 'z', 'x', 'q0', 'q1', 'q2', 'nch', 'w'])


def in_domain(cfg, values):
    for g in ('a', 'b', 'c'):
        if not values['g_' + g] > 0 or not values['p_' + g] > 0 or not 0 < values['al_' + g] < 1:
            return False
    return values['scale'] > 0 and all(math.isfinite(v) for v in values.values())


def validation_well_conditioned(ref):
    """The library's validation inverts the marginal utility at the dual value 10 (epsilon 0.01) and evaluates the
    derivative there.  For an inside good the consumption is (r - 1) * price * gamma (translated: r - gamma): when r is
    tiny -- a good so unattractive that its marginal utility is far below 10 everywhere -- the sum consumption +
    price * gamma cancels and the derivative computed from it is rounding noise (np.isclose in the validation then fails
    although every piece is right).  Well conditioned: (consumption + price * gamma) / (price * gamma) >= 1e-6."""
    for k in range(3):
        g = ref.gamma[k]
        if g is None:
            continue
        x = ref.inv(k, 10.0, 0.01)
        scale = g if ref.variant in ('translated', 'nonmono') else ref.price[k] * g
        if not math.isfinite(x) or (x + scale) / scale < 1e-6:
            return False
    return True


def observe_battery(model, cfg, lab, one, values, alph):
    """-> (bad | None, observation).  bad = (clause, detail, expected, observed) of the first failing comparison."""
    labels = lab['labels']
    obs = []
    ref = Ref(cfg, values, alph['rows'][0])
    # pieces of row 0
    for k in range(3):
        x, e = 1.0 + k, H_EPS[k]
        lam = 8.0
        try:
            u = float(model.utility_one_alternative(the_id=labels[k], the_consumption=x, epsilon=e, one_observation=one[0]))
            d = float(model.derivative_utility_one_alternative(the_id=labels[k], the_consumption=x, epsilon=e, one_observation=one[0]))
            us, ds = engine_value_and_derivative(model, labels[k], x, e, one[0])
            oc = None
            if lam > ref.dual_floor(k, e) + 1e-9:
                oc = float(model.optimal_consumption_one_alternative(the_id=labels[k], dual_variable=lam, epsilon=e, one_observation=one[0]))
        except Exception as ex:  # noqa: BLE001
            return ('piece-raises:' + type(ex).__name__, str(ex)[:200], None, repr(ex)[:200]), obs + ['raised', type(ex).__name__]
        obs.append((u, d, oc))
        ur, dr = ref.U(k, x, e), ref.MU(k, x, e)
        if not close(u, us, PIECE_REL, PIECE_ABS):
            return ('numeric-utility!=symbolic-utility', f'row 0 good {GOODS[k]} x={x} eps={e}: utility_one_alternative {u!r} vs engine value '
                    f'of utility_expression_one_alternative {us!r}', us, u), obs
        if not close(d, ds, PIECE_REL, PIECE_ABS):
            return ('derivative!=gradient-of-symbolic-utility', f'row 0 good {GOODS[k]} x={x} eps={e}: derivative_utility_one_alternative {d!r} vs '
                    f'engine gradient {ds!r}', ds, d), obs
        if not (close(u, ur, PIECE_REL, PIECE_ABS) and close(d, dr, PIECE_REL, PIECE_ABS)):
            return ('piece-values-not-those-of-current-parameters', f'row 0 good {GOODS[k]} x={x} eps={e}: utility {u!r} derivative {d!r}',
                    dict(utility=ur, derivative=dr), dict(utility=u, derivative=d)), obs
        if oc is not None:
            xr = ref.inv(k, lam, e)
            if math.isfinite(xr) and abs(xr) <= 1e8 and not close(oc, xr, PIECE_REL, PIECE_ABS):
                return ('piece-values-not-those-of-current-parameters', f'row 0 good {GOODS[k]} dual={lam} eps={e}: optimal consumption {oc!r}', xr, oc), obs
    # forecast row 0, validation row 0, forecast row 1
    for step in ('F0', 'V0', 'F1'):
        ri = int(step[1])
        ref = Ref(cfg, values, alph['rows'][ri])
        if step[0] == 'F':
            try:
                xref, lamref = ref.solve(H_BUDGET, H_EPS)
            except (ArithmeticError, ValueError, ZeroDivisionError):
                obs.append('no-reference-solution')
                continue
            out = run_one_forecast(model, cfg, lab, one[ri], H_BUDGET, H_EPS)
            obs.append(out)
            if isinstance(out, tuple):
                return ('forecast-raises:' + out[1], f'row {ri}: {out[2]}', xref, f'{out[1]}: {out[2]}'), obs
            pb = check_forecast(ref, H_BUDGET, H_EPS, out, xref, lamref)
            if pb:
                return (pb[-1][0], f'row {ri} budget {H_BUDGET} eps {list(H_EPS)}: {pb[-1][1]}', xref, out), obs
        else:
            if max(ref.dual_floor(k, 0.01) for k in range(3)) >= 10 - 1e-9:
                obs.append('validation-skipped')
                continue
            if not validation_well_conditioned(ref):
                obs.append('validation-skipped-ill-conditioned')
                continue
            try:
                msgs = model.validation(one_row=one[ri])
            except Exception as ex:  # noqa: BLE001
                msgs = [f'raised {type(ex).__name__}: {str(ex)[:200]}']
            obs.append(len(msgs))
            if msgs:
                return ('validation-reports-inconsistent-pieces', f'row {ri}: {msgs[:2]}', [], msgs[:4]), obs
    return None, obs


def h_text(hist):
    return ' '.join(o[0] + (str(o[1]) if len(o) > 1 and not isinstance(o[1], dict) else '') for o in hist)


def run_est_history(cfg, lab, hist, alph, weights, rec=None, one=None, name=None, data=None):
    """Replays ``hist`` (ops ['E', T] / ['S', T] / ['P', values] / ['O']) on a fresh model.  -> dict(status=...):
    'ok'; 'bad' (+ i, clause, detail, expected, observed, values, source); 'estimation-raised' / 'out-of-domain' (+ i)."""
    import biogeme.parameters
    from biogeme.database import Database
    from biogeme.expressions import Variable

    if one is None:
        _, one = make_rows(alph['rows'])
    if data is None:
        data = {}
    labels = lab['labels']
    model = build_model(cfg, lab, alph['psets']['D'], bounded=True, weights=weights)
    values = dict(alph['psets']['D'])
    source = 'initial-values'
    info = dict(estimations=0, moved=0)
    for i, op in enumerate(hist):
        kind = op[0]
        h = tuple(tuple('values' if isinstance(v, dict) else v for v in o) for o in hist[:i + 1])
        if kind == 'S' or kind == 'P':
            new = dict(alph['psets'][op[1]]) if kind == 'S' else dict(op[1])
            model.estimation_results = _Results(new)
            values.update(new)
            source = 'setter-after-estimate_parameters' if info['estimations'] else 'setter'
            if rec is not None:
                rec.transition()
            continue
        if kind == 'E':
            which = op[1]
            if which not in data:
                data[which] = est_dataset(cfg, alph, which)
            try:
                res = model.estimate_parameters(
                    database=Database('e18', data[which].copy()), number_of_chosen_alternatives=Variable('nch'),
                    consumed_quantities={labels[k]: Variable(f'q{k}') for k in range(3)},
                    parameters=biogeme.parameters.Parameters(), generate_html=False, generate_pickle=False,
                    save_iterations=False, number_of_threads=1, max_iterations=E_MAX_ITER)
                est = {n: float(v) for n, v in res.get_beta_values().items()}
            except Exception as ex:  # noqa: BLE001 - whether an estimation succeeds is not part of the statement
                if rec is not None:
                    rec.count('estimation_raised:' + type(ex).__name__)
                    rec.case(None, (h, 'raised', type(ex).__name__), outcome=f"{cfg['variant']}|e|estimation-raised")
                    if isinstance(ex, RuntimeError):
                        rec.retire = True
                return dict(status='estimation-raised', i=i, error=f'{type(ex).__name__}: {str(ex)[:200]}', **info)
            moved = max([abs(est[n] - values[n]) for n in est if n in values] + [0.0]) > 1e-3
            info['estimations'] += 1
            info['moved'] += 1 if moved else 0
            values.update({n: v for n, v in est.items() if n in values})
            source = 'estimate_parameters'
            if rec is not None:
                rec.transition()
                rec.count('estimations')
                rec.count('estimations_that_moved_the_parameters' if moved else 'estimations_that_left_the_starting_values')
            if not in_domain(cfg, values):
                if rec is not None:
                    rec.count('skipped_out_of_domain:estimates-outside-the-domain-of-the-utility')
                return dict(status='out-of-domain', i=i, **info)
            continue
        # 'O'
        bad, obs = observe_battery(model, cfg, lab, one, values, alph)
        if rec is not None:
            if 'validation-skipped-ill-conditioned' in obs:
                rec.count('skipped_ill_conditioned:validation-round-trip-at-dual-10')
            rec.case(('e', name, tuple(labels), lab['order'], weights, h), (h, _round(obs)),
                     outcome=f"{cfg['variant']}|e|values-from:{source}|{'bad' if bad else 'ok'}")
            rec.state((name, 'e', weights, h_text(hist[:i + 1])))
        if bad:
            return dict(status='bad', i=i, clause=bad[0], detail=bad[1], expected=bad[2], observed=bad[3], values=dict(values),
                        source=source, **info)
    return dict(status='ok', **info)


def est_violation(cfg, lab, hist, out, alph, weights):
    """Key and text of a failing observation.  It is repeated on a fresh model that is only given the same values through
    the estimation_results setter: passing there, the failure is about how the values got into the model."""
    h = [list(o) for o in hist[:out['i'] + 1]]
    again = run_est_history(cfg, lab, [['P', out['values']], ['O']], alph, weights)
    base = vkey(out['clause'], cfg) + f"|values-from:{out['source']}"
    if again['status'] == 'ok':
        key = base + '|a-fresh-model-given-the-same-values-passes'
        tail = 'a fresh model given the same values through the estimation_results setter passes'
    else:
        key = base + '|also-on-a-fresh-model'
        tail = 'a fresh model given the same values fails too'
    what = (f'{cfg_name(cfg)} labels {lab["labels"]}{" weights" if weights else ""}: after the history [{h_text(h)}] the model holds the values '
            f'{ {k: round(v, 6) for k, v in sorted(out["values"].items())} } and the observation gives {out["clause"]}: {out["detail"]}; {tail}')
    return key, what


E_OPS_QUICK = (['E', 'A'], ['S', 'B'], ['O'])
E_OPS_THOROUGH = (['E', 'A'], ['E', 'B'], ['S', 'A'], ['S', 'B'], ['O'])
E_OPS_DEEP = (['E', 'A'], ['E', 'B'], ['S', 'A'], ['O'])


def est_histories(ops, depth, first=None):
    """Every history of length 2..depth over ``ops`` that ends in an observation and holds an estimation; shortest first."""
    out = []
    for n in range(2, depth + 1):
        for body in itertools.product(ops, repeat=n - 1):
            if not any(o[0] == 'E' for o in body):
                continue
            if any(body[j][0] == 'O' and body[j + 1][0] == 'O' for j in range(len(body) - 1)) or body[-1][0] == 'O':
                continue     # observing twice in a row adds nothing
            if first is not None and list(body[0]) != list(first):
                continue
            out.append([list(o) for o in body] + [['O']])
    return out


def _part_e(task, rec):
    alph = alphabet(task.get('seed', _SEED))
    cfg, lab, weights = task['cfg'], task['lab'], task['weights']
    _, one = make_rows(alph['rows'])
    name = cfg_name(cfg)
    data, seen = {}, set()
    for hist in task['histories']:
        out = run_est_history(cfg, lab, hist, alph, weights, rec, one, name, data)
        rec.count('estimation_histories')
        rec.count('estimation_histories:' + out['status'])
        if task.get('sample') and hist == task['histories'][0]:
            rec.sample(dict(part='e', cfg=cfg, history=hist, result={k: v for k, v in out.items() if k != 'values'}))
        if out['status'] != 'bad':
            continue
        key, what = est_violation(cfg, lab, hist, out, alph, weights)
        if key in seen:
            rec.count('further_witnesses_of_a_reported_key')
            continue
        seen.add(key)
        rec.violation(key, what, dict(part='e', cfg=cfg, lab=lab, weights=weights, history=hist[:out['i'] + 1], seed=_SEED),
                      expected=out['expected'], observed=out['observed'])


# --------------------------------------------------------------------------- part g: goods, ties, magnitudes
# 'For each variant and ANY parameter values ...': the remaining dimensions of the consumer problem.
#   goods       models with one or two goods (every non-empty subset of A, B, C x which of them, if any, is the outside
#               good -- including the model whose only good is the outside good: it gets the whole budget)
#   ties        parameter sets T (three identical goods) and U (A and B identical): with equal draws the marginal utilities
#               at zero are bitwise equal, the order of the goods is decided by a tie; the optimum stays unique (symmetric)
#   magnitudes  every baseline utility shifted by a constant s (parameter set 'D@-30': V_k - 30): the optimal multiplier
#               moves over many orders of magnitude (exp(s)), the optimal consumptions of the variants gamma / translated /
#               generalized do not move at all
# Every problem goes to forecast_bisection_one_draw (default options) and is judged by the same oracle as part f; one
# (configuration, parameter set) per task also to Mdcev.forecast and to the brute-force optimiser (lower bound).
# A task holds the four variants: a clause failing under every variant of the task is keyed 'variant:any'.
G_TINY = 1e-5          # 'tiny' distance of the optimal multiplier from its lower limit (0; non monotonic: max mu_k + eps_k)
K_TINY = ('C18|forecast-wrong-when-the-optimal-multiplier-is-within-1e-5-of-its-lower-limit'
          '|a-call-with-tolerance_dual-scaled-to-that-distance-passes')
SHIFTS_QUICK = (-30.0, -12.0, 12.0)
SHIFTS_THOROUGH = (-30.0, -20.0, -12.0, -6.0, 6.0, 12.0, 30.0)


def pset_values(alph, pset, row):
    """Values of a parameter set; 'D@-30' = set D with every baseline utility of that row shifted by -30."""
    base, _, shift = pset.partition('@')
    values = dict(alph['psets'][base])
    if shift:
        sh = float(shift)
        values['b_a'] += sh
        values['b_b'] += sh
        values['b_z'] += sh / row['z']
    return values


def subsets_with_og(sizes):
    out = []
    for n in sizes:
        for goods in itertools.combinations(range(3), n):
            for og in (None,) + goods:
                out.append((list(goods), og))
    return out


def g_well_conditioned(ref, lamref, eps):
    """The optimal multiplier must be resolvable in floating point: its distance from the lower limit (non monotonic:
    max mu_k + eps_k) has to be at least 1e9 ulp of the multiplier.  -> (ok, distance)"""
    floor = max(ref.dual_floor(k, eps[k]) for k in ref.active)
    room = lamref - floor
    mag = max(abs(lamref), abs(floor), 1e-300)
    if ref.variant == 'nonmono':
        # the distance is computed as multiplier - mu_k - eps_k: the terms cancel even when their sum, the limit, is 0
        mag = max([mag] + [max(abs(ref.mu[k]), abs(ref.eps(eps[k]))) for k in ref.active])
    return room > 1e9 * math.ulp(mag), room


def gkey(clause, variant, cfg, extra):
    n = len(cfg['goods'])
    og = 'none' if cfg['og'] is None else ('yes' if n > 1 else 'yes(the-only-good)')
    return f"C18|{clause}|{variant}|og={og}|goods={n}" + (f'|{extra}' if extra else '')


def _part_g(task, rec):
    import numpy as np

    alph = alphabet(task.get('seed', _SEED))
    goods, og, pset, ri = task['goods'], task['og'], task['pset'], task['row']
    labs, budgets = task['labs'], task['budgets']
    draws = [tuple(float(v) for v in e) for e in task['draws']]
    _, one = make_rows(alph['rows'])
    values = pset_values(alph, pset, alph['rows'][ri])
    kind = 'magnitude' if '@' in pset else ('ties' if pset in ('T', 'U') else 'goods')
    extra = {'magnitude': 'baseline-utilities-shifted', 'ties': 'identical-goods', 'goods': ''}[kind]
    fails = {}      # clause -> {variant: (what, case, expected, observed)}  (first witness per variant)
    tiny = []       # witnesses of K_TINY
    ran = set()
    for variant in task['variants']:
        shapes = []
        for prices, scale in task['shapes']:     # prices: 'if the variant has them'
            sh = (bool(prices and HAS_PRICES[variant]), bool(scale))
            if sh not in shapes:
                shapes.append(sh)
        for prices, scale in shapes:
            cfg = dict(variant=variant, prices=prices, scale=scale, og=og, goods=goods)
            name = cfg_name(cfg)
            ref = Ref(cfg, values, alph['rows'][ri])
            sols = {}
            for budget in budgets:
                for eps in draws:
                    try:
                        sols[(budget, eps)] = ref.solve(budget, eps)
                    except (ArithmeticError, ValueError, ZeroDivisionError, OverflowError):
                        sols[(budget, eps)] = None
                        rec.count('skipped_reference_has_no_solution')
            for li, lab in enumerate(labs):
                model = build_model(cfg, lab, alph['psets']['D'])
                model.estimation_results = _Results(values)
                labels = lab['labels']
                for budget in budgets:
                    scale_b = max(1.0, budget)
                    answers = {}
                    for eps in draws:
                        sol = sols[(budget, eps)]
                        if sol is None:
                            continue
                        xref, lamref = sol
                        ok, room = g_well_conditioned(ref, lamref, eps)
                        if not ok:
                            rec.count('skipped_ill_conditioned:multiplier-not-resolvable-above-its-lower-limit')
                            continue
                        ran.add(variant)
                        case = dict(part='g', cfg=cfg, pset=pset, row=ri, budget=budget, eps=list(eps), lab=lab, seed=_SEED)
                        where = (f'{name} params {pset} row {ri} budget {budget} eps(A,B,C)={list(eps)} labels(A,B,C)={labels} '
                                 f'[{lab["order"]}]')
                        ck = ('g', name, pset, ri, budget, eps, tuple(labels), lab['order'])
                        w0 = sorted(ref.MU(k, 0.0, eps[k]) for k in goods if k != og)
                        tie = any(w0[j] == w0[j + 1] for j in range(len(w0) - 1))
                        if tie:
                            rec.count('problems_with_bitwise_equal_marginal_utilities_at_zero')
                        mag = 'tiny' if room < G_TINY else ('huge' if lamref > 1e5 else 'ordinary')
                        rec.count('multiplier_magnitude:' + mag)
                        out = run_one_forecast(model, cfg, lab, one[ri], budget, eps)
                        if isinstance(out, tuple):
                            rec.case(None, (ck, out), outcome=f'{variant}|g|{kind}|raised:{out[1]}')
                            rec.count('forecast_raised')
                            fails.setdefault('forecast-raises:' + out[1], {}).setdefault(
                                variant, (f'{where}: forecast_bisection_one_draw raised {out[1]}: {out[2]}', case, dict(x=xref),
                                          f'{out[1]}: {out[2]}'))
                            if out[1] == 'RuntimeError':
                                rec.retire = True
                            continue
                        answers[eps] = out
                        pattern = ''.join(GOODS[k] for k in goods if out[k] > ZERO * scale_b)
                        bad = check_forecast(ref, budget, eps, out, xref, lamref)
                        rec.case(ck, (ck, [round(v, 9) for v in out]),
                                 outcome=f"{variant}|g|{kind}|n={len(goods)}|{'tie|' if tie else ''}{mag}|consumed={pattern}|{'bad' if bad else 'ok'}")
                        if bad and room < G_TINY:
                            # the bisection's default tolerance on the multiplier is an absolute 1e-13: is that the reason?
                            again = run_one_forecast(model, cfg, lab, one[ri], budget, eps, tol=(room * 1e-10, None, 'kw'))
                            if not isinstance(again, tuple) and not check_forecast(ref, budget, eps, again, xref, lamref):
                                tiny.append((f'{where}: {bad[0][0]}: {bad[0][1]} (optimal multiplier {lamref!r}, {room:.3g} above its lower '
                                             f'limit); the same call with tolerance_dual={room * 1e-10:.3g} returns {again}', case,
                                             dict(x=xref, dual=lamref), dict(x=out)))
                                continue
                            bad = [(c + '|also-with-tolerance_dual-scaled-to-the-multiplier', d) for c, d in bad]
                        for clause, detail in bad:
                            fails.setdefault(clause, {}).setdefault(variant, (f'{where}: {clause}: {detail}', case, dict(x=xref, dual=lamref),
                                                                             dict(x=out)))
                    # the data-frame entry point and the brute-force optimiser on the same problems (first labeling)
                    coarse = any(sols[(budget, e)] is not None and g_well_conditioned(ref, sols[(budget, e)][1], e)[1] < 1e-3 for e in draws)
                    if li == 0 and task.get('api') and coarse:
                        # forecast() asks for a multiplier to 1e-10 (absolute), the one-draw call for 1e-13: with a multiplier
                        # that small the two answers differ for the reason reported under K_TINY
                        rec.count('skipped_api_comparison:multiplier-within-1e-3-of-its-lower-limit')
                    elif li == 0 and task.get('api') and len(answers) == len([e for e in draws if sols[(budget, e)] is not None]) and answers:
                        active = tuple(goods)
                        eps_list = list(answers)
                        arr = np.zeros((len(eps_list), len(active)))
                        for d_, eps in enumerate(eps_list):
                            for k in active:
                                arr[d_, model.key_to_index[labels[k]]] = eps[k]
                        case = dict(part='g', cfg=cfg, pset=pset, row=ri, budget=budget, eps=list(eps_list[0]), lab=lab, seed=_SEED)
                        try:
                            frames_ = model.forecast(database=one[ri], total_budget=budget, epsilons=[arr])
                            got = [[float(frames_[0][labels[k]].iloc[d_]) if k in active else 0.0 for k in range(3)]
                                   for d_ in range(len(eps_list))]
                            okf = len(frames_) == 1 and list(frames_[0].columns) == sorted(labels[k] for k in active)
                        except Exception as ex:  # noqa: BLE001
                            rec.case(None, (name, pset, budget, 'api', type(ex).__name__), outcome=f'{variant}|g|api-raised')
                            fails.setdefault('forecast-api-raises:' + type(ex).__name__, {}).setdefault(
                                variant, (f'{name} params {pset} row {ri} budget {budget} labels {labels}: Mdcev.forecast raised '
                                          f'{type(ex).__name__}: {str(ex)[:200]}', case, None, f'{type(ex).__name__}: {str(ex)[:200]}'))
                            if isinstance(ex, RuntimeError):
                                rec.retire = True
                        else:
                            for d_, eps in enumerate(eps_list):
                                same = okf and all(abs(got[d_][k] - answers[eps][k]) <= 1e-6 * scale_b for k in range(3))
                                rec.case(('g-api', name, pset, ri, budget, eps), (name, pset, ri, budget, eps, [round(v, 7) for v in got[d_]]),
                                         outcome=f"{variant}|g|api|{'same' if same else 'differs'}")
                                if not same:
                                    fails.setdefault('forecast-api-is-not-the-one-draw-answer', {}).setdefault(
                                        variant, (f'{name} params {pset} row {ri} budget {budget} draw {list(eps)} labels {labels}: forecast() gives '
                                                  f'{got[d_]} (columns {list(frames_[0].columns)}), forecast_bisection_one_draw {answers[eps]}',
                                                  dict(case, eps=list(eps)), answers[eps], got[d_]))
                        if len(goods) > 1 or og is None:
                            for eps in eps_list[:task.get('nbf', 3)]:
                                bf = run_bruteforce(model, lab, one[ri], budget, eps, active)
                                if bf is None or isinstance(bf, tuple):
                                    rec.count('bruteforce_returned_none' if bf is None else 'bruteforce_raised:' + bf[1])
                                    if isinstance(bf, tuple) and bf[1] == 'RuntimeError':
                                        rec.retire = True
                                    continue
                                if check_bruteforce(ref, budget, bf) or abs(sum(bf) - budget) > 1e-7 * scale_b:
                                    rec.count('bruteforce_infeasible_skipped')
                                    continue
                                try:
                                    ob = ref.objective([max(v, 0.0) for v in bf], eps)
                                    ol = ref.objective(answers[eps], eps)
                                except (ValueError, OverflowError, ZeroDivisionError):
                                    rec.count('bruteforce_objective_undefined_skipped')
                                    continue
                                rec.count('bruteforce_compared')
                                if ol < ob - OBJ_TOL * max(1.0, abs(ob)):
                                    fails.setdefault('worse-than-brute-force', {}).setdefault(
                                        variant, (f'{name} params {pset} row {ri} budget {budget} draw {list(eps)}: objective {ol!r} at '
                                                  f'x={answers[eps]} < brute force objective {ob!r} at {bf}', dict(case, eps=list(eps)), ob, ol))
    if task.get('sample'):
        rec.sample(dict(part='g', goods=goods, og=og, pset=pset, failed=sorted(fails), tiny=len(tiny)))
    if tiny:
        what, case, expected, observed = tiny[0]
        rec.count('further_witnesses_of_a_reported_key', len(tiny) - 1)
        rec.violation(K_TINY, what, dict(case, key=K_TINY), expected=expected, observed=observed)
    force = task.get('force_key')
    cfg0 = dict(og=og, goods=goods)
    for clause, per in fails.items():
        everywhere = len(ran) > 1 and set(per) >= ran
        for variant, (what, case, expected, observed) in sorted(per.items()):
            key = force if force is not None else gkey(clause, 'variant:any' if everywhere else variant, cfg0, extra)
            rec.violation(key, what, dict(case, key=key), expected=expected, observed=observed)
            if everywhere:
                break



# --------------------------------------------------------------------------- tasks
def tasks(tier, seed):
    t = []
    cfgs = configs(tier)
    labs = labelings(tier)
    nq = len(LABELINGS_QUICK)
    quick_labs, extra_labs = labs[:nq], labs[nq:]
    if tier == 'quick':
        psets = ['D', 'B']
        budgets = [1.0, 10.0]
        big = [BIG_BUDGET]
        p_labs = [labs[0], labs[4], labs[9]]
        h_depth = 3
        api = [('D', 1.0, 0), ('B', 10.0, 3), ('B', BIG_BUDGET, 9)]
    else:
        psets = ['D', 'A', 'B']
        budgets = [0.125, 1.0, 10.0]
        big = [BIG_BUDGET, HUGE_BUDGET]
        p_labs = quick_labs
        h_depth = 4
        api = [(ps, b, li) for ps in psets for b in budgets + big for li in (0, 3, 8)]
    # pieces first (simplest), then forecasts, the data-frame API, then histories
    for cfg in cfgs:
        for pset in psets:
            t.append(dict(part='p', cfg=cfg, pset=pset, rows=[0, 1], labs=p_labs, seed=seed))
    firsts = (-1.0, 0.0, 1.0)
    tails = [list(e) for e in itertools.product(firsts, repeat=2)]
    half = (0, 3, 4, 6, 9, 10)
    for ci, cfg in enumerate(cfgs):
        combo = 0
        for pset in psets:
            for ri in (0, 1):
                for budget in budgets:
                    if tier == 'quick' and (pset, ri, budget) in (('D', 1, 1.0), ('B', 0, 10.0)):
                        continue  # quick: 6 of the 8 (parameter set, row, budget) combinations
                    combo += 1
                    use = quick_labs
                    if tier == 'quick' and cfg['variant'] == 'translated' and cfg['og'] is not None:
                        # the library needs ~1070 bisection steps (50 ms) whenever only the outside good is consumed:
                        # quick keeps 6 of the 12 labelings for this configuration, thorough all of them
                        use = [quick_labs[i] for i in half]
                    if tier == 'quick' and (pset, ri, budget) in (('D', 1, 10.0), ('B', 1, 1.0)):
                        use = [quick_labs[i] for i in half]   # quick: 6 of the 12 labelings on 2 of the 6 combinations
                    for ei, e0 in enumerate(firsts):
                        # quick: the brute-force optimiser on a rotating third of the chunks (thorough: all of them)
                        bf = [0] if (tier != 'quick' or (ci + combo + ei) % 3 == 0) else []
                        t.append(dict(part='f', cfg=cfg, pset=pset, row=ri, labs=use, budgets=[budget],
                                      draws=[[e0] + tl for tl in tails], seed=seed, bf_labs=bf))
    # large budgets (negative multipliers in the non-monotonic variant): quick one (parameter set, row) per
    # configuration -- both for the non-monotonic variant -- under 2 labelings, the brute-force optimiser on the
    # non-monotonic variant; thorough every parameter set and row under 4 labelings, brute force everywhere
    for ci, cfg in enumerate(cfgs):
        if tier == 'quick':
            combos = [('D', 0), ('B', 1)]
            if cfg['variant'] != 'nonmono':
                combos = [combos[(ci + ci // 4) % 2]]
            use = [quick_labs[0], quick_labs[9]]
        else:
            combos = [(ps, ri) for ps in psets for ri in (0, 1)]
            use = [quick_labs[i] for i in (0, 6, 9, 10)]
        for pset, ri in combos:
            for budget in big:
                for ei, e0 in enumerate(firsts):
                    bf = [0] if (tier != 'quick' or cfg['variant'] == 'nonmono' or (ci + ei) % 3 == 0) else []
                    t.append(dict(part='f', cfg=cfg, pset=pset, row=ri, labs=use, budgets=[budget],
                                  draws=[[e0] + tl for tl in tails], seed=seed, bf_labs=bf))
    # requested tolerances x entry points
    for ci, cfg in enumerate(cfgs):
        if tier == 'quick':
            combos = [('D', 10.0, 0, 0), ('B', BIG_BUDGET, 1, 9)]
            tols = [list(tl) + ['kw'] for tl in TOLS_QUICK] + [[1e-14, 1e-3, 'pos']]
            for pi, (pset, budget, ri, li) in enumerate(combos):
                # all 27 draws with the large budget, a rotating third with the medium one
                for e0 in (firsts if budget == BIG_BUDGET else [firsts[(ci + pi) % 3]]):
                    t.append(dict(part='t', cfg=cfg, pset=pset, budget=budget, rows=[ri], lab=labs[li], draws=[[e0] + tl for tl in tails],
                                  tols=tols, api=True, seed=seed))
        else:
            combos = [('D', 10.0, 0), ('B', BIG_BUDGET, 9), ('A', 1.0, 3), ('D', HUGE_BUDGET, 6)]
            for pset, budget, li in combos:
                for e0 in firsts:
                    t.append(dict(part='t', cfg=cfg, pset=pset, budget=budget, rows=[0, 1], lab=labs[li], draws=[[e0] + tl for tl in tails],
                                  tols=[list(tl) + ['kw'] for tl in TOLS_QUICK] + [[1e-14, 1e-3, 'pos']], api=True, seed=seed))
                t.append(dict(part='t', cfg=cfg, pset=pset, budget=budget, rows=[0, 1], lab=labs[li],
                              draws=[[e0] + tails[(3 * ci + 4 * i) % 9] for i, e0 in enumerate(firsts * 3)],
                              tols=[list(tl) + ['kw'] for tl in TOLS_MORE] + [[1e-3, 1e-13, 'pos']], api=True, seed=seed))
    # the brute-force routes (one draw, forecast(brute_force=True), forecast_comparison_one_draw, validate_forecast)
    for ci, cfg in enumerate(cfgs):
        if tier == 'quick':
            if cfg['prices'] != HAS_PRICES[cfg['variant']]:
                continue
            combos = [('D', 10.0), ('B', BIG_BUDGET)]
            if cfg['variant'] != 'nonmono':
                combos = [combos[(ci + ci // 4) % 2]]
            for pset, budget in combos:
                t.append(dict(part='b', cfg=cfg, pset=pset, budget=budget, ndraws=2, labs=[labs[0], labs[(8, 9)[ci % 2]]],
                              routes='last', seed=seed))
        else:
            for pset in psets:
                for budget in (1.0, 10.0, BIG_BUDGET):
                    if budget == 1.0 and pset != 'D':
                        continue
                    # natural labels, then labelings whose sorted order differs from the positions (8, 9, 11) or not (6)
                    use = [labs[0], labs[6], labs[11]] if budget == 1.0 else [labs[0], labs[8], labs[9]]
                    t.append(dict(part='b', cfg=cfg, pset=pset, budget=budget, ndraws=3, labs=use, routes='all', seed=seed))
    # thorough: the whole pool of labelings on the quick grid; every chunk starts with the natural labeling so
    # that the labeling differential always has the same anchor
    chunk = 15
    for cfg in cfgs:
        for pset in ('D', 'B'):
            for ri in (0, 1):
                for budget in (1.0, 10.0):
                    # translated: every other extra labeling (its bisection is 5-10 times slower, see above)
                    extra = extra_labs[::2] if cfg['variant'] == 'translated' else extra_labs
                    for e0 in firsts:
                        for c0 in range(0, len(extra), chunk):
                            t.append(dict(part='f', cfg=cfg, pset=pset, row=ri, labs=[labs[0]] + extra[c0:c0 + chunk],
                                          budgets=[budget], draws=[[e0] + tl for tl in tails], seed=seed, bf_labs=[]))
    for cfg in cfgs:
        for ps, b, li in api:
            t.append(dict(part='a', cfg=cfg, pset=ps, budget=b, lab=labs[li], seed=seed))
    # data frames: which row is observation i (index labels of the pandas frame, real operations that produce them)
    frs = frames(tier)
    if tier == 'quick':
        for ci, cfg in enumerate(cfgs):
            ps, b, li = (('D', 1.0, 7), ('B', 10.0, 9))[(ci + ci // 4) % 2]
            t.append(dict(part='d', cfg=cfg, pset=ps, budget=b, lab=labs[li], frames=frs, ndraws=3, split=['all'], seed=seed,
                          sample=ci == 0))
    else:
        for ci, cfg in enumerate(cfgs):
            for ps, b, li in (('D', 1.0, 7), ('B', 10.0, 9), ('A', 10.0, 0), ('D', 0.125, 10)):
                for c0 in range(0, len(frs), 24):
                    t.append(dict(part='d', cfg=cfg, pset=ps, budget=b, lab=labs[li], frames=[frs[0]] + frs[max(c0, 1):c0 + 24], ndraws=9,
                                  seed=seed, sample=ci == 0 and c0 == 0 and ps == 'D' and li == 7))
    # parameters obtained by a real estimation (estimate_parameters), mixed with the setter: histories
    e_cfgs = [cfg for cfg in cfgs if cfg['og'] in (None, 1)]
    if tier == 'quick':
        # the variant's full configuration and the bare one, with / without an outside good; weights on every other one
        ei = 0
        for cfg in e_cfgs:
            if (cfg['prices'], cfg['scale']) not in ((HAS_PRICES[cfg['variant']], True), (False, False)):
                continue
            ops = [[o[0], {'A': 'B', 'B': 'A'}[o[1]]] if (ei % 2 and len(o) > 1) else list(o) for o in E_OPS_QUICK]
            t.append(dict(part='e', cfg=cfg, lab=labs[(9, 0)[ei % 2]], weights=bool((ei // 2) % 2), histories=est_histories(ops, 3),
                          seed=seed, sample=ei == 0))
            ei += 1
    else:
        for ci, cfg in enumerate(e_cfgs):
            full = cfg['prices'] == HAS_PRICES[cfg['variant']] and cfg['scale']
            # depth 4 over {EA, EB, SA, O} for the variant's full configuration, depth 3 over {EA, EB, SA, SB, O} for all
            for first in E_OPS_THOROUGH:
                hs = est_histories(E_OPS_THOROUGH, 3, first=first)
                if full:
                    hs += [h for h in est_histories(E_OPS_DEEP, 4, first=first) if len(h) == 4]
                if hs:
                    t.append(dict(part='e', cfg=cfg, lab=labs[(9, 0, 8)[ci % 3]], weights=bool(ci % 2), histories=hs, seed=seed,
                                  sample=ci == 0 and first[0] == 'E' and first[1] == 'A'))
    # goods (1 or 2 of them), ties (identical goods), magnitudes (every baseline utility shifted): part g
    nat, odd = labs[0], labs[8]      # labels 1,2,3 (a subset {B, C} has labels 2,3 at positions 0,1) and 8,1,2
    full_shape, bare_shape = [True, True], [False, False]
    if tier == 'quick':
        gi = 0
        for goods, og in subsets_with_og((1, 2)):
            n = len(goods)
            all_draws = [[e[goods.index(k)] if k in goods else 0.0 for k in range(3)] for e in itertools.product(firsts, repeat=n)]
            for pset in ('T', ('D', 'B')[gi % 2]):
                if n == 1 and pset == 'T':
                    continue     # one good: no tie
                t.append(dict(part='g', goods=goods, og=og, pset=pset, row=gi % 2, labs=[nat, odd] if pset != 'T' else [(nat, odd)[gi % 2]],
                              budgets=[1.0, (10.0, BIG_BUDGET)[gi % 2]],
                              draws=all_draws, variants=list(VARIANTS), shapes=[full_shape], api=True, nbf=1, seed=seed, sample=gi == 0))
            gi += 1
        for gi, og in enumerate((None, 0, 1, 2)):
            # three identical goods (T): all 27 draws; A and B identical (U): the 9 draws with eps_A = eps_B
            for pset, dr in (('T', [list(e) for e in ALL_DRAWS]), ('U', [[e0, e0, e2] for e0 in firsts for e2 in firsts])):
                for vs in (VARIANTS[:2], VARIANTS[2:]):
                    t.append(dict(part='g', goods=[0, 1, 2], og=og, pset=pset, row=gi % 2, labs=[(nat, odd)[gi % 2]],
                                  budgets=[1.0, 10.0] if pset == 'T' else [(1.0, 10.0)[gi % 2]],
                                  draws=dr, variants=list(vs), shapes=[full_shape], api=pset == 'U', nbf=1, seed=seed))
        for si, sh in enumerate(SHIFTS_QUICK):
            for oi, og in enumerate((None, 1)):
                t.append(dict(part='g', goods=[0, 1, 2], og=og, pset=f'D@{sh}', row=(si + oi) % 2, labs=[nat], budgets=[10.0, 100.0],
                              draws=[list(ALL_DRAWS[(5 + 7 * j + 3 * si + oi) % 27]) for j in range(3)], variants=list(VARIANTS),
                              shapes=[full_shape], api=False, seed=seed))
    else:
        g_labs = [quick_labs[i] for i in (0, 8, 9)]
        gi = 0
        for goods, og in subsets_with_og((1, 2)):
            n = len(goods)
            all_draws = [[e[goods.index(k)] if k in goods else 0.0 for k in range(3)] for e in itertools.product(firsts, repeat=n)]
            for pset in ('D', 'B', 'T', 'U'):
                if n == 1 and pset in ('T', 'U'):
                    continue
                gi += 1
                for bs in ([0.125, 10.0], [1.0, BIG_BUDGET]):
                    t.append(dict(part='g', goods=goods, og=og, pset=pset, row=gi % 2, labs=g_labs, budgets=bs,
                                  draws=all_draws, variants=list(VARIANTS), shapes=[full_shape, bare_shape], api=True, nbf=3, seed=seed))
        for oi, og in enumerate((None, 0, 1, 2)):
            for pi, pset in enumerate(('T', 'U')):
                for ri in (0, 1):
                    for variant in VARIANTS:
                        t.append(dict(part='g', goods=[0, 1, 2], og=og, pset=pset, row=ri, labs=[nat, odd] if (oi + pi + ri) % 2 else [odd, nat],
                                      budgets=[0.125, 1.0, 10.0, BIG_BUDGET], draws=[list(e) for e in ALL_DRAWS], variants=[variant],
                                      shapes=[full_shape, bare_shape], api=True, nbf=3, seed=seed))
        for si, sh in enumerate(SHIFTS_THOROUGH):
            for oi, og in enumerate((None, 0, 1)):
                for ei, e0 in enumerate(firsts):
                    t.append(dict(part='g', goods=[0, 1, 2], og=og, pset=f'D@{sh}', row=(si + oi + ei) % 2, labs=[nat], budgets=[1.0, 100.0, 1e5],
                                  draws=[[e0] + tl for tl in tails], variants=list(VARIANTS), shapes=[full_shape, bare_shape],
                                  api=e0 == 0.0, nbf=2, seed=seed))
            for goods, og in subsets_with_og((1, 2)):
                n = len(goods)
                if n == 1 and og is not None:
                    continue     # the model whose only good is the outside good: no multiplier at all
                all_draws = [[e[goods.index(k)] if k in goods else 0.0 for k in range(3)] for e in itertools.product(firsts, repeat=n)]
                t.append(dict(part='g', goods=goods, og=og, pset=f'B@{sh}', row=1, labs=[nat], budgets=[1.0, 100.0], draws=all_draws,
                              variants=list(VARIANTS), shapes=[full_shape], api=False, seed=seed))
    h_lab = [labs[0], labs[9]] if tier == 'thorough' else [labs[9]]
    for cfg in cfgs:
        if cfg['prices'] != HAS_PRICES[cfg['variant']] or not cfg['scale']:
            continue
        if cfg['og'] not in (None, 1):
            continue
        for lab in h_lab:
            for first in h_ops():
                t.append(dict(part='h', cfg=cfg, lab=lab, prefix=[list(first)], depth=h_depth, seed=seed))
        # the same histories with refused assignments mixed in (quick: the dictionary of values; thorough: also None, a number)
        refused = list(X_VALUES[:1] if tier == 'quick' else X_VALUES[:2])
        if tier == 'quick' and cfg['og'] != (None, 1)[VARIANTS.index(cfg['variant']) % 2]:
            continue     # quick: one configuration per variant, with / without an outside good alternating
        for first in h_ops(refused):
            t.append(dict(part='h', cfg=cfg, lab=h_lab[-1], prefix=[list(first)], depth=h_depth, refused=refused, only_with_refused=True,
                          seed=seed))
    return t


def run_task(task):
    rec = Rec()
    part = task['part']
    if part == 'f':
        _part_f(task, rec)
    elif part == 'a':
        _part_a(task, rec)
    elif part == 'p':
        _part_p(task, rec)
    elif part == 'h':
        _part_h(task, rec)
    elif part == 'd':
        _part_d(task, rec)
    elif part == 't':
        _part_t(task, rec)
    elif part == 'b':
        _part_b(task, rec)
    elif part == 'e':
        _part_e(task, rec)
    elif part == 'g':
        _part_g(task, rec)
    return rec.result()


# --------------------------------------------------------------------------- replay
def replay(case):
    global _SEED
    rec = Rec()
    seed = case.get('seed', _SEED)
    _SEED = seed
    part = case['part']
    if part == 'f':
        labs = [case['lab']] if 'lab0' not in case else [case['lab0'], case['lab']]
        task = dict(part='f', cfg=case['cfg'], pset=case['pset'], row=case['row'], labs=labs, budgets=[case['budget']],
                    draws=[case['eps']], seed=seed, bf_labs=list(range(len(labs))), force_cls=case.get('cls'))
        _part_f(task, rec)
    elif part == 'a':
        _part_a(dict(case), rec)
    elif part == 'g':
        cfg = case['cfg']
        _part_g(dict(part='g', goods=cfg['goods'], og=cfg['og'], pset=case['pset'], row=case['row'], labs=[case['lab']],
                     budgets=[case['budget']], draws=[case['eps']], variants=[cfg['variant']], shapes=[[cfg['prices'], cfg['scale']]],
                     api=True, nbf=1, seed=seed, force_key=case.get('key')), rec)
    elif part == 'd':
        _part_d(dict(part='d', cfg=case['cfg'], pset=case['pset'], lab=case['lab'], budget=case['budget'], frames=[case['frame']],
                     ndraws=case['ndraws'], seed=seed, force_cls=case.get('cls')), rec)
    elif part == 'p':
        task = dict(part='p', cfg=case['cfg'], pset=case['pset'], rows=[case['row']], labs=[case['lab']], seed=seed)
        if case['kind'] == 'validation':
            _part_p(task, rec, only='validation')
        else:
            _part_p(task, rec, only=(case['good'], case['kind'], case['point'], case['eps'], case['row']))
    elif part == 't':
        if case['entry'] == 'one-draw':
            task = dict(part='t', cfg=case['cfg'], pset=case['pset'], budget=case['budget'], rows=[case['row']], lab=case['lab'],
                        draws=[case['eps']], tols=[case['tol']], api=False, seed=seed)
        else:
            task = dict(part='t', cfg=case['cfg'], pset=case['pset'], budget=case['budget'], rows=case['rows'], lab=case['lab'],
                        draws=case['draws'], tols=[case['tol']], api=True, seed=seed)
        _part_t(task, rec)
    elif part == 'b':
        _part_b(dict(part='b', cfg=case['cfg'], pset=case['pset'], budget=case['budget'], ndraws=case['ndraws'], labs=case['labs'],
                     routes=case.get('routes', 'all'), seed=seed), rec)
    elif part == 'e':
        alph = alphabet(seed)
        out = run_est_history(case['cfg'], case['lab'], case['history'], alph, case['weights'])
        if out['status'] == 'bad':
            key, what = est_violation(case['cfg'], case['lab'], case['history'], out, alph, case['weights'])
            rec.violation(key, what, case, expected=out['expected'], observed=out['observed'])
    elif part == 'h':
        alph = alphabet(seed)
        hist = [tuple(o) for o in case['history']]
        bad = run_history(case['cfg'], case['lab'], hist, alph)
        if bad:
            key, what = history_violation(case['cfg'], case['lab'], hist, bad, alph)
            rec.violation(key, what, case, expected=bad[3], observed=bad[4])
    return rec.violations
