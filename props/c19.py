"""C19 - sampled choice sets follow the protocol; full sampling equals the full model.

Bounded exhaustive exploration on the real ChoiceSetsGeneration / GenerateModel / BIOGEME objects:

 part A  every set partition of the J alternatives into <= 3 strata x every size vector 1 <= k_s <= n_s
         x every chosen alternative x EVERY answer of the sampler (pandas.DataFrame.sample is replaced in the
         worker: it validates the request and returns, in turn, every ordered k-subset of each stratum, product
         across strata) x 3 specifications (utility + 1-2 combined variables).
 part B  the same with a second (MEV) partition: every set partition of the MEV alternatives x every size
         vector x every answer of the second sampler, paired with every first answer (product when small,
         otherwise diagonal pairing that still meets every answer of both samplers), nested and cross-nested.
 part V  size validation: k_s = 0 and k_s = n_s + 1 must be refused with BiogemeError.
 part F  (nest forms) the nested model is built from every WAY of handing the same nests to get_nested_logit:
         NestsForNestedLogit with distinct names / without names / old (mu, [ids]) tuples / every nest the same name /
         an explicit name colliding with an automatic one, and a plain tuple / list of OneNestForNestedLogit objects
         without names or with one common name - on 5 nest structures (1-3 nests, also two nests sharing one mu).
 part H  (histories on the user's frames) before - or after - the context under test, other SamplingContext objects are
         built on the SAME alternative / individual data frames (same nest names with other alphas, the same structure,
         a third one, no CNL at all; with or without a generation into the same file): every history of <= 2 earlier
         operations and <= 1 later one from that alphabet, then the unchanged oracles on the context under test.
 part S  (hand-over forms) the same sizes given as list / tuple / generator / one-shot iterator / dict-values view (declared
         type Iterable[int]; first and MEV sizes alike) x the same partition given as list of sets / tuple of sets / without
         the full set (default = union of the segments): 14 non-default combinations, the first tables generated again.
 part P  (non-partitions) every ordered list of 2..3 (thorough: 2..4, and J = 5 with 2..3) non-empty subsets of the ids in
         which two segments share an alternative (one segment listed twice included), full set given or defaulted: it is
         refused, or - when accepted - no choice set / MEV sample generated from it (every chosen alternative, sizes all-1 and
         all-n, sampler answering first-n / last-n) contains an alternative twice.
 part G  (histories on ONE model generator) one GenerateModel object is asked for several models in turn - every sequence of
         2 (thorough: also 3) calls from {get_logit, get_nested_logit(N0 / N1 / N2), get_cross_nested_logit} that are valid for
         the context, repetitions included - and afterwards EVERY expression obtained is evaluated (own BIOGEME object each, in
         building order or in reverse) against the unchanged likelihood oracles: all sequences on the 3-row table of the fully
         sampled contexts, rotating ones elsewhere.
 part D  (malformed inputs the library may accept) an alternative table with one id on two rows (every id, duplicate row next
         to the original or at the end), more / fewer sizes than strata, strata that do not cover the table - x every partition
         into <= 3 strata of 3 ids (thorough: <= 2 strata of 4 ids too) x every size vector x first / MEV role x every chosen
         alternative x EVERY answer of the sampler (odometer over all combinations of rows per request): refused, or the clauses
         of the statement that are still defined hold (chosen first, no alternative twice, count and correction of every
         stratum that has a size).
 part L  (labelings of the alternatives) the identifiers are arbitrary distinct integers: the same table relabelled through every
         labeling of a menu - the alternative at table position p relabelled 0 (every p < J), 0-based coding 0..J-1, negative /
         zero / positive mixed, all negative, beyond 2**31 - x every partition into <= 3 strata of J = 4 (thorough: J = 4, 5; for
         J = 4 also the reversed order of the strata and 3 specifications) x every size vector x every chosen alternative x EVERY
         answer of the sampler; and with a second sample: one complete first stratum x every MEV partition into <= 2 strata (and
         two that do not cover the table) sampled completely (thorough, J = 4: every MEV size vector), nested / cross-nested
         rotating.  Unchanged oracles.

Oracles (reference: vf/ref_sampling.py, plain Python):
  per generated row  - chosen first, no duplicates, exactly k_s per stratum (chosen counts), members = what the
                       sampler returned, own attributes, correction ln(k_s/n_s) of the member's own stratum, MEV weight
                       n/k, combined variables from the individual's and that alternative's own attributes, CNL alphas;
  per generated table- log likelihood of get_logit / get_nested_logit / get_cross_nested_logit through
                       BIOGEME.calculate_likelihood at 3 parameter points = reference (corrected model on the sample;
                       and, when every stratum is sampled completely, the textbook full-choice-set model).
"""
from __future__ import annotations

import math
import os
import re

from vf.rec import Rec
from vf import ref_sampling as R

ID = 'C19'
LEVEL = 'exploration'
TECHNIQUE = ('bounded exhaustive enumeration of partitions x sample sizes x choices x every answer of the owned sampler '
             '(DataFrame.sample seam) on the real choice-set generator, against a plain-Python reference of the protocol '
             'and of the logit / nested / cross-nested likelihoods; the nests handed over in every form (names absent, '
             'colliding, plain tuple / list); bounded histories of other contexts / generations on the same data frames; '
             'sizes / partition handed over in every form of the declared types (generator, iterator, view, tuple, default full '
             'set); every list of overlapping segments (non-partition) refused or free of duplicates; bounded histories of '
             'model-building calls on one GenerateModel object, every expression evaluated afterwards; malformed tables / size '
             'vectors (id on two rows, fewer / more sizes, strata not covering) refused or still within the protocol under every '
             'sampler answer; the alternatives relabelled through every labeling of a menu of identifier values (0 at every table '
             'position, 0-based, negative, mixed signs, beyond int32), the whole first-sample space enumerated again under each')
RULE = ('one case per generated row = (alternative table, partition, size vector, specification, chosen alternative, '
        'answer of the first sampler [, MEV partition, MEV sizes, answer of the second sampler]) and one case per '
        '(generated table, model, parameter point) likelihood comparison. A row is non-trivial when the sampler had a '
        'real choice (more than one possible answer) or the row belongs to a fully sampled table whose likelihood is '
        'compared with the full-choice-set model; distinct = distinct (context, chosen, answers, spec) keys. '
        'Within a context the pairs ((chosen, first answer), second answer) are the full product when <= 48, otherwise a '
        'diagonal pairing covering every (chosen, first answer) and every second answer at least once. '
        'Part F: on the tables with a nested model, 8 forms of handing over the nests x 3 multi-nest structures (+ 4 '
        'single-nest pairs): all pairs on the first two tables of fully sampled contexts (thorough: on all their tables and '
        'the first two of every other), 3 (6) rotating pairs elsewhere. Part H: the first tables of a context generated again '
        'inside each of 9 histories (<= 2 earlier, <= 1 later operation on the same frames): all 9 for fully sampled CNL '
        'contexts (thorough: every fully sampled context, two tables), one (three) rotating history for every other context. '
        'Part S: the 3-row table of a context generated again with the sizes / partition in another of 14 form combinations: '
        'all 14 for every 6th fully sampled MEV context (thorough: every 3rd fully sampled context), one (two) rotating '
        'combinations for every other context. Part P: one case per (ordered list of overlapping segments, full set given / '
        'defaulted); distinct = distinct lists. Part G: one case per (table, sequence of <= 2 (3) model-building calls on one '
        'GenerateModel object, evaluation order, model of the sequence, parameter point): all 16 (9 for CNL contexts) ordered '
        'pairs on the 3-row table of every fully sampled nested context and every 2nd fully sampled CNL context (thorough: all '
        'pairs on every fully sampled context, all triples on every 16th, 2 rotating triples elsewhere), 1-2 rotating pairs for '
        'the other contexts with a second sample, logit-logit for fully sampled / every 4th (2nd) context without one; '
        'evaluation order alternates. Part D: one case per (kind of malformation, partition, size vector, role, duplicated id, '
        'place of the duplicate row), all chosen alternatives and all sampler answers inside. Part L: the cases of part A (J = 4, one '
        'rotating specification, strata in canonical order; thorough: J = 4, 5, and for J = 4 reversed order, 3 specifications, every MEV size vector) and the '
        'fully sampled one-first-stratum contexts of part B enumerated again under each of J + 4 labelings of the alternatives '
        '(zero@p for every table position p, from0, around0, negative, large); a labeling is part of the case key, finding keys '
        'carry its class (ids-with-0 / ids-negative-0-positive / ids-negative / ids-beyond-int32); tables of 3 rows, then 32 (48).')
ASSUMPTIONS = [
    'the only random source of the generator is pandas.DataFrame.sample called from sampling_of_alternatives.py; the seam '
    'counts its calls, so a bypass (another random source) is reported as a violation, not missed',
    'partitions are true partitions of the ids of the alternative table, ids unique, one size per stratum (the statement\'s domain)',
    'attribute / socio-economic values and parameter points come from 4 fixed alphabets (VERIF_SEED mod 4); continuous '
    'domains are covered at those grid points only',
    'rows of one generated table are independent executions of the protocol; answers of different individuals are not '
    'enumerated as a product across individuals',
    'generations that belong to the history (not to the context under test) are answered with the first n rows of the '
    'stratum only; histories use the partition / sizes of the context under test, the next utility specification and nest '
    'names na / nb; nests with equal names are enumerated for the nested model only (for the cross-nested model the name is '
    'the column name of the membership degree, so equal names are outside the statement)',
    'part S: only forms inside the declared types Iterable[int] / Sequence[set]; a numpy array of sizes is observed and '
    'counted only (it is refused as MEV sizes: truth value of an array), never a violation',
    'part P: a list of overlapping segments that the library ACCEPTS is generated from with two sampler answers only '
    '(first n / last n rows), one individual per table; an exception during that generation is counted, not a violation '
    '(the statement only forbids an alternative twice)',
    'part G: the calls are made with freshly built nests objects on one generator; each expression is evaluated in its own '
    'BIOGEME object created after all calls, the objects used strictly one after the other (two BIOGEME objects alive and used '
    'alternately on expressions that share sub-expressions are not explored); get_nested_logit on a context without a second '
    'sample is not explored',
    'part D: inputs outside the statement\'s domain; only the outcome refused / clauses-hold is demanded, a table with one id on '
    'two rows that is accepted and yields that id twice in one choice set is reported (clause "contains no alternative twice"); '
    'fewer / more sizes than strata and non-covering strata that are accepted are observations unless a defined clause breaks',
    'part L: identifier VALUES only (Python ints in an int64 column; float / string / numpy-scalar identifiers are not explored); '
    'the nest forms, histories and hand-over forms of parts F, G, H, S and the malformed inputs of parts P, D, V are explored under '
    'the seed\'s identifiers only; under the labeling beyond 2**31 a mismatch of the NESTED model is counted, not reported: the '
    'external engine stores the members of a BelongsTo set in single precision (open finding '
    'C01|engine-value|belongs:set-member-not-representable-in-single-precision), protocol rows, logit and cross-nested models are '
    'checked as everywhere',
    'likelihoods are compared at relative 1e-10 (+1e-12); rows whose sampled nested/CNL term needs log(0) (a nest with no '
    'sampled MEV member) are out of domain and counted',
]
ANCHOR_FILES = [
    'src/biogeme/sampling_of_alternatives/sampling_of_alternatives.py',
    'src/biogeme/sampling_of_alternatives/choice_set_generation.py',
    'src/biogeme/sampling_of_alternatives/generate_model.py',
    'src/biogeme/sampling_of_alternatives/sampling_context.py',
    'src/biogeme/partition.py',
]
DETERMINISM_SLICE = 3
TASK_TIMEOUT = 600.0

# ----------------------------------------------------------------------------- value alphabets (VERIF_SEED)
_SEED = int(os.environ.get('VERIF_SEED', '0') or 0)
_A = _SEED % 4
IDS = [[7, 3, 12, 5, 9, 1], [2, 11, 4, 8, 6, 10], [100, 20, 3, 41, 5, 66], [0, 5, 3, 9, 2, 14]][_A]
COST = [[1.0, 2.5, 3.0, 4.0, 1.5, 2.0], [0.5, 1.25, 2.0, 3.5, 2.75, 1.0],
        [3.0, 1.0, 2.0, 0.75, 2.5, 1.75], [2.0, 2.0, 1.0, 3.0, 0.5, 4.0]][_A]
TT = [[1.5, 2.0, 0.5, 1.0, 0.75, 1.25], [0.25, 1.0, 1.5, 0.5, 2.0, 0.75],
      [1.0, 0.5, 2.0, 1.5, 0.25, 1.75], [0.5, 1.5, 1.5, 0.25, 1.0, 2.0]][_A]
ZONE = [[1, 2, 3, 1, 2, 3], [3, 1, 2, 2, 1, 3], [2, 2, 1, 3, 3, 1], [1, 3, 2, 1, 3, 2]][_A]
IND_POOL = [
    [(25.0, 1.5, 1), (30.0, 2.5, 3), (35.0, 3.5, 2), (20.0, 1.0, 2), (52.0, 4.0, 1)],
    [(18.0, 2.0, 2), (44.0, 1.25, 1), (61.0, 3.0, 3), (33.0, 0.5, 3), (27.0, 2.75, 1)],
    [(40.0, 1.0, 3), (22.0, 3.25, 2), (57.0, 2.0, 1), (31.0, 0.75, 1), (29.0, 1.5, 2)],
    [(36.0, 2.5, 1), (48.0, 0.8, 2), (19.0, 1.6, 3), (65.0, 3.2, 3), (23.0, 1.1, 2)],
][_A]
# three parameter points; names in adversarial order (ASCII order != order of appearance)
POINTS = [
    [dict(b_z=0.0, B2=0.0, b10=0.0, b_a=0.0, mu_a=1.0, mu_b=1.0),
     dict(b_z=-0.4, B2=0.011, b10=-0.7, b_a=0.3, mu_a=1.3, mu_b=2.0),
     dict(b_z=0.25, B2=-0.006, b10=0.45, b_a=-0.5, mu_a=2.5, mu_b=1.0)],
    [dict(b_z=0.1, B2=0.002, b10=-0.1, b_a=0.2, mu_a=1.0, mu_b=1.5),
     dict(b_z=-0.6, B2=-0.009, b10=0.8, b_a=-0.25, mu_a=1.75, mu_b=1.2),
     dict(b_z=0.35, B2=0.007, b10=-0.3, b_a=0.6, mu_a=3.0, mu_b=2.2)],
    [dict(b_z=0.0, B2=0.01, b10=0.0, b_a=-0.1, mu_a=1.1, mu_b=1.0),
     dict(b_z=0.5, B2=-0.004, b10=-0.9, b_a=0.4, mu_a=1.0, mu_b=2.75),
     dict(b_z=-0.2, B2=0.008, b10=0.6, b_a=-0.35, mu_a=2.0, mu_b=1.4)],
    [dict(b_z=-0.15, B2=0.0, b10=0.2, b_a=0.0, mu_a=1.0, mu_b=1.0),
     dict(b_z=0.45, B2=0.005, b10=-0.55, b_a=0.15, mu_a=1.6, mu_b=1.9),
     dict(b_z=-0.3, B2=-0.012, b10=0.35, b_a=-0.45, mu_a=2.2, mu_b=1.3)],
][_A]
SPEC_NAMES = ['S0', 'S1', 'S2']
ATTRS = ['cost', 'tt', 'zone']
IND_COLS = ['age', 'inc', 'hz', 'hid']
FILE_NAME = 'c19_generated.dat'

# nest structures by *position* in the alternative table (positions >= J are dropped)
NEST_STRUCTS = {
    'N0': [('mu_a', [0, 1]), ('mu_b', [2, 3, 4, 5])],
    'N1': [('mu_a', [0, 2])],                      # the others are alone
    'N2': [('mu_b', [1, 2, 3]), ('mu_a', [4, 5])],  # position 0 alone
}
# more nest structures, used by part F only (two nests in any table, three nests two of which share one parameter)
NEST_STRUCTS_F = {
    'N3': [('mu_b', [0, 3]), ('mu_a', [1, 2, 4])],
    'N4': [('mu_a', [0]), ('mu_b', [1, 2]), ('mu_a', [3, 4, 5])],
}
# the ways of handing nests to GenerateModel.get_nested_logit (the statement speaks of nests = (parameter, members) only)
NEST_FORMS = ['auto', 'old', 'tuple', 'list', 'same', 'clash', 'tuple_same']
SAME_NAME = ['g', '', 'nest_1', 'nest'][_A]
CNL_STRUCTS = {
    'C0': [('na', 'mu_a', {0: 1.0, 1: 0.4, 2: 0.3, 4: 0.5}), ('nb', 'mu_b', {1: 0.6, 2: 0.7, 3: 1.0, 4: 0.5, 5: 1.0})],
    'C1': [('nb', 'mu_b', {0: 0.5, 1: 1.0}), ('na', 'mu_a', {0: 0.5, 2: 1.0, 5: 1.0})],  # position 3 (and 4) alone
}


# a third set of membership degrees under the same nest names: only ever used by an EARLIER / LATER context (part H)
CNL_STRUCTS_H = {
    'C2': [('na', 'mu_a', {0: 0.25, 1: 0.75, 3: 1.0, 4: 0.5}), ('nb', 'mu_b', {0: 0.75, 1: 0.25, 2: 1.0, 4: 0.5, 5: 1.0})],
}
# histories: operations on the same data frames before ('pre') / after ('post') the context under test.
#   X = the other structure (same nest names, other alphas), S = the same structure as the context under test (C0 when it has
#   none), C2 = the third one, '-' = a context without CNL nests; 'g' appended = that context also generates into the same file
HISTORIES = {
    'h0': dict(pre=[], post=[]),
    'hX': dict(pre=['X'], post=[]),
    'hS': dict(pre=['S'], post=[]),
    'hXg': dict(pre=['Xg'], post=[]),
    'h-g': dict(pre=['-g'], post=[]),
    'h2X': dict(pre=['C2', 'X'], post=[]),
    'hX2': dict(pre=['Xg', 'C2'], post=[]),
    'hS-': dict(pre=['S', '-'], post=[]),
    'hP': dict(pre=[], post=['X']),
    'hXP': dict(pre=['X'], post=['C2']),
}
HIST_NAMES = [h for h in HISTORIES if h != 'h0']

# part S: the ways of handing the SAME sizes / the SAME partition to SamplingContext (declared: Iterable[int], Sequence[set])
SIZE_FORMS = ['list', 'tuple', 'gen', 'iter', 'view']   # list / tuple / generator / one-shot iterator / dict-values view
PART_FORMS = ['list', 'tuple', 'nofull']                # list of sets / tuple of sets / list of sets without full_set
FORM_COMBOS = [(sf, pf) for sf in SIZE_FORMS for pf in PART_FORMS if (sf, pf) != ('list', 'list')]


def sizes_as(form, ks):
    """The same sample sizes as another Iterable[int]."""
    ks = [int(k) for k in ks]
    if form == 'list':
        return list(ks)
    if form == 'tuple':
        return tuple(ks)
    if form == 'gen':
        return (k for k in ks)
    if form == 'iter':
        return iter(ks)
    if form == 'view':
        return {f's{i}': k for i, k in enumerate(ks)}.values()
    raise ValueError(form)


def partition_as(form, blocks, full):
    """The same partition (segments in the same order) as another Sequence[set] / with the full set left to the default."""
    from biogeme.partition import Partition
    segs = [set(b) for b in blocks]
    if form == 'list':
        return Partition(segs, full_set=set(full))
    if form == 'tuple':
        return Partition(tuple(segs), full_set=set(full))
    if form == 'nofull':   # the default full set is the union of the segments = the full set of a true partition
        return Partition(segs)
    raise ValueError(form)


def form_class(t):
    sf, pf = t.get('sform') or 'list', t.get('pform') or 'list'
    out = []
    if sf != 'list':
        out.append(f'sizes-as={sf}')
    if pf != 'list':
        out.append(f'partition-as={pf}')
    return ','.join(out) or None


def hist_class(h):
    """coarse class of a history for finding keys"""
    d = HISTORIES[h]
    if not d['pre'] and not d['post']:
        return None
    if any(o.endswith('g') for o in d['pre']):
        return 'earlier-generation-on-the-same-frames'
    if d['pre']:
        return 'earlier-context-on-the-same-frames'
    return 'later-context-on-the-same-frames'


def alt_table(J):
    return [{R.ID: IDS[i], 'cost': COST[i], 'tt': TT[i], 'zone': ZONE[i]} for i in range(J)]


def individual(J, u, choice):
    age, inc, hz = IND_POOL[u % len(IND_POOL)]
    return dict(choice=choice, age=age, inc=inc, hz=hz, hid=IDS[(u * 2 + 1) % J])


def nests_for(J, name):
    out = []
    for mu, pos in (NEST_STRUCTS.get(name) or NEST_STRUCTS_F[name]):
        members = [IDS[i] for i in pos if i < J]
        if members:
            out.append((mu, members))
    return out


def cnl_for(J, name):
    out = []
    for nm, mu, al in (CNL_STRUCTS.get(name) or CNL_STRUCTS_H[name]):
        d = {IDS[i]: a for i, a in al.items() if i < J}
        if d:
            out.append((nm, mu, d))
    return out


# ----------------------------------------------------------------------------- part L: labelings of the alternatives
# The statement quantifies over ALL alternative tables: the identifiers are arbitrary distinct integers.  The seed alphabets
# above are small positive integers (0 only in alphabet 3, at one position); part L re-runs the protocol / likelihood oracles
# with the SAME table relabelled through every labeling of this menu (defined on the 6 table positions):
#   zero@p   the seed's identifiers, the alternative at table position p relabelled 0 (every p < J)
#   from0    0, 1, 2, ... in table order (the usual 0-based coding)
#   around0  negative, zero and positive identifiers, unsorted
#   negative the seed's identifiers negated
#   large    the seed's identifiers shifted beyond 2**31 (not representable as int32)
_SEED_IDS = list(IDS)
_BASE_IDS = [a if a != 0 else max(IDS) + 1 for a in IDS]   # the seed's identifiers without a 0 (alphabet 3 has one)
_AROUND0 = [2, -1, 0, 1, -3, 3]


def labelings(J):
    return [f'zero@{p}' for p in range(J)] + ['from0', 'around0', 'negative', 'large']


def labeling_ids(lab):
    """the 6 identifiers of the table positions under labeling `lab` (None = the seed's own)"""
    if not lab:
        return list(_SEED_IDS)
    if lab.startswith('zero@'):
        p = int(lab[5:])
        return [0 if i == p else a for i, a in enumerate(_BASE_IDS)]
    if lab == 'from0':
        return list(range(len(_BASE_IDS)))
    if lab == 'around0':
        return list(_AROUND0)
    if lab == 'negative':
        return [-a for a in _BASE_IDS]
    if lab == 'large':
        return [a + 2 ** 31 for a in _BASE_IDS]
    raise ValueError(lab)


def lab_class(lab):
    """coarse class of a labeling for finding keys"""
    if not lab:
        return None
    if lab.startswith('zero@') or lab == 'from0':
        return 'ids-with-0'
    return {'around0': 'ids-negative-0-positive', 'negative': 'ids-negative', 'large': 'ids-beyond-int32'}[lab]


class use_labeling:
    """Everything below reads the identifiers from the module-level IDS at call time: swap it for the duration of one table."""

    def __init__(self, lab):
        self.ids = labeling_ids(lab)

    def __enter__(self):
        global IDS
        self.saved = IDS
        IDS = self.ids
        return self.ids

    def __exit__(self, *exc):
        global IDS
        IDS = self.saved
        return False


# ----------------------------------------------------------------------------- biogeme side
def build_spec(spec):
    """The biogeme counterpart of ref_sampling.SPECS[spec] (same operation order)."""
    from biogeme.expressions import Beta, Variable
    from biogeme.sampling_of_alternatives import CrossVariableTuple

    def b(n):
        return Beta(n, 0, None, None, 0)

    V = Variable
    if spec == 'S0':
        cvs = [CrossVariableTuple('ac', V('age') * V('cost') / V('inc'))]
        u = b('b_z') * V('cost') + b('B2') * V('ac')
    elif spec == 'S1':
        cvs = [CrossVariableTuple('tt_inc', V('inc') * V('tt')),
               CrossVariableTuple('dz', (V('hz') - V('zone')) * (V('hz') - V('zone')))]
        u = b('b10') * V('tt') + b('b_a') * V('dz') + b('b_z') * V('tt_inc')
    elif spec == 'S2':
        cvs = [CrossVariableTuple('home', V('hid') == V(R.ID))]
        u = b('b_z') * V('cost') + b('B2') * (V('age') * V('tt')) + b('b_a') * V('home')
    else:
        raise ValueError(spec)
    return u, cvs


def build_nests(form, nests_ref, all_ids):
    """The same nests (parameter name, members) handed over in one of the NEST_FORMS (or 'named', the original one)."""
    from biogeme.nests import NestsForNestedLogit, OneNestForNestedLogit
    from biogeme.expressions import Beta

    n = len(nests_ref)
    mus = [mu for mu, _ in nests_ref]

    def one(i, name):
        return OneNestForNestedLogit(nest_param=Beta(mus[i], 1.0, None, None, 0),
                                     list_of_alternatives=list(nests_ref[i][1]), name=name)

    def obj(names):
        return NestsForNestedLogit(choice_set=list(all_ids), tuple_of_nests=tuple(one(i, names[i]) for i in range(n)))

    if form == 'named':
        return obj([f'nest_{mu}' if mus.count(mu) == 1 else f'nest_{mu}_{i}' for i, mu in enumerate(mus)])
    if form == 'auto':
        return obj([None] * n)
    if form == 'old':
        return NestsForNestedLogit(choice_set=list(all_ids),
                                   tuple_of_nests=tuple((Beta(mu, 1.0, None, None, 0), list(m)) for mu, m in nests_ref))
    if form == 'tuple':
        return tuple(one(i, None) for i in range(n))
    if form == 'list':
        return [one(i, None) for i in range(n)]
    if form == 'same':
        return obj([SAME_NAME] * n)
    if form == 'clash':  # the explicit name of the first nest is the automatic name of the last one
        return obj([f'nest_{n}'] + [None] * (n - 1))
    if form == 'tuple_same':
        return tuple(one(i, SAME_NAME) for i in range(n))
    raise ValueError(form)


def build_cnl(cnl_ref, all_ids):
    from biogeme.nests import NestsForCrossNestedLogit, OneNestForCrossNestedLogit
    from biogeme.expressions import Beta
    return NestsForCrossNestedLogit(
        choice_set=list(all_ids),
        tuple_of_nests=tuple(
            OneNestForCrossNestedLogit(nest_param=Beta(mu, 1.0, None, None, 0), dict_of_alpha=dict(al), name=nm)
            for nm, mu, al in cnl_ref))


class FreeSeam:
    """Sampler of the generations that belong to the HISTORY (not to the context under test): first n rows."""

    def __init__(self):
        self.pos = 0

    def __call__(self, df, n=None, frac=None, replace=False, weights=None, random_state=None, axis=None,
                 ignore_index=False):
        self.pos += 1
        return Seam._fallback(df, n, ignore_index)


class Seam:
    """Owned sampler: replaces pandas.DataFrame.sample.  `script` is the list of requests the protocol
    prescribes, in order, each with the answer to give.  A request that differs is recorded as a problem
    and answered with the first n rows (so that the run can continue)."""

    def __init__(self, script, alts_by_id):
        self.script = script
        self.alts = alts_by_id
        self.pos = 0
        self.problems = []

    def __call__(self, df, n=None, frac=None, replace=False, weights=None, random_state=None, axis=None,
                 ignore_index=False):
        i = self.pos
        self.pos += 1
        if i >= len(self.script):
            self.problems.append(dict(row=None, phase='?', clause='sampler-asked-more-often-than-the-protocol',
                                      expected=len(self.script), observed=i + 1))
            return self._fallback(df, n, ignore_index)
        e = self.script[i]
        bad = None
        try:
            ids = [int(v) for v in df[R.ID].tolist()]
        except Exception as exc:  # not a frame of alternatives at all
            ids = None
            bad = ('request-not-a-frame-of-alternatives', 'frame with alt_id column', repr(exc))
        if bad is None:
            if sorted(ids) != e['ids']:
                bad = ('request-from-wrong-stratum-frame', e['ids'], sorted(ids))
            elif n != e['n']:
                bad = ('request-wrong-n', e['n'], n)
            elif replace is not False or frac is not None or weights is not None:
                bad = ('request-not-uniform-without-replacement', 'replace=False, frac=None, weights=None',
                       f'replace={replace!r} frac={frac!r} weights={weights!r}')
            elif axis not in (None, 0, 'index', 'rows'):
                bad = ('request-wrong-axis', 'index', repr(axis))
            else:
                for col in ATTRS:
                    vals = df[col].tolist() if col in df.columns else None
                    want = [self.alts[a][col] for a in ids]
                    if vals is None or [float(v) for v in vals] != [float(v) for v in want]:
                        bad = ('request-frame-rows-altered', {col: want}, {col: vals})
                        break
        if bad:
            self.problems.append(dict(row=e['row'], phase=e['phase'], clause=bad[0], expected=bad[1], observed=bad[2],
                                      chosen_inside=e.get('chosen_inside')))
            return self._fallback(df, n, ignore_index)
        pos = [ids.index(a) for a in e['answer']]
        out = df.iloc[pos].copy()
        if ignore_index:
            out = out.reset_index(drop=True)
        return out

    @staticmethod
    def _fallback(df, n, ignore_index):
        try:
            k = max(0, min(int(n), len(df)))
        except Exception:
            k = 0
        out = df.iloc[list(range(k))].copy()
        if ignore_index:
            out = out.reset_index(drop=True)
        return out


_ACTIVE = {'seam': None, 'orig': None}


def _patched_sample(self, *a, **k):
    seam = _ACTIVE['seam']
    if seam is None:
        return _ACTIVE['orig'](self, *a, **k)
    return seam(self, *a, **k)


def install(seam):
    import pandas as pd
    if _ACTIVE['orig'] is None:
        _ACTIVE['orig'] = pd.DataFrame.sample
        pd.DataFrame.sample = _patched_sample
    _ACTIVE['seam'] = seam


def uninstall():
    _ACTIVE['seam'] = None


def _single_exact(a):
    """is the identifier exactly representable as a single-precision float (what the external engine stores set members in)"""
    import struct
    try:
        return struct.unpack('f', struct.pack('f', float(a)))[0] == float(a)
    except OverflowError:
        return False


def _fnum(x):
    try:
        v = float(x)
    except Exception:
        return None
    return v


# ----------------------------------------------------------------------------- one generated table
def table_key(t):
    return ((t['J'], tuple(map(tuple, t['part1'])), tuple(t['k1']),
            None if t.get('part2') is None else (tuple(map(tuple, t['part2'])), tuple(t['k2'])), t['spec'], t.get('mv'))
            + ((t['hist'],) if (t.get('hist') or 'h0') != 'h0' else ())
            + ((form_class(t),) if form_class(t) else ())
            + ((('ids', t['lab']),) if t.get('lab') else ()))


def run_table(t, rec: Rec):
    """One table under its labeling of the alternatives (t['lab'], part L; absent = the seed's identifiers)."""
    with use_labeling(t.get('lab')):
        _run_table(t, rec)


def _run_table(t, rec: Rec):
    """Generates one table with the real library (sampler owned) and applies every oracle.
    t: dict(J, part1, k1, part2|None, k2|None, spec, mv, idx, rows=[dict(c, a1, a2|None, u)] [, lab])"""
    import pandas as pd
    from biogeme.partition import Partition
    from biogeme.sampling_of_alternatives import SamplingContext, ChoiceSetsGeneration, GenerateModel
    from biogeme.nests import (NestsForNestedLogit, OneNestForNestedLogit, NestsForCrossNestedLogit,
                               OneNestForCrossNestedLogit)
    from biogeme.expressions import Beta

    J = t['J']
    alts = alt_table(J)
    by_id = {a[R.ID]: a for a in alts}
    all_ids = [a[R.ID] for a in alts]
    part1, k1 = t['part1'], t['k1']
    part2, k2 = t.get('part2'), t.get('k2')
    spec, mv = t['spec'], t.get('mv')
    rows = t['rows']
    inds = [individual(J, r['u'], r['c']) for r in rows]
    full1 = all(k == len(b) for k, b in zip(k1, part1))
    full2 = part2 is not None and all(k == len(b) for k, b in zip(k2, part2))
    nviol0 = len(rec.violations) + sum(v.get('more', 0) for v in rec.violations)
    hist = t.get('hist') or 'h0'
    hclass = hist_class(hist)
    sform, pform = t.get('sform') or 'list', t.get('pform') or 'list'
    fclass = form_class(t)
    lclass = lab_class(t.get('lab'))

    def viol(clause, witness, what, expected=None, observed=None, row=None):
        case = dict(t)
        if row is not None:
            case = dict(t, focus_row=row)
        if lclass:
            witness = f'{witness}|{lclass}'
            what = f'{what}; LABELING of the alternatives: {t["lab"]} (identifiers {all_ids})'
        if fclass:
            witness = f'{witness}|{fclass}'
            what = f'{what}; HANDED OVER as: sample sizes {sform}, partition {pform}'
        if hclass:
            witness = f'{witness}|{hclass}'
            what = f'{what}; HISTORY on the same data frames: {HISTORIES[hist]}'
        rec.violation(f'C19|{clause}|{witness}', what, case, expected=expected, observed=observed)

    ctx_desc = (f'J={J} ids={all_ids} partition={part1} sizes={k1}'
                + (f' mev_partition={part2} mev_sizes={k2}' if part2 is not None else '') + f' spec={spec} mv={mv}')

    def report_seam(seam_):
        for p in seam_.problems:
            w = p['phase'] + ('|stratum-of-chosen' if p.get('chosen_inside') else '')
            row = p['row']
            viol(p['clause'], w,
                 f"sampler request for individual #{row} ({p['phase']} sample) deviates from the protocol: {p['clause']} "
                 f"expected {p['expected']} got {p['observed']}; {ctx_desc}"
                 + (f" chosen={rows[row]['c']}" if row is not None else ''),
                 expected=p['expected'], observed=p['observed'], row=row)

    # ---- the script of sampler requests prescribed by the protocol
    script = []
    for ri, r in enumerate(rows):
        for s, (req, ans) in enumerate(zip(R.expected_requests(part1, k1, r['c']), r['a1'])):
            script.append(dict(row=ri, phase='first', stratum=s, ids=req['ids'], n=req['n'], answer=ans,
                               chosen_inside=r['c'] in part1[s]))
        if part2 is not None:
            for s, (req, ans) in enumerate(zip(R.expected_requests_second(part2, k2), r['a2'])):
                script.append(dict(row=ri, phase='mev', stratum=s, ids=req['ids'], n=req['n'], answer=ans))

    # ---- inputs
    alts_df = pd.DataFrame({c: [a[c] for a in alts] for c in [R.ID] + ATTRS})
    ind_df = pd.DataFrame({c: [i[c] for i in inds] for c in ['choice'] + IND_COLS})
    if t.get('idx'):
        n = len(rows)
        ind_df.index = [10 + 3 * ((i * 7 + 2) % n) for i in range(n)]  # distinct, unsorted, with gaps
        alts_df.index = [5 + 2 * ((i * 5 + 3) % J) for i in range(J)]    # the table of alternatives likewise
    utility, cvs = build_spec(spec)
    cnl_obj = None
    cnl_ref = None
    if mv in CNL_STRUCTS:
        cnl_ref = cnl_for(J, mv)
        cnl_obj = build_cnl(cnl_ref, all_ids)
    if os.path.exists(FILE_NAME):
        os.remove(FILE_NAME)
    seam = Seam(script, by_id)

    def history_op(op):
        """Another context on the SAME frames (and, with 'g', a generation into the same file)."""
        g = op.endswith('g')
        sname = op[:-1] if g else op
        if sname == 'X':
            sname = 'C1' if mv == 'C0' else 'C0'
        elif sname == 'S':
            sname = mv if mv in CNL_STRUCTS else 'C1'
        u2, cv2 = build_spec(SPEC_NAMES[(SPEC_NAMES.index(spec) + 1) % len(SPEC_NAMES)])
        kw2 = {}
        if part2 is not None:
            kw2 = dict(mev_partition=Partition([set(b) for b in part2], full_set=set(a for b in part2 for a in b)),
                       mev_sample_sizes=list(k2))
        if sname != '-':
            kw2['cnl_nests'] = build_cnl(cnl_for(J, sname), all_ids)
        c2 = SamplingContext(
            the_partition=Partition([set(b) for b in part1], full_set=set(all_ids)), sample_sizes=list(k1),
            individuals=ind_df, choice_column='choice', alternatives=alts_df, id_column=R.ID,
            biogeme_file_name=FILE_NAME, utility_function=u2, combined_variables=cv2, **kw2)
        if g:
            install(FreeSeam())
            try:
                ChoiceSetsGeneration(c2).sample_and_merge(recycle=False)
            finally:
                uninstall()
        rec.count('history_operations')

    stage = 'SamplingContext'
    try:
        for op in HISTORIES[hist]['pre']:
            stage = f'history operation {op} (another valid context on the same frames)'
            history_op(op)
        stage = 'SamplingContext'
        kw = {}
        if part2 is not None:
            kw = dict(mev_partition=partition_as(pform, part2, set(a for b in part2 for a in b)),
                      mev_sample_sizes=sizes_as(sform, k2))
        if cnl_obj is not None:
            kw['cnl_nests'] = cnl_obj
        ctx = SamplingContext(
            the_partition=partition_as(pform, part1, all_ids), sample_sizes=sizes_as(sform, k1),
            individuals=ind_df, choice_column='choice', alternatives=alts_df, id_column=R.ID,
            biogeme_file_name=FILE_NAME, utility_function=utility, combined_variables=cvs, **kw)
        stage = 'sample_and_merge'
        gen = ChoiceSetsGeneration(ctx)
        install(seam)
        try:
            database = gen.sample_and_merge(recycle=False)
        finally:
            uninstall()
        recycled = None
        if len(rows) <= 3:
            # the file written next to the table must give the same table back (no sampler call)
            stage = 'sample_and_merge(recycle=True)'
            seam2 = Seam([], by_id)
            install(seam2)
            try:
                recycled = gen.sample_and_merge(recycle=True).data
            finally:
                uninstall()
        for op in HISTORIES[hist]['post']:
            stage = f'history operation {op} (another valid context on the same frames, afterwards)'
            history_op(op)
    except Exception as e:
        uninstall()
        for ri in range(len(rows)):
            rec.case(None, (table_key(t), ri, 'raised', type(e).__name__), outcome=('raised', type(e).__name__, stage))
        report_seam(seam)
        viol(f'valid-configuration-raises-{type(e).__name__}', f'in-{stage.split(" (")[0]}',
             f'{stage} raised {type(e).__name__}: {e} for the valid configuration {ctx_desc}', observed=repr(e))
        _cleanup()
        return
    finally:
        _cleanup()

    data = database.data
    cols = list(data.columns)
    if recycled is not None:
        same = sorted(recycled.columns) == sorted(cols) and len(recycled) == len(data) and seam2.pos == 0
        if same:
            for c_ in cols:
                if not all(R.close(_fnum(x), _fnum(y), rel=1e-13, ab=1e-15) or (_fnum(x) == _fnum(y))
                           for x, y in zip(data[c_].tolist(), recycled[c_].tolist())):
                    same = False
                    break
        rec.case(None, (table_key(t), 'recycle', same), outcome=('recycle', same))
        if not same:
            viol('recycled-table-differs-from-generated-table', 'recycle',
                 f'sample_and_merge(recycle=True) right after the generation returns a different table '
                 f'(columns {sorted(set(cols) ^ set(recycled.columns))} differ, sampler calls {seam2.pos}); {ctx_desc}',
                 expected=cols, observed=list(recycled.columns))

    # ---- sampler requests
    report_seam(seam)
    if seam.pos != len(script):
        viol('sampler-not-asked-as-the-protocol-prescribes', 'count',
             f'the library called DataFrame.sample {seam.pos} times, the protocol needs {len(script)}; {ctx_desc}',
             expected=len(script), observed=seam.pos)

    # ---- shape
    if len(data) != len(rows):
        viol('row-count', 'table', f'{len(data)} generated rows for {len(rows)} individuals; {ctx_desc}',
             expected=len(rows), observed=len(data))
        return
    K1 = sum(k1)
    K2 = sum(k2) if part2 is not None else 0
    pat1 = re.compile(r'^' + re.escape(R.ID) + r'_(\d+)$')
    pat2 = re.compile(r'^_MEV_' + re.escape(R.ID) + r'_(\d+)$')
    n1 = sorted(int(m.group(1)) for m in (pat1.match(c) for c in cols) if m)
    n2 = sorted(int(m.group(1)) for m in (pat2.match(c) for c in cols) if m)

    cvnames = [n for n, _ in R.SPECS[spec]['combined']]
    row_ok = []
    for ri, (r, ind) in enumerate(zip(rows, inds)):
        got = {c: _fnum(v) for c, v in zip(cols, data.iloc[ri].tolist())}
        fails = []

        def bad(clause, witness, msg, expected=None, observed=None):
            fails.append(clause)
            viol(clause, witness, f'{msg}; individual={ind} first answer={r["a1"]}'
                 + (f' second answer={r["a2"]}' if part2 is not None else '') + f'; {ctx_desc}',
                 expected=expected, observed=observed, row=ri)

        c = r['c']
        sc = R.stratum_of(part1, c)
        # individual's own columns survive
        for col in ['choice'] + IND_COLS:
            if got.get(col) is None or got[col] != float(ind[col]):
                bad('individual-column-altered', col, f'column {col} of the individual is {got.get(col)}',
                    expected=ind[col], observed=got.get(col))
        # first sample
        ids1 = [got.get(f'{R.ID}_{i}') for i in range(K1)]
        present = [i for i in n1 if got.get(f'{R.ID}_{i}') is not None and not math.isnan(got[f'{R.ID}_{i}'])]
        if present != list(range(K1)) or any(v is None or math.isnan(v) for v in ids1):
            bad('choice-set-size', f'chosen-stratum-k={"1" if k1[sc] == 1 else ">1"}',
                f'the choice set has positions {present}, the protocol gives {K1} alternatives',
                expected=K1, observed=len(present))
            ids1 = [got.get(f'{R.ID}_{i}') for i in present]
        ids1 = [int(v) if v is not None and not math.isnan(v) and float(v).is_integer() else v for v in ids1]
        unknown = [a for a in ids1 if a not in by_id]
        if unknown:
            bad('unknown-alternative-in-choice-set', 'first', f'ids {unknown} are not alternatives', observed=ids1)
        else:
            if not ids1 or ids1[0] != c:
                bad('chosen-not-first', 'first', f'position 0 holds {ids1[:1]}, chosen is {c}', expected=c, observed=ids1)
            if len(set(ids1)) != len(ids1):
                bad('alternative-twice', 'first', f'choice set {ids1} contains an alternative twice', observed=ids1)
            for s, (b, k) in enumerate(zip(part1, k1)):
                cnt = sum(1 for a in ids1 if a in b)
                if cnt != k:
                    bad('stratum-count', 'stratum-of-chosen' if s == sc else 'other-stratum',
                        f'stratum {b} contributes {cnt} alternatives {[a for a in ids1 if a in b]}, requested {k} '
                        f'(chosen={c})', expected=k, observed=cnt)
            want = sorted([c] + [a for ans in r['a1'] for a in ans])
            if sorted(ids1) != want:
                bad('choice-set-not-chosen-plus-sampled', 'first',
                    f'choice set {ids1} is not the chosen alternative plus what the sampler returned {want}',
                    expected=want, observed=ids1)
            for i, a in enumerate(ids1):
                for col in ATTRS:
                    v = got.get(f'{col}_{i}')
                    if v is None or v != float(by_id[a][col]):
                        bad('attribute-not-own', f'first|{"chosen" if i == 0 else "sampled"}',
                            f'position {i} holds alternative {a} but {col}_{i}={v}', expected=by_id[a][col], observed=v)
                lp = got.get(f'_log_proba_{i}')
                wantlp = R.correction(part1, k1, a)
                if not R.close(lp, wantlp):
                    sa = R.stratum_of(part1, a)
                    bad('correction-not-ln-k-over-n',
                        ('chosen' if i == 0 else 'sampled') + ('|stratum-of-chosen' if sa == sc else '|other-stratum'),
                        f'position {i} alternative {a} (stratum {part1[sa]}, k={k1[sa]}) carries correction {lp}',
                        expected=wantlp, observed=lp)
                cv = R.combined_values(spec, ind, by_id[a])
                for name in cvnames:
                    v = got.get(f'{name}_{i}')
                    if not R.close(v, cv[name]):
                        bad('combined-variable-not-from-own-attributes', f'first|{"chosen" if i == 0 else "sampled"}',
                            f'{name}_{i}={v} for individual {ind} and alternative {by_id[a]}', expected=cv[name], observed=v)
                if cnl_ref is not None:
                    for nm, _, al in cnl_ref:
                        v = got.get(f'_CNL_{nm}_{i}')
                        if v is None or v != float(al.get(a, 0.0)):
                            bad('cnl-alpha-not-own', 'first', f'_CNL_{nm}_{i}={v} for alternative {a}',
                                expected=al.get(a, 0.0), observed=v)
        # second (MEV) sample
        ids2 = []
        if part2 is not None:
            ids2 = [got.get(f'_MEV_{R.ID}_{j}') for j in range(K2)]
            present2 = [j for j in n2 if got.get(f'_MEV_{R.ID}_{j}') is not None and not math.isnan(got[f'_MEV_{R.ID}_{j}'])]
            if present2 != list(range(K2)) or any(v is None or math.isnan(v) for v in ids2):
                bad('mev-sample-size', 'mev', f'the MEV sample has positions {present2}, the protocol gives {K2}',
                    expected=K2, observed=len(present2))
                ids2 = [got.get(f'_MEV_{R.ID}_{j}') for j in present2]
            ids2 = [int(v) if v is not None and not math.isnan(v) and float(v).is_integer() else v for v in ids2]
            members2 = set(a for b in part2 for a in b)
            unknown = [a for a in ids2 if a not in members2]
            if unknown:
                bad('unknown-alternative-in-mev-sample', 'mev', f'ids {unknown} are not MEV alternatives', observed=ids2)
            else:
                if len(set(ids2)) != len(ids2):
                    bad('alternative-twice', 'mev', f'MEV sample {ids2} contains an alternative twice', observed=ids2)
                for s, (b, k) in enumerate(zip(part2, k2)):
                    cnt = sum(1 for a in ids2 if a in b)
                    if cnt != k:
                        bad('stratum-count', 'mev', f'MEV stratum {b} contributes {cnt}, requested {k}',
                            expected=k, observed=cnt)
                want = sorted(a for ans in r['a2'] for a in ans)
                if sorted(ids2) != want:
                    bad('mev-sample-not-what-the-sampler-returned', 'mev', f'MEV sample {ids2} vs sampler {want}',
                        expected=want, observed=ids2)
                for j, a in enumerate(ids2):
                    for col in ATTRS:
                        v = got.get(f'_MEV_{col}_{j}')
                        if v is None or v != float(by_id[a][col]):
                            bad('attribute-not-own', 'mev', f'MEV position {j} holds alternative {a} but _MEV_{col}_{j}={v}',
                                expected=by_id[a][col], observed=v)
                    w = got.get(f'_MEV__mev_weight_{j}')
                    wantw = R.mev_weight(part2, k2, a)
                    if not R.close(w, wantw):
                        bad('mev-weight-not-n-over-k', 'mev', f'MEV position {j} alternative {a} carries weight {w}',
                            expected=wantw, observed=w)
                    cv = R.combined_values(spec, ind, by_id[a])
                    for name in cvnames:
                        v = got.get(f'_MEV_{name}_{j}')
                        if not R.close(v, cv[name]):
                            bad('combined-variable-not-from-own-attributes', 'mev',
                                f'_MEV_{name}_{j}={v} for individual {ind} and alternative {by_id[a]}',
                                expected=cv[name], observed=v)
                    if cnl_ref is not None:
                        for nm, _, al in cnl_ref:
                            v = got.get(f'_MEV__CNL_{nm}_{j}')
                            if v is None or v != float(al.get(a, 0.0)):
                                bad('cnl-alpha-not-own', 'mev', f'_MEV__CNL_{nm}_{j}={v} for alternative {a}',
                                    expected=al.get(a, 0.0), observed=v)
        na1 = R.count_first_answers(part1, k1, c)
        na2 = R.count_second_answers(part2, k2) if part2 is not None else 1
        nontrivial = na1 * na2 > 1 or (full1 and (part2 is None or full2))
        key = (table_key(t), c, repr(r['a1']), repr(r.get('a2')), r['u'] % len(IND_POOL)) if nontrivial else None
        rec.case(key, (table_key(t), ri, ids1, ids2, [got.get(f'_log_proba_{i}') for i in range(K1)]),
                 outcome=(tuple(sorted(set(fails))) or 'ok', len(part1), full1, k1[sc] == 1, part2 is not None and full2, mv)
                 + ((hclass,) if hclass else ()) + ((fclass,) if fclass else ()) + ((lclass,) if lclass else ()))
        row_ok.append(not fails)

    # ---- likelihoods
    if not all(row_ok) or seam.problems:
        rec.count('tables_without_likelihood_check_after_row_violation')
        return
    models = [('logit', None)]
    if part2 is not None and mv == 'N':
        models += [('nested', n) for n in NEST_STRUCTS]
        models += [('nested', f'{sn}/{form}') for sn, form in (t.get('nforms') or [])]
    if part2 is not None and mv in CNL_STRUCTS:
        models += [('cnl', mv)]
    mev_members = set(a for b in part2 for a in b) if part2 is not None else set()
    for kind, struct in models:
        _likelihood(t, rec, viol, ctx, database, kind, struct, rows, inds, by_id, all_ids, full1, full2, mev_members,
                    ctx_desc, cnl_ref)
    # ---- part G: ONE GenerateModel object asked for several models in turn
    for seq, order in (t.get('ghist') or []):
        _generator_history(t, rec, viol, ctx, database, [tuple(o) for o in seq], order, rows, inds, by_id, all_ids, full1,
                           full2, mev_members, ctx_desc, cnl_ref)


def gen_witness(seq, i):
    """coarse class of the position of model #i inside the history of one generator (kinds only)"""
    before = sorted(set(k for k, _ in seq[:i]))
    after = sorted(set(k for k, _ in seq[i + 1:]))
    w = 'one-generator'
    if before:
        w += ':after-' + '+'.join(before)
    if after:
        w += ':before-' + '+'.join(after)
    return w


def _generator_history(t, rec, viol, ctx, database, seq, order, rows, inds, by_id, all_ids, full1, full2, mev_members,
                       ctx_desc, cnl_ref):
    """seq = the model-building calls made, in this order, on ONE GenerateModel object; afterwards every expression obtained
    is evaluated (each in its own BIOGEME object, one after the other, in building order 'fwd' or in reverse 'rev') and must
    satisfy the unchanged oracles: the statement speaks of 'the log likelihood built on the sample', whatever else the same
    generator has been asked for before or after."""
    from biogeme.sampling_of_alternatives import GenerateModel

    J = t['J']
    sdesc = ' -> '.join(k if s_ is None else f'{k}({s_})' for k, s_ in seq)
    built = []
    stage = ['GenerateModel']
    i = 0
    try:
        gm = GenerateModel(ctx)
        for i, (kind, struct) in enumerate(seq):
            built.append(_build_model(gm, kind, struct, J, all_ids, stage))
    except Exception as e:
        kind = seq[i][0]
        gw = gen_witness(seq, i)
        rec.case(None, (table_key(t), 'G', repr(seq), i, 'raised', type(e).__name__),
                 outcome=('ll-raised', kind, type(e).__name__, gw))
        viol(f'likelihood-{kind}-raises-{type(e).__name__}', f'in-{stage[0]}|{gw}',
             f'{stage[0]} raised {type(e).__name__}: {e} for model #{i + 1} of the calls [{sdesc}] made on one GenerateModel '
             f'object, on the table generated for {ctx_desc}', observed=repr(e))
        return
    rec.count('generator_histories')
    idx = list(range(len(seq)))
    if order == 'rev':
        idx.reverse()
    for i in idx:
        kind, struct = seq[i]
        _likelihood(t, rec, viol, ctx, database, kind, struct, rows, inds, by_id, all_ids, full1, full2, mev_members,
                    ctx_desc, cnl_ref, built=built[i], gw=gen_witness(seq, i), gtag=('G', repr(seq), order, i),
                    gdesc=f'; model #{i + 1} of the calls [{sdesc}] made on ONE GenerateModel object (expressions evaluated '
                          f'{"in building order" if order == "fwd" else "in reverse order"} after all calls)')


def _build_model(gm, kind, struct, J, all_ids, stage):
    """One model-building call on the GenerateModel object gm; stage is a 1-element list naming the step reached."""
    sname, _, form = (struct or '').partition('/')
    form = form or 'named'
    nests_ref = None
    if kind == 'logit':
        stage[0] = 'get_logit'
        ll = gm.get_logit()
    elif kind == 'nested':
        nests_ref = nests_for(J, sname)
        stage[0] = f'building the nests ({form})'
        nests = build_nests(form, nests_ref, all_ids)
        stage[0] = 'get_nested_logit'
        ll = gm.get_nested_logit(nests)
    else:
        stage[0] = 'get_cross_nested_logit'
        ll = gm.get_cross_nested_logit()
    return ll, nests_ref


def _likelihood(t, rec, viol, ctx, database, kind, struct, rows, inds, by_id, all_ids, full1, full2, mev_members,
                ctx_desc, cnl_ref, built=None, gw=None, gtag=None, gdesc=''):
    """Builds (fresh GenerateModel) - or takes over (`built` = (expression, nests_ref) from a generator with a history, part G) -
    one model, evaluates it through BIOGEME at the 3 points and compares with the reference."""
    import biogeme.biogeme as bb
    from biogeme.parameters import Parameters
    from biogeme.sampling_of_alternatives import GenerateModel

    J, part1, k1, part2, k2, spec = t['J'], t['part1'], t['k1'], t.get('part2'), t.get('k2'), t['spec']
    nests_ref = None
    sname, _, form = (struct or '').partition('/')
    form = form or 'named'
    fw = '-' if form == 'named' else f'nests-as={form}'
    if gw:
        fw = gw if fw == '-' else f'{fw}|{gw}'
    gtag = tuple(gtag) if gtag else ()
    stage = ['GenerateModel']
    try:
        if built is None:
            gm = GenerateModel(ctx)
            ll, nests_ref = _build_model(gm, kind, struct, J, all_ids, stage)
        else:
            ll, nests_ref = built
        stage[0] = 'BIOGEME'
        b = bb.BIOGEME(database, ll, parameters=Parameters(), generate_html=False, generate_pickle=False,
                       save_iterations=False, number_of_threads=1)
        names = list(b.free_beta_names)
        stage[0] = 'calculate_likelihood'
        vals = []
        for p in POINTS:
            vals.append(float(b.calculate_likelihood([p[n] for n in names], scaled=False)))
    except Exception as e:
        if isinstance(e, RuntimeError):
            rec.retire = True
        stage = stage[0]
        if stage in ('get_logit', 'get_cross_nested_logit'):
            stage = 'GenerateModel'   # (keeps the finding keys of the fresh-generator case as they were)
        rec.case(None, (table_key(t), kind, struct, 'raised', type(e).__name__) + gtag,
                 outcome=('ll-raised', kind, type(e).__name__) + ((gw,) if gw else ()))
        viol(f'likelihood-{kind}-raises-{type(e).__name__}', f'in-{stage}' + ('' if fw == '-' else f'|{fw}'),
             f'{stage} raised {type(e).__name__}: {e} for model {kind}/{struct} on the table generated for {ctx_desc}{gdesc}',
             observed=repr(e))
        return

    # the MEV model on the full choice set is defined when the second sample is complete and covers every nested alternative
    if kind == 'logit':
        full = full1
    elif kind == 'nested':
        need = set(a for _, m in nests_ref for a in m)
        full = full1 and full2 and need <= mev_members
    else:
        need = set(a for _, _, al in cnl_ref for a in al)
        full = full1 and full2 and need <= mev_members
    for pi, (p, val) in enumerate(zip(POINTS, vals)):
        try:
            tot = 0.0
            for r, ind in zip(rows, inds):
                s1 = [r['c']] + [a for ans in r['a1'] for a in ans]
                s2 = [a for ans in r['a2'] for a in ans] if part2 is not None else []
                if kind == 'logit':
                    tot += R.sampled_logit_logprob(spec, p, ind, by_id, part1, k1, s1)
                elif kind == 'nested':
                    tot += R.sampled_nested_logprob(spec, p, ind, by_id, part1, k1, s1, part2, k2, s2, nests_ref)
                else:
                    tot += R.sampled_cnl_logprob(spec, p, ind, by_id, part1, k1, s1, part2, k2, s2, cnl_ref)
        except R.OutOfDomain:
            rec.count('skipped_out_of_domain_empty_nest_sum')
            rec.case(None, (table_key(t), kind, struct, pi, 'ood'), outcome=('ll-out-of-domain', kind))
            continue
        ok = R.close(val, tot)
        okf = True
        totf = None
        if full:
            totf = 0.0
            for ind in inds:
                if kind == 'logit':
                    totf += R.full_logit_logprob(spec, p, ind, by_id, all_ids)
                elif kind == 'nested':
                    totf += R.full_nested_logprob(spec, p, ind, by_id, all_ids, nests_ref)
                else:
                    totf += R.full_cnl_logprob(spec, p, ind, by_id, all_ids, cnl_ref)
            okf = R.close(val, totf)
        rec.case((table_key(t), kind, struct, pi, tuple((r['c'], repr(r['a1']), repr(r.get('a2'))) for r in rows)) + gtag,
                 (table_key(t), kind, struct, pi, round(val, 9)) + gtag,
                 outcome=('ll', kind, full, ok, okf) + ((form,) if form != 'named' else ()) + ((gw,) if gw else ())
                 + ((lab_class(t['lab']),) if t.get('lab') else ()))
        if t.get('lab'):
            rec.count('labeling_likelihood_comparisons')
        if form != 'named':
            rec.count('nest_form_comparisons')
        if gw:
            rec.count('generator_history_comparisons')
        rec.count('likelihood_comparisons')
        if full:
            rec.count('full_sample_equivalences')
        trivial_point = 'all-zero-point' if all(p[n] == 0.0 for n in R.SPECS[spec]['params']) else 'point'
        if kind == 'nested' and t.get('lab') and not all(_single_exact(a) for a in all_ids) and not (ok and okf):
            # open finding C01|engine-value|belongs:set-member-not-representable-in-single-precision (external engine): the
            # nested model tests nest membership with BelongsTo(id, members); observed and counted, not reported again here
            rec.count('observed_nested_mismatch_ids_not_single_precision_exact_engine_finding_C01')
            rec.violation('C19|full-sample-likelihood-differs-from-full-model:nested|identifiers-not-representable-in-single-precision',
                          f'nested model on a sampled table whose alternative identifiers {all_ids} are not exactly representable in '
                          f'single precision: log likelihood {val!r}, the full model gives {totf!r} at {p} (the nest membership test '
                          f'BelongsTo(id, members) of the external engine reads the members in single precision)', dict(t),
                          expected=totf, observed=val)
            continue
        if not okf:
            viol(f'full-sample-likelihood-differs-from-full-model:{kind}', fw,
                 f'every stratum sampled completely, yet the {kind} ({struct}) log likelihood of the generated table is {val!r} and '
                 f'the {kind} model on the full choice set gives {totf!r} at {p}; rows={[(r["c"], r["a1"], r.get("a2")) for r in rows]}; '
                 f'{ctx_desc}{gdesc}', expected=totf, observed=val)
        elif not ok:
            viol(f'sampled-likelihood-differs-from-corrected-model:{kind}',
                 ('mev' if part2 is not None else 'first-only') + ('' if fw == '-' else f'|{fw}'),
                 f'the {kind} ({struct}) log likelihood of the generated table is {val!r}; the model with utilities corrected by '
                 f'-ln(k/n) (and MEV weights n/k) on the same sample gives {tot!r} at {p} ({trivial_point}); '
                 f'rows={[(r["c"], r["a1"], r.get("a2")) for r in rows]}; {ctx_desc}{gdesc}', expected=tot, observed=val)


def _cleanup():
    for fn in (FILE_NAME,):
        try:
            os.remove(fn)
        except OSError:
            pass
    for fn in os.listdir('.'):
        if fn.startswith('__') or fn.endswith('.iter') or fn.endswith('.html') or fn.endswith('.pickle') or fn == 'biogeme.toml':
            try:
                os.remove(fn)
            except OSError:
                pass


# ----------------------------------------------------------------------------- enumeration of contexts
PAIR_CAP = 48


def pair_answers(firsts, a2s):
    """firsts: every (chosen, first answer) of the context; a2s: every answer of the second sampler (or None).
    All pairs when few, otherwise a diagonal pairing covering every (chosen, first answer) and every second
    answer at least once."""
    if a2s is None:
        return [(c, a, None) for c, a in firsts]
    if len(firsts) * len(a2s) <= PAIR_CAP:
        return [(c, a, b) for c, a in firsts for b in a2s]
    n = max(len(firsts), len(a2s))
    return [firsts[i % len(firsts)] + (a2s[i % len(a2s)],) for i in range(n)]


def n_pairs(n1, n2):
    if n2 is None:
        return n1
    return n1 * n2 if n1 * n2 <= PAIR_CAP else max(n1, n2)


def ctx_rows(ctx):
    """Number of generated rows of a context (restricted to ctx['choices'])."""
    n2 = R.count_second_answers(ctx['part2'], ctx['k2']) if ctx.get('part2') is not None else None
    n1 = sum(R.count_first_answers(ctx['part1'], ctx['k1'], c) for c in ctx['choices'])
    return n_pairs(n1, n2)


def contexts(tier):
    out = []
    # ---- part A
    for J in ([4, 5] if tier == 'quick' else [4, 5, 6]):
        ids = IDS[:J]
        parts = R.set_partitions(ids, 3)
        for pi, part in enumerate(parts):
            # the order of strata matters for the layout: also the reversed order for every other partition
            variants = [part] if (pi % 2 == 0 or len(part) == 1) else [part, part[::-1]]
            for pv in variants:
                for k in R.size_vectors(pv):
                    specs = SPEC_NAMES if J == 4 else [SPEC_NAMES[(pi + sum(k)) % 3]]
                    for sp in specs:
                        out.append(dict(part='A', J=J, part1=pv, k1=k, part2=None, k2=None, spec=sp, mv=None))
    # ---- part B
    for J in ([4] if tier == 'quick' else [4, 5]):
        ids = IDS[:J]
        firsts = [[ids], [ids[:2], ids[2:]], [[ids[1]], [ids[0]] + ids[3:], [ids[2]]]]
        for f_i, p1 in enumerate(firsts):
            kvs = []
            cands = ([len(b) for b in p1], [1] * len(p1), [(len(b) + 1) // 2 for b in p1])
            if tier == 'quick' and f_i == 2:
                continue  # three first strata together with a MEV sample: thorough tier only
            if tier == 'quick' or J > 4:
                cands = (cands[0], cands[1]) if f_i == 1 else (cands[0],)
            for kv in cands:
                if kv not in kvs:
                    kvs.append(kv)
            for k1 in kvs:
                seconds = R.set_partitions(ids, 2 if (tier == 'quick' or J > 4) else 3)
                # MEV partitions that do not cover the full choice set (legal: only the nested alternatives)
                seconds += [[[ids[0], ids[2]]], [[ids[0]], [ids[1], ids[2]]]]
                for s_i, p2 in enumerate(seconds):
                    for k2 in R.size_vectors(p2):
                        full = all(k == len(b) for k, b in zip(k1, p1)) and all(k == len(b) for k, b in zip(k2, p2))
                        mvs = ['N', 'C0', 'C1'] if full else [['N', 'C0', 'C1'][(f_i + s_i + sum(k2)) % 3]]
                        for mv in mvs:
                            sp = SPEC_NAMES[(f_i + s_i + sum(k1) + sum(k2) + len(mv)) % 3]
                            out.append(dict(part='B', J=J, part1=p1, k1=k1, part2=p2, k2=k2, spec=sp, mv=mv))
    return out


def contexts_L(tier):
    """part L: the contexts re-run under every labeling of the alternatives (identifiers 0 / negative / beyond int32)."""
    out = []
    for J in ([4] if tier == 'quick' else [4, 5]):
        for li, lab in enumerate(labelings(J)):
            with use_labeling(lab):
                ids = IDS[:J]
                # first sample only: every partition into <= 3 strata x every size vector (x every choice x every answer)
                for pi, part in enumerate(R.set_partitions(ids, 3)):
                    # (the order of the strata is a dimension of part A; here the reversed order in the thorough tier only)
                    variants = [part] if (tier == 'quick' or J > 4 or pi % 2 == 0 or len(part) == 1) else [part, part[::-1]]
                    for pv in variants:
                        for k in R.size_vectors(pv):
                            specs = SPEC_NAMES if (tier != 'quick' and J == 4) else [SPEC_NAMES[(pi + sum(k) + li) % 3]]
                            for sp in specs:
                                out.append(dict(part='L', lab=lab, J=J, part1=pv, k1=k, part2=None, k2=None, spec=sp, mv=None,
                                                choices=list(ids)))
                # with a second (MEV) sample: one first stratum, every MEV partition into <= 2 strata (and the two that do not
                # cover the table), both samples complete (thorough: every MEV size vector), nested / cross-nested rotating
                p1 = [ids]
                k1 = [J]
                seconds = R.set_partitions(ids, 2) + [[[ids[0], ids[2]]], [[ids[0]], [ids[1], ids[2]]]]
                for s_i, p2 in enumerate(seconds):
                    for k2 in ([[len(b) for b in p2]] if (tier == 'quick' or J > 4) else R.size_vectors(p2)):
                        mv = ['N', 'C0', 'C1'][(s_i + li + sum(k2)) % 3]
                        sp = SPEC_NAMES[(s_i + li + sum(k2) + len(mv)) % 3]
                        out.append(dict(part='L', lab=lab, J=J, part1=p1, k1=k1, part2=p2, k2=k2, spec=sp, mv=mv,
                                        choices=list(ids)))
    return out


ROWS_PER_TASK = 260


def tasks(tier, seed):
    ctxs = contexts(tier) + contexts_L(tier)
    out = []
    cur, cur_rows = [], 0
    for n, c in enumerate(ctxs):
        ids = c.get('choices') or IDS[:c['J']]
        c = dict(c, n=n, choices=list(ids))
        rows = ctx_rows(c)
        if rows > ROWS_PER_TASK:
            # split by chosen alternative
            for ch in ids:
                cc = dict(c, choices=[ch])
                out.append(dict(part='ctx', tier=tier, ctxs=[cc], rows=ctx_rows(cc)))
            continue
        # contexts with a MEV sample carry the additional models of part F and most histories of part H: smaller chunks
        limit = ROWS_PER_TASK if c.get('part2') is None else ROWS_PER_TASK // 2
        if cur_rows + rows > limit and cur:
            out.append(dict(part='ctx', tier=tier, ctxs=cur, rows=cur_rows))
            cur, cur_rows = [], 0
        cur.append(c)
        cur_rows += rows
    if cur:
        out.append(dict(part='ctx', tier=tier, ctxs=cur, rows=cur_rows))
    # part V: size validation
    J = 4
    vcases = []
    for part in R.set_partitions(IDS[:J], 3):
        for s in range(len(part)):
            for kbad in (0, len(part[s]) + 1):
                k = [1] * len(part)
                k[s] = kbad
                vcases.append(dict(J=J, part1=part, k1=k))
    # observations only (outside the statement's domain, counted, never a violation): a 'partition' that does not cover
    # the table of alternatives, and fewer sizes than strata
    ids = IDS[:J]
    vcases.append(dict(J=J, part1=[ids[:2]], k1=[2], observe='partition-not-covering-the-alternatives'))
    vcases.append(dict(J=J, part1=[ids[:2], ids[2:]], k1=[2], observe='fewer-sizes-than-strata'))
    vcases.append(dict(J=J, part1=[ids[:2], ids[2:]], k1=[1, 1], part2=[ids[:2], [ids[2]]], k2=[1, 1],
                       observe='numpy-array-as-sample-sizes'))
    out.append(dict(part='V', cases=vcases))
    # part P: lists of segments that are NOT partitions (two segments share an alternative, or one segment is listed twice)
    for Jp, nseg in ([(4, 3)] if tier == 'quick' else [(4, 4), (5, 3)]):
        subs = R_nonempty_subsets(IDS[:Jp])
        step = 5 if tier == 'quick' else (1 if nseg == 4 else 4)
        for i in range(0, len(subs), step):
            out.append(dict(part='P', J=Jp, nseg=nseg, firsts=subs[i:i + step]))
    # part D: malformed inputs that the library may ACCEPT - an alternative table with one id on two rows, fewer / more sizes
    # than strata, strata that do not cover the table: refused, or the well-defined clauses of the statement hold
    for Jd in ([3] if tier == 'quick' else [3, 4]):
        dcases = malformed_cases(Jd)
        step = 40 if Jd == 3 else 30
        for i in range(0, len(dcases), step):
            out.append(dict(part='D', cases=dcases[i:i + step]))
    # simplest first, but the heavy ones must not all sit at the end: keep order (contexts are simplest first)
    return out


def tables_of(ctx, tier):
    """Splits the rows of a context into generated tables: sizes 1, 3, then T."""
    J = ctx['J']
    T = 16 if tier == 'quick' else 24
    rows = []
    u = ctx.get('n', 0)
    a2s = R.second_answers(ctx['part2'], ctx['k2']) if ctx.get('part2') is not None else None
    firsts = [(c, a1) for c in ctx['choices'] for a1 in R.first_answers(ctx['part1'], ctx['k1'], c)]
    for c, a1, a2 in pair_answers(firsts, a2s):
        rows.append(dict(c=c, a1=a1, a2=a2, u=u))
        u += 1
    sizes = [1, 3]
    if ctx.get('lab'):
        sizes, T = [3], 2 * T   # part L: the 3-row table (also recycled) and large tables
    i = 0
    ti = 0
    out = []
    while i < len(rows):
        sz = sizes[ti] if ti < len(sizes) else T
        chunk = rows[i:i + sz]
        out.append(dict(J=J, part1=ctx['part1'], k1=ctx['k1'], part2=ctx.get('part2'), k2=ctx.get('k2'),
                        spec=ctx['spec'], mv=ctx.get('mv'), idx=(ti + ctx.get('n', 0)) % 2, rows=chunk))
        if ctx.get('lab'):
            out[-1]['lab'] = ctx['lab']
        i += sz
        ti += 1
    if ctx.get('lab'):
        # part L: the plain tables under another labeling; the nest forms / histories / hand-over forms of parts F, G, H, S are
        # explored under the seed's identifiers only
        return out
    n = ctx.get('n', 0)
    full = (all(k == len(b) for k, b in zip(ctx['k1'], ctx['part1']))
            and (ctx.get('part2') is None or all(k == len(b) for k, b in zip(ctx['k2'], ctx['part2']))))
    # ---- part F: the same tables, the nests handed over in every form (more models on the table, no new generation)
    if ctx.get('mv') == 'N' and ctx.get('part2') is not None:
        for ti, t in enumerate(out):
            if (full and (tier != 'quick' or ti < 2)) or (tier != 'quick' and ti < 2):
                t['nforms'] = [list(p) for p in FORM_PAIRS]
            else:
                m = 3 if tier == 'quick' else 6
                t['nforms'] = [list(FORM_PAIRS[(m * (ti + n) + j) % len(FORM_PAIRS)]) for j in range(m)]
    # ---- part G: on the 3-row (or only) table, ONE GenerateModel object is asked for several models in turn (no new generation)
    ops = gen_ops(ctx)
    pairs = [[a, b] for a in ops for b in ops]
    triples = [[a, b, c] for a in ops for b in ops for c in ops]
    gt = out[:2][-1]
    if ctx.get('part2') is None:
        # logit is the only model of a context without a second sample: the same call twice (thorough: three times)
        if tier == 'quick':
            seqs = pairs if (full or n % 4 == 0) else []
        else:
            seqs = (pairs if (full or n % 2 == 0) else []) + (triples if (full and n % 2 == 0) else [])
    elif tier == 'quick':
        if full and (ctx.get('mv') == 'N' or n % 2 == 0):
            seqs = pairs
        else:
            seqs = [pairs[(2 * n + j) % len(pairs)] for j in range(2 if full else 1)]
    else:
        if full:
            seqs = pairs + (triples if n % 16 == 0 else [triples[(2 * n + j) % len(triples)] for j in range(2)])
        else:
            seqs = [pairs[n % len(pairs)], triples[n % len(triples)]]
    if seqs:
        gt['ghist'] = [[q, 'fwd' if (qi + n) % 2 == 0 else 'rev'] for qi, q in enumerate(seqs)]
    # ---- part H: additional tables = the first tables again, generated after / before other contexts on the same frames
    base = out[:2]
    cnl = ctx.get('mv') in CNL_STRUCTS
    if tier == 'quick':
        if full and cnl:
            plan = [(b, h) for b in base[-1:] for h in HIST_NAMES]
        else:
            plan = [(base[-1], HIST_NAMES[n % len(HIST_NAMES)])]
    else:
        if full:
            plan = [(b, h) for b in base for h in HIST_NAMES]
        else:
            plan = [(base[-1], HIST_NAMES[(3 * n + j) % len(HIST_NAMES)]) for j in range(3)]
    for b, h in plan:
        out.append(dict({k: v for k, v in b.items() if k not in ('nforms', 'ghist')}, hist=h))
    # ---- part S: additional tables = the 3-row (or only) table again, the same sizes / partition handed over in another form
    nf = len(FORM_COMBOS)
    if tier == 'quick':
        combos = FORM_COMBOS if (full and ctx.get('part2') is not None and n % 6 == 0) else [FORM_COMBOS[n % nf]]
    else:
        combos = (FORM_COMBOS if (full and n % 3 == 0)
                  else [FORM_COMBOS[(2 * n + j) % nf] for j in range(2)])
    for sf, pf in combos:
        out.append(dict({k: v for k, v in base[-1].items() if k not in ('nforms', 'ghist')}, sform=sf, pform=pf))
    return out


def gen_ops(ctx):
    """alphabet of the model-building calls that are valid on a GenerateModel object of this context (part G)"""
    if ctx.get('part2') is None:
        return [['logit', None]]
    if ctx.get('mv') in CNL_STRUCTS:
        return [['logit', None], ['cnl', ctx['mv']], ['nested', 'N0']]
    return [['logit', None], ['nested', 'N0'], ['nested', 'N1'], ['nested', 'N2']]


FORM_PAIRS = ([(sn, f) for f in NEST_FORMS for sn in ('N0', 'N3', 'N4')]
              + [('N3', 'named'), ('N4', 'named'), ('N1', 'tuple'), ('N1', 'same'), ('N2', 'list'), ('N2', 'auto')])


def run_task(task):
    rec = Rec()
    try:
        if task['part'] == 'ctx':
            first = True
            for ctx in task['ctxs']:
                for t in tables_of(ctx, task.get('tier', 'quick')):
                    run_table(t, rec)
                    rec.count('generated_tables')
                    if t.get('lab'):
                        rec.count('generated_tables_under_another_labeling')
                    if first and len(t['rows']) > 1:
                        rec.sample(dict(J=t['J'], partition=t['part1'], sizes=t['k1'], mev_partition=t['part2'],
                                        mev_sizes=t['k2'], spec=t['spec'], mv=t['mv'],
                                        rows=[(r['c'], r['a1'], r['a2']) for r in t['rows'][:3]]))
                        first = False
        elif task['part'] == 'V':
            for case in task['cases']:
                _validation_case(case, rec)
        elif task['part'] == 'D':
            for case in task['cases']:
                _malformed_case(case, rec)
        elif task['part'] == 'P':
            for first in task['firsts']:
                for segs in non_partitions(task['J'], task['nseg'], first):
                    for full in (True, False):
                        _non_partition_case(dict(part='P', J=task['J'], segs=segs, full=full), rec)
    finally:
        uninstall()
        _cleanup()
    return rec.result()


def _validation_case(case, rec):
    import pandas as pd
    from biogeme.partition import Partition
    from biogeme.sampling_of_alternatives import SamplingContext
    from biogeme.exceptions import BiogemeError

    J = case['J']
    alts = alt_table(J)
    alts_df = pd.DataFrame({c: [a[c] for a in alts] for c in [R.ID] + ATTRS})
    ind = individual(J, 0, IDS[0])
    ind_df = pd.DataFrame({c: [ind[c]] for c in ['choice'] + IND_COLS})
    utility, cvs = build_spec('S0')
    outcome = 'accepted'
    kw = {}
    k1 = list(case['k1'])
    if case.get('observe') == 'numpy-array-as-sample-sizes':
        import numpy as np
        k1 = np.array(k1)
        kw = dict(mev_partition=Partition([set(b) for b in case['part2']], full_set=set(a for b in case['part2'] for a in b)),
                  mev_sample_sizes=np.array(case['k2']))
    try:
        SamplingContext(the_partition=Partition([set(b) for b in case['part1']], full_set=set(a for b in case['part1'] for a in b)),
                        sample_sizes=k1, **kw, individuals=ind_df, choice_column='choice', alternatives=alts_df,
                        id_column=R.ID, biogeme_file_name=FILE_NAME, utility_function=utility, combined_variables=cvs)
    except BiogemeError:
        outcome = 'BiogemeError'
    except Exception as e:
        outcome = type(e).__name__
    if case.get('observe'):
        rec.case(None, (case['observe'], outcome), outcome=('V-observation', case['observe'], outcome))
        rec.count(f'observed_{case["observe"]}_{outcome}')
        return
    kind = 'zero' if 0 in case['k1'] else 'larger-than-stratum'
    rec.case(('V', repr(case['part1']), tuple(case['k1'])), (case['part1'], case['k1'], outcome), outcome=('V', kind, outcome))
    if outcome != 'BiogemeError':
        rec.violation(f'C19|impossible-sample-size-not-refused|{kind}',
                      f'sample sizes {case["k1"]} for strata {case["part1"]} ({kind}) were {outcome} instead of refused '
                      f'with BiogemeError', dict(part='V', **case), expected='BiogemeError', observed=outcome)


def R_nonempty_subsets(ids):
    """every non-empty subset of ids, as a list in the order of ids; smallest first"""
    import itertools
    return [list(c) for r in range(1, len(ids) + 1) for c in itertools.combinations(ids, r)]


def non_partitions(J, nseg, first):
    """every ordered list of 2..nseg non-empty subsets of the first J ids that starts with `first` and in which at least
    two segments (at different positions) share an alternative - equal segments included"""
    import itertools
    subs = R_nonempty_subsets(IDS[:J])
    out = []
    for n in range(2, nseg + 1):
        for rest in itertools.product(subs, repeat=n - 1):
            segs = [first] + [list(x) for x in rest]
            if any(set(a) & set(b) for a, b in itertools.combinations(segs, 2)):
                out.append(segs)
    return out


class PolicySeam:
    """Sampler used only when a non-partition has been ACCEPTED (never on a tree where all of them are refused): answers a
    request for n rows with the first n rows ('first') or the last n rows ('last') of the frame."""

    def __init__(self, policy):
        self.policy = policy
        self.pos = 0

    def __call__(self, df, n=None, frac=None, replace=False, weights=None, random_state=None, axis=None,
                 ignore_index=False):
        self.pos += 1
        k = max(0, min(int(n), len(df)))
        rows = list(range(k)) if self.policy == 'first' else list(range(len(df) - k, len(df)))
        out = df.iloc[rows].copy()
        if ignore_index:
            out = out.reset_index(drop=True)
        return out


def _non_partition_case(case, rec):
    """A list of segments in which two segments share an alternative is not a partition.  Oracle (the statement only): it is
    refused - or, if the library accepts it, no generated choice set / MEV sample contains an alternative twice."""
    import itertools
    import pandas as pd
    from biogeme.partition import Partition
    from biogeme.sampling_of_alternatives import SamplingContext, ChoiceSetsGeneration

    J, segs, full = case['J'], case['segs'], case['full']
    ids = IDS[:J]
    union = sorted(set(a for b in segs for a in b))
    twice = any(set(a) == set(b) for a, b in itertools.combinations(segs, 2))
    cls = 'one-segment-listed-twice' if twice else 'two-segments-share-an-alternative'
    key = ('P', J, repr(segs), full)

    def make():
        return Partition([set(b) for b in segs], full_set=set(ids)) if full else Partition([set(b) for b in segs])

    try:
        make()
    except Exception as e:
        rec.case(key, (J, segs, full, 'refused', type(e).__name__), outcome=('P', cls, len(segs), 'refused-by-Partition',
                                                                             type(e).__name__))
        return
    rec.count('non_partitions_accepted_by_Partition')
    alts = alt_table(J)
    utility, cvs = build_spec('S0')
    outcomes = []
    reported = set()
    for role, kname, (u, chosen) in itertools.product(('first', 'mev'), ('one', 'all'), list(enumerate(ids))):
        # one individual per generated table: choice sets of unequal length cannot share a table
        ks = [1 if kname == 'one' else len(b) for b in segs]
        ind = individual(J, u, chosen)
        alts_df = pd.DataFrame({c: [a[c] for a in alts] for c in [R.ID] + ATTRS})
        ind_df = pd.DataFrame({c: [ind[c]] for c in ['choice'] + IND_COLS})
        try:
            if role == 'first':
                kw = dict(the_partition=make(), sample_sizes=list(ks))
            else:
                kw = dict(the_partition=Partition([set(ids)], full_set=set(ids)), sample_sizes=[J],
                          mev_partition=make(), mev_sample_sizes=list(ks))
            ctx = SamplingContext(individuals=ind_df, choice_column='choice', alternatives=alts_df, id_column=R.ID,
                                  biogeme_file_name=FILE_NAME, utility_function=utility, combined_variables=cvs, **kw)
        except Exception as e:
            outcomes.append((role, kname, chosen, type(e).__name__, 'refused-by-SamplingContext'))
            continue
        for policy in ('first', 'last'):
            install(PolicySeam(policy))
            try:
                data = ChoiceSetsGeneration(ctx).sample_and_merge(recycle=False).data
            except Exception as e:
                outcomes.append((role, kname, chosen, policy, type(e).__name__, 'generation-raises'))
                rec.count('non_partition_accepted_generation_raises')
                continue
            finally:
                uninstall()
                _cleanup()
            pat = re.compile(r'^' + ('_MEV_' if role == 'mev' else '') + re.escape(R.ID) + r'_(\d+)$')
            got = [_fnum(data[c].iloc[0]) for c in data.columns if pat.match(c)]
            got = [int(v) for v in got if v is not None and not math.isnan(v)]
            dup = len(set(got)) != len(got)
            outcomes.append((role, kname, chosen, policy, 'alternative-twice' if dup else 'no-duplicate'))
            if dup and role not in reported:
                reported.add(role)
                rec.violation(
                    f'C19|non-partition-accepted-and-alternative-twice|{cls}|{role}',
                    f'the segments {segs} (full set {"given: " + str(ids) if full else "left to the default"}) are not a '
                    f'partition ({cls}) but were accepted; with sizes {ks} as the {role} partition the '
                    f'{"choice set" if role == "first" else "MEV sample"} generated for the individual choosing '
                    f'{chosen} is {got} (sampler answering with the {policy} n rows)',
                    dict(case), expected='refused, or no alternative twice', observed=got)
    rec.case(key, (J, segs, full, outcomes), outcome=('P', cls, len(segs), 'accepted', tuple(sorted(set(o[-1] for o in outcomes)))))


def malformed_cases(J):
    """part D: every (kind of malformation, partition into <= 2 (J = 3: <= 3) strata, size vector, role first / MEV)"""
    ids = IDS[:J]
    out = []
    for part in R.set_partitions(ids, 3 if J == 3 else 2):
        for ks in R.size_vectors(part):
            for role in ('first', 'mev'):
                for d in range(J):
                    for where in ('end', 'next'):
                        out.append(dict(part='D', kind='duplicated-id', J=J, segs=part, ks=ks, role=role, dup=d, where=where))
                out.append(dict(part='D', kind='more-sizes-than-strata', J=J, segs=part, ks=ks + [1], role=role))
                if len(part) > 1:
                    out.append(dict(part='D', kind='fewer-sizes-than-strata', J=J, segs=part, ks=ks[:-1], role=role))
                    out.append(dict(part='D', kind='strata-not-covering-the-table', J=J, segs=part[:-1], ks=ks[:-1], role=role))
    return out


class OdoSeam:
    """Owned sampler of part D: the i-th request of one generation is answered with the prefix[i]-th combination of n rows of
    the frame it was asked on (0 beyond the prefix); the trace lets the caller step through EVERY answer (odometer)."""

    def __init__(self, prefix):
        self.prefix = list(prefix)
        self.trace = []
        self.pos = 0

    def __call__(self, df, n=None, frac=None, replace=False, weights=None, random_state=None, axis=None,
                 ignore_index=False):
        import itertools
        self.pos += 1
        k = int(n)
        if k < 0 or k > len(df):
            raise ValueError(f'Cannot take a larger sample than population when replace=False (n={n}, rows={len(df)})')
        opts = list(itertools.combinations(range(len(df)), k))
        i = len(self.trace)
        c = self.prefix[i] if i < len(self.prefix) else 0
        self.trace.append((c, len(opts)))
        out = df.iloc[list(opts[c])].copy()
        if ignore_index:
            out = out.reset_index(drop=True)
        return out


def _malformed_case(case, rec):
    """Inputs outside the domain of the statement that the library may nevertheless accept.  Oracle (nothing beyond the
    statement): the input is refused (any exception, at any stage) - or every generated choice set / MEV sample still lists
    the chosen alternative first, contains no alternative twice, and gives every alternative of a stratum that HAS a requested
    size the count k and the correction ln(k/n) (weight n/k).  EVERY answer of the sampler is enumerated."""
    import pandas as pd
    from biogeme.partition import Partition
    from biogeme.sampling_of_alternatives import SamplingContext, ChoiceSetsGeneration

    kind, J, segs, ks, role = case['kind'], case['J'], case['segs'], case['ks'], case['role']
    ids = IDS[:J]
    alts = alt_table(J)
    if kind == 'duplicated-id':
        extra = dict(alts[case['dup']])
        extra['cost'] = extra['cost'] + 0.5   # another row under the same id
        at = len(alts) if case['where'] == 'end' else case['dup'] + 1
        alts = alts[:at] + [extra] + alts[at:]
    sized = list(zip(segs, ks))   # what zip() pairs: the strata that have a requested size
    utility, cvs = build_spec('S0')
    key = ('D', kind, J, repr(segs), tuple(ks), role, case.get('dup'), case.get('where'))
    outcomes = []
    reported = set()
    gens = 0
    for u, chosen in enumerate(ids):
        ind = individual(J, u, chosen)
        alts_df = pd.DataFrame({c: [a[c] for a in alts] for c in [R.ID] + ATTRS})
        ind_df = pd.DataFrame({c: [ind[c]] for c in ['choice'] + IND_COLS})
        try:
            the = Partition([set(b) for b in segs], full_set=set(a for b in segs for a in b))
            if role == 'first':
                kw = dict(the_partition=the, sample_sizes=list(ks))
            else:
                kw = dict(the_partition=Partition([set(ids)], full_set=set(ids)), sample_sizes=[1],
                          mev_partition=the, mev_sample_sizes=list(ks))
            ctx = SamplingContext(individuals=ind_df, choice_column='choice', alternatives=alts_df, id_column=R.ID,
                                  biogeme_file_name=FILE_NAME, utility_function=utility, combined_variables=cvs, **kw)
        except Exception as e:
            outcomes.append((chosen, 'refused-at-construction', type(e).__name__))
            continue
        prefix = []
        while True:
            seam = OdoSeam(prefix)
            install(seam)
            data = None
            try:
                data = ChoiceSetsGeneration(ctx).sample_and_merge(recycle=False).data
            except Exception as e:
                outcomes.append((chosen, 'refused-at-generation', type(e).__name__))
            finally:
                uninstall()
                _cleanup()
            gens += 1
            if data is not None:
                pre = '_MEV_' if role == 'mev' else ''
                pat = re.compile(r'^' + pre + re.escape(R.ID) + r'_(\d+)$')
                pos = sorted(int(pat.match(c).group(1)) for c in data.columns if pat.match(c))
                got = [_fnum(data[f'{pre}{R.ID}_{i}'].iloc[0]) for i in pos]
                bad = []
                if any(v is None or math.isnan(v) for v in got):
                    bad.append(('alternative-missing', got))
                got = [int(v) for v in got if v is not None and not math.isnan(v)]
                if len(set(got)) != len(got):
                    bad.append(('alternative-twice', got))
                if role == 'first' and (not got or got[0] != chosen):
                    bad.append(('chosen-not-first', got))
                for b, k in sized:
                    members = [i for i, a in zip(pos, got) if a in b]
                    if kind != 'duplicated-id' and len(members) != k:
                        bad.append(('stratum-count', dict(stratum=b, requested=k, got=got)))
                    for i in members:
                        col = f'_MEV__mev_weight_{i}' if role == 'mev' else f'_log_proba_{i}'
                        v = _fnum(data[col].iloc[0]) if col in data.columns else None
                        want = len(b) / k if role == 'mev' else math.log(k / len(b))
                        if not R.close(v, want):
                            bad.append(('correction-not-ln-k-over-n' if role == 'first' else 'mev-weight-not-n-over-k',
                                        dict(position=i, stratum=b, k=k, expected=want, observed=v)))
                outcomes.append((chosen, 'generated', tuple(sorted(set(c for c, _ in bad))) or 'clauses-hold'))
                for clause, obs in bad:
                    if clause in reported:
                        continue
                    reported.add(clause)
                    rec.violation(
                        f'C19|{kind}-accepted-and-{clause}|' + ('id-on-two-rows' if kind == 'duplicated-id' else role),
                        f'malformed input ({kind}) was accepted: alternative ids {[a[R.ID] for a in alts]}, strata {segs} with sizes '
                        f'{ks} as the {role} partition, individual choosing {chosen}; sampler answers (index of the combination of '
                        f'rows per request) {[c for c, _ in seam.trace]}: the generated '
                        f'{"choice set" if role == "first" else "MEV sample"} is {got} - {clause}: {obs}',
                        dict(case, chosen=chosen, answer=[c for c, _ in seam.trace]),
                        expected='refused, or the clauses of the statement hold', observed=obs)
            trace = list(seam.trace)
            while trace and trace[-1][0] + 1 >= trace[-1][1]:
                trace.pop()
            if not trace or gens > 4000:
                if trace:
                    rec.count('capped')
                break
            prefix = [c for c, _ in trace[:-1]] + [trace[-1][0] + 1]
    rec.count('malformed_input_generations', gens)
    summary = tuple(sorted(set(repr(o[1:]) for o in outcomes)))
    rec.case(key, (key, tuple(outcomes)), outcome=('D', kind, role, summary))


def replay(case):
    rec = Rec()
    try:
        if case.get('part') == 'P':
            _non_partition_case(case, rec)
        elif case.get('part') == 'D':
            _malformed_case({k: v for k, v in case.items() if k not in ('chosen', 'answer')}, rec)
        elif case.get('part') == 'V':
            _validation_case(case, rec)
        else:
            t = {k: v for k, v in case.items() if k != 'focus_row'}
            run_table(t, rec)
    finally:
        uninstall()
        _cleanup()
    return rec.violations
