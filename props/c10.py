"""C10 — simulated and numerical integrals equal the average / integral they denote.

Exhaustive enumeration on the real Database / engine of integrands x numbers of draws R x numbers of
observations N x 1-3 draw variables of different types in ONE formula (names chosen so that sorted
order, order of appearance and order of type names all differ) with deterministic user generators
(each a distinct arithmetic pattern, logging what it produced), plus the native types under non-zero
seeds (reproducibility across two fresh processes); Integrate against closed forms / an independent
quadrature; Derive against hyper-dual derivatives.  Histories on one live model (log likelihood + simulated
formula, each a Monte-Carlo integral over its own draw variables, N != R and N == R): every sequence up to the
depth bound of Database.remove (first / last observation), Database.scale_column, Database.add_column, another
Monte-Carlo formula evaluated alone with R + 1 draws, a second live model with R + 1 draws on the same database,
and the observations simulate / calculate_likelihood / calculate_likelihood_and_derivatives, each compared with
the mean over the model's own R draws for the observations currently in the table.  One name of draws declared
with two types (all ordered pairs of user-defined and native Halton types x 6 entry modes): refused, or each
integral is the mean over the series of its own declared type.
"""
from __future__ import annotations

import itertools
import json
import math
import os

from vf import refsem as R
from vf.rec import Rec

ID = 'C10'
LEVEL = 'exploration'
TECHNIQUE = 'bounded exhaustive enumeration of integrands x R x N x draw-variable sets x generators on the real engine, and of edit/use histories on one live model, vs a plain-Python mean over the logged draw series; closed forms for Integrate; hyper-dual derivatives for Derive'
RULE = ('one case = one (integrand, draw-variable set, R, N, parameter point) Monte-Carlo evaluation, one (native type, seed) reproducibility run, '
        'one (integrand, parameter) integral, one (formula, name) derivative, or one history (sequence of table edits through the Database interface, '
        'other evaluations on the same database and uses of one live model, every use checked), or one (ordered pair of types under one draw name, entry mode, N, R). Non-trivial = the formula contains at least one draw variable / the '
        'random variable / depends on the derived name / the history holds at least one operation that is not an observation; distinct = distinct tuples.')
ASSUMPTIONS = [
    'Integrate is compared with closed forms / an independent Simpson quadrature at tolerance 1e-6 (smooth, normally decaying integrands only)',
    'native draw types are compared through the draw table the database exposes (theDraws): the value must be the mean over exactly those numbers',
]
ANCHOR_FILES = ['src/biogeme/database.py', 'src/biogeme/native_draws.py', 'src/biogeme/expressions/idmanager.py',
                'src/biogeme/expressions/elementary_expressions.py', 'src/biogeme/expressions/unary_expressions.py',
                'src/biogeme/expressions/calculator.py', 'src/biogeme/biogeme.py']

_SEED = int(os.environ.get('VERIF_SEED', '0') or 0)
DATA = [
    dict(x1=[1.0, 2.0, 0.5], x2=[-1.0, 0.5, 2.0], k=[0, 1, 2]),
    dict(x1=[0.5, 1.5, 2.5], x2=[1.0, -0.5, 0.25], k=[2, 0, 1]),
][_SEED % 2]
# rows 3 and 4 and the row identifier 'rid' are used by the table-edit histories only (part 'edit')
for _c, _more in (dict(x1=[4.0, 0.25], x2=[1.5, -2.0], k=[1, 0]), dict(x1=[0.75, 3.0], x2=[-1.5, 2.0], k=[0, 2]))[_SEED % 2].items():
    DATA[_c] = DATA[_c] + _more
DATA['rid'] = [0, 1, 2, 3, 4]
COLS = ['x2', 'k', 'x1']
EDIT_COLS = ['x2', 'rid', 'k', 'x1']
PARAMS = [dict(b1=0.5, b2=-0.75, s=0.25), dict(b1=-0.25, b2=0.5, s=1.0)]
if (_SEED // 2) % 2:
    PARAMS = [dict(b1=1.0, b2=0.25, s=-0.5), dict(b1=0.75, b2=-1.25, s=0.125)]

# draw variables: appearance order z, a, M; sorted-name order M, a, z; type-name order M(DET_C), z(Uniform), a(normal_halton2)
# two of the user-defined type names differ from a native name only by case (legal: the reserved names are exact)
DRAWS = {'z_first': 'Uniform', 'a_second': 'normal_halton2', 'M_third': 'DET_C'}
PATTERN = {
    'DET_C': lambda n, r: float(2 * n - r + 1),   # integer-valued: this generator returns an int64 array (see make_db)
    'Uniform': lambda n, r: -0.2 * (n + 1) + 0.03 * (r + 1) * (r + 1),
    'normal_halton2': lambda n, r: 0.05 * (n + 2) * (r + 1) - 0.3,
}


def B(n):
    return ('beta', n)


def V(n):
    return ('var', n)


def D(n):
    return ('draw', n, DRAWS[n])


def integrands(names):
    """Integrand pool over the given draw variables (in this order of appearance)."""
    lin = B('b1')
    for i, nm in enumerate(names):
        coef = [B('s'), V('x1'), ('num', 0.5)][i % 3]
        lin = ('+', lin, ('*', coef, D(nm)))
    out = {
        'linear': lin,
        'exp': ('exp', ('*', ('num', 0.5), lin)),
        'product': ('*', ('+', ('num', 1.0), ('*', V('x2'), D(names[0]))), ('exp', ('*', B('b2'), D(names[-1])))),
        'logit': ('logit', ('num', 1), ((1, lin, None), (2, ('*', B('b2'), V('x2')), None))),
        'elem': ('elem', V('k'), ((0, D(names[0])), (1, ('*', D(names[-1]), D(names[-1]))), (2, lin))),
    }
    return out


def draw_sets():
    names = list(DRAWS)
    out = []
    for n in (1, 2, 3):
        for combo in itertools.permutations(names, n):
            out.append(list(combo))
    return out


def close(a, b, rel=1e-10):
    return a == b or abs(a - b) <= 1e-13 + rel * max(abs(a), abs(b))


def make_db(nobs, log, cols=None):
    import numpy as np
    from vf.engine import make_db as mk

    cols = cols or COLS
    rows = [{c: float(DATA[c][i]) for c in cols} for i in range(nobs)]
    db = mk(rows, cols)

    def gen(typ, shift=0.0):
        def g(n, r_):
            arr = np.array([[PATTERN[typ](i, r) + shift for r in range(r_)] for i in range(n)], dtype=float)
            if typ == 'DET_C' and shift == 0.0:
                arr = arr.astype(np.int64)      # a generator of integer draws (counts, 0/1 switches) is legal
            if shift == 0.0:
                log.append((typ, n, r_))
            return arr
        return g

    # the types are first registered with other generators, then registered again: the latest registration counts
    db.set_random_number_generators({t: (gen(t, shift=100.0), f'superseded {t}') for t in PATTERN})
    db.set_random_number_generators({t: (gen(t), f'deterministic {t}') for t in PATTERN})
    return db, rows


def tasks(tier, seed):
    t = []
    Rs = (1, 2, 3) if tier == 'quick' else (1, 2, 3, 4)
    for ds in draw_sets():
        for nobs in (1, 2, 3):
            t.append(dict(part='mc', draws=ds, nobs=nobs, Rs=list(Rs)))
    # every native type: same seed, two fresh processes (reproducibility); quick: the second seed (sensitivity) and the
    # simulation-only mode for every third type, thorough: for all
    subset = NATIVE_TYPES if tier == 'thorough' else NATIVE_TYPES[::3]
    for typ in NATIVE_TYPES:
        for sd in (1, 2):
            # mode 'll': the formula is the log likelihood of the model; mode 'sim': a dictionary of formulas for simulation
            # only (no log likelihood in it), evaluated by BIOGEME.simulate
            for mode in ('ll', 'sim'):
                if typ not in subset and (sd != 1 or mode != 'll'):
                    continue
                if mode == 'sim' and tier == 'quick' and (sd != 1 or 'HALTON' in typ):
                    continue
                if sd == 2 and tier == 'quick':
                    t.append(dict(part='seeded', typ=typ, seed=sd, run=0, fresh=True, mode=mode))   # sensitivity needs one run
                    continue
                t.append(dict(part='seeded', typ=typ, seed=sd, run=0, fresh=True, mode=mode))
                t.append(dict(part='seeded', typ=typ, seed=sd, run=1, fresh=True, mode=mode))
    for i, pair in enumerate(itertools.permutations(list(DRAWS), 2)):
        t.append(dict(part='sidebyside', pair=list(pair)))
    # the same seeded model with several pseudo-random draw variables, in interpreter processes that differ in their string
    # hashing (PYTHONHASHSEED): reproducible means reproducible from one process to the next
    for hs in ((0, 1, 2, 3) if tier == 'quick' else (0, 1, 2, 3, 4, 5, 6, 7)):
        for sd in (1, 2):
            t.append(dict(part='seeded_hash', hashseed=hs, seed=sd))
    t.append(dict(part='native_table', tier=tier))
    pairs = [list(c) for c in itertools.permutations(list(DRAWS), 2)]
    for i, first in enumerate(pairs):
        t.append(dict(part='reuse', first=first, tier=tier))
    t.append(dict(part='refusals'))
    t.append(dict(part='integrate', tier=tier))
    t.append(dict(part='derive'))
    t.extend(edit_tasks(tier))
    types = TWO_TYPES if tier == 'quick' else TWO_TYPES + [x for x in NATIVE_TYPES if 'HALTON' in x and x not in TWO_TYPES]
    for ta, tb in itertools.permutations(types, 2):
        t.append(dict(part='twotypes', types=[ta, tb]))
    return t


# ONE name of draws declared with TWO types (user-defined and deterministic native types): the library may refuse; if it
# answers, every integral is the mean over the series of the type ITS OWN draw variable declares
TWO_TYPES = ['Uniform', 'normal_halton2', 'DET_C', 'UNIFORM_HALTON2', 'NORMAL_HALTON2', 'UNIFORMSYM_HALTON3']


# ---- histories on ONE live model object while the table is edited through the Database interface -------------------------
# operations: rm0 / rmL = Database.remove of the first / last remaining observation, scale = Database.scale_column on a column
# the integrands read, addcol = Database.add_column, alone = another Monte-Carlo formula (other draw variables, R + 1 draws)
# evaluated on its own on the same database; observations: sim = BIOGEME.simulate (all formulas), ll = calculate_likelihood,
# lld = calculate_likelihood_and_derivatives (value)
# other = a SECOND live model on the same database (another formula, R + 1 draws), built at its first use, simulated at each
EDIT_OPS = ['rm0', 'rmL', 'scale', 'addcol', 'alone', 'other']
EDIT_OPS_REDUCED = ['rm0', 'rmL', 'scale']
EDIT_LAYOUTS = {
    # draw variables of the log likelihood / of the simulated formula / of the formula evaluated alone
    'A': dict(ll=['a_second'], v=['z_first', 'M_third'], vkind='linear', alone=['M_third', 'a_second']),
    'B': dict(ll=['M_third', 'z_first'], v=['a_second'], vkind='product', alone=['z_first']),
}


def edit_tasks(tier):
    # (layout, N, R, operations, observations, depth); every history ends with an observation, every observation met on the
    # way is checked, so depth d subsumes the shorter histories
    obs2, obs3 = ['sim', 'll'], ['sim', 'll', 'lld']
    deep = [('A', 4, 2)] if tier == 'quick' else [('A', 4, 2), ('B', 5, 3), ('A', 3, 3), ('B', 2, 3), ('A', 5, 2), ('B', 3, 1)]
    cfgs = [(lay, n, r, EDIT_OPS, obs2 if tier == 'quick' else obs3, 4) for lay, n, r in deep]
    if tier == 'quick':
        grid = [('B', 5, 3), ('A', 3, 3), ('B', 2, 3), ('A', 5, 2), ('B', 3, 1), ('A', 2, 4)]
    else:
        grid = [(lay, n, r) for n in (2, 3, 4, 5) for r in (1, 2, 3, 4) for lay in 'AB']
    cfgs += [(lay, n, r, EDIT_OPS, obs3, 3) for lay, n, r in grid if (lay, n, r) not in deep]
    # longer histories over the operations that change the content of the table
    if tier == 'quick':
        cfgs.append(('B', 4, 2, EDIT_OPS_REDUCED, obs2, 4))
    else:
        cfgs += [('B', 4, 2, EDIT_OPS_REDUCED, obs2, 5), ('A', 5, 2, EDIT_OPS_REDUCED, obs2, 5), ('B', 5, 3, EDIT_OPS_REDUCED, obs2, 6)]
    t = []
    for lay, n, r, ops, obs, depth in cfgs:
        prefixes = list(itertools.product(ops + obs, repeat=max(1, depth - (2 if len(ops + obs) >= 7 else 3))))

        def first_checked_edit(pf):      # simplest first: the chunks whose prefix already holds an edit followed by an observation
            return min([j for j in range(1, len(pf)) if pf[j] in obs and any(o in ops for o in pf[:j])] or [len(pf)])

        for prefix in sorted(prefixes, key=first_checked_edit):
            t.append(dict(part='edit', layout=lay, nobs=n, R=r, ops=list(ops), obs=list(obs), depth=depth, prefix=list(prefix)))
    return t


NATIVE_TYPES = ['UNIFORM', 'UNIFORM_ANTI', 'UNIFORM_HALTON2', 'UNIFORM_HALTON3', 'UNIFORM_HALTON5', 'UNIFORM_MLHS',
                'UNIFORM_MLHS_ANTI', 'UNIFORMSYM', 'UNIFORMSYM_ANTI', 'UNIFORMSYM_HALTON2', 'UNIFORMSYM_HALTON3',
                'UNIFORMSYM_HALTON5', 'UNIFORMSYM_MLHS', 'UNIFORMSYM_MLHS_ANTI', 'NORMAL', 'NORMAL_ANTI', 'NORMAL_HALTON2',
                'NORMAL_HALTON3', 'NORMAL_HALTON5', 'NORMAL_MLHS', 'NORMAL_MLHS_ANTI']


def run_task(task):
    rec = Rec()
    part = task['part']
    if part == 'mc':
        _mc(task, rec)
    elif part == 'seeded':
        _seeded(task, rec)
    elif part == 'sidebyside':
        _sidebyside(task, rec)
    elif part == 'seeded_hash':
        _seeded_hash(task, rec)
    elif part == 'native_table':
        _native_table(task, rec)
    elif part == 'reuse':
        _reuse(task, rec)
    elif part == 'refusals':
        _refusals(rec)
    elif part == 'integrate':
        _integrate(task, rec)
    elif part == 'derive':
        _derive(rec)
    elif part == 'edit':
        _edit(task, rec)
    elif part == 'twotypes':
        _twotypes(task, rec)
    return rec.result()


def _mc(task, rec):
    ds, nobs = task['draws'], task['nobs']
    spec = {nm: (v, None, None, 0) for nm, v in PARAMS[0].items()}
    pool = integrands(ds)
    rec.sample(dict(part='mc', draws=ds, types=[DRAWS[d] for d in ds], nobs=nobs, integrands=list(pool)))
    for fname, integrand in pool.items():
        used = R.leaves(integrand, 'draw')
        formula = ('mc', integrand)
        for Rn in task['Rs']:
            for pi, p in enumerate(PARAMS):
                log = []
                db, rows = make_db(nobs, log)
                case = dict(part='mc', draws=ds, nobs=nobs, Rs=[Rn], formula=fname, point=pi)

                def bad(clause, what):
                    rec.violation(f'C10|{clause}|mc:{fname}:nvars={len(used)}', what + f' [draws={ds} N={nobs} R={Rn} point={pi}]', case)

                try:
                    expr = R.Builder(spec).build(formula)
                    got = [float(v) for v in expr.get_value_c(database=db, betas=dict(p), number_of_draws=Rn, prepare_ids=True)]
                    table = db.theDraws
                except Exception as e:
                    rec.case(('mc', tuple(ds), nobs, fname, Rn, pi), ('raised', type(e).__name__), outcome='raised')
                    bad(f'raised-{type(e).__name__}', str(e)[:200])
                    rec.retire = True
                    return
                want = []
                for n_, row in enumerate(rows):
                    series = {nm: [PATTERN[DRAWS[nm]](n_, r) for r in range(Rn)] for nm in used}
                    want.append(R.evaluate(formula, row=row, params=p, draws=series))
                rec.case(('mc', tuple(ds), nobs, fname, Rn, pi), (ds, nobs, fname, Rn, pi, [round(v, 10) for v in got]),
                         outcome=('mc', len(used)))
                if len(got) != nobs or any(not close(g, w) for g, w in zip(got, want)):
                    bad('monte-carlo-value-not-mean-over-own-series', f'{fname}: {got} expected {want}')
                # the draw table: [obs, draw, variable], variable k = series of the k-th sorted name
                snames = sorted(used)
                if tuple(table.shape) != (nobs, Rn, len(snames)):
                    bad('draw-table-shape', f'{table.shape} expected {(nobs, Rn, len(snames))}')
                else:
                    for k_, nm in enumerate(snames):
                        exp_ = [[PATTERN[DRAWS[nm]](n_, r) for r in range(Rn)] for n_ in range(nobs)]
                        gotk = [[float(table[n_, r, k_]) for r in range(Rn)] for n_ in range(nobs)]
                        if gotk != exp_:
                            bad('draw-table-variable-order', f'slot {k_} (name {nm}) holds {gotk} expected series of its own type {DRAWS[nm]}')
                            break
                called = sorted(t for t, _, _ in log)
                if called != sorted(DRAWS[nm] for nm in used) or any((n2, r2) != (nobs, Rn) for _, n2, r2 in log):
                    bad('generators-called', f'generator calls {log} for variables {used}')
                # the same formula through a BIOGEME object (its own draw generation and hand-over to the engine)
                if Rn == task['Rs'][-1]:
                    from vf.engine import make_biogeme
                    try:
                        db2, _ = make_db(nobs, [])
                        bs = make_biogeme(db2, {'v': R.Builder(spec).build(formula)}, number_of_draws=Rn)
                        sim = [float(v) for v in bs.simulate({nm: p[nm] for nm in bs.free_beta_names})['v']]
                        db3, _ = make_db(nobs, [])
                        import numpy as np
                        bl = make_biogeme(db3, R.Builder(spec).build(('+', formula, ('num', 0.0))), number_of_draws=Rn)
                        ll = float(bl.calculate_likelihood(np.array([p[nm] for nm in bl.free_beta_names], dtype=float), scaled=False))
                    except Exception as e:
                        bad(f'raised-{type(e).__name__}', 'BIOGEME path: ' + str(e)[:200])
                        rec.retire = True
                        return
                    rec.case(('mc-biogeme', tuple(ds), nobs, fname, Rn, pi), (ds, nobs, fname, Rn, pi, [round(v, 10) for v in sim]),
                             outcome=('mc-biogeme', len(used)))
                    if len(sim) != nobs or any(not close(g, w) for g, w in zip(sim, want)):
                        bad('monte-carlo-value-not-mean-over-own-series:BIOGEME.simulate', f'{fname}: {sim} expected {want}')
                    if not close(ll, sum(want), 1e-9):
                        bad('monte-carlo-value-not-mean-over-own-series:BIOGEME.calculate_likelihood', f'{fname}: {ll} expected {sum(want)}')


def _reuse(task, rec):
    """Histories on ONE database object: formulas with different sets of draw variables (same and different numbers of
    variables, same and different R) are evaluated one after the other through the expression-level entry point; each
    value must be the mean over the series of its OWN variables, whatever was evaluated before."""
    spec = {nm: (v, None, None, 0) for nm, v in PARAMS[0].items()}
    names = list(DRAWS)
    sets2 = [list(c) for c in itertools.permutations(names, 2)]
    others = sets2 + [[n] for n in names] + ([list(c) for c in itertools.permutations(names, 3)][:2])
    p = PARAMS[1]
    nobs = 2
    depth3 = sets2 if task['tier'] == 'thorough' else sets2[::2]
    for second in others:
        for third in depth3:
            for Rs in ((2, 2, 2), (2, 3, 2)):
                log = []
                db, rows = make_db(nobs, log)
                seq = [task['first'], second, third]
                for step, (ds, Rn) in enumerate(zip(seq, Rs)):
                    integrand = integrands(ds)['linear' if step != 1 else 'exp']
                    formula = ('mc', integrand)
                    used = R.leaves(integrand, 'draw')
                    case = dict(part='reuse', first=task['first'], tier=task['tier'])
                    try:
                        got = [float(v) for v in R.Builder(spec).build(formula).get_value_c(database=db, betas=dict(p), number_of_draws=Rn,
                                                                                             prepare_ids=True)]
                    except Exception as e:
                        rec.violation(f'C10|raised-{type(e).__name__}|history-on-one-database', f'sequence {seq} R={Rs} step {step}: {str(e)[:200]}', case)
                        rec.retire = True
                        return
                    want = []
                    for n_, row in enumerate(rows):
                        series = {nm: [PATTERN[DRAWS[nm]](n_, r) for r in range(Rn)] for nm in used}
                        want.append(R.evaluate(formula, row=row, params=p, draws=series))
                    rec.case(('reuse', tuple(map(tuple, seq)), Rs, step), (seq, Rs, step, [round(v, 10) for v in got]), outcome=('reuse', step))
                    if any(not close(g, w) for g, w in zip(got, want)):
                        rec.violation(f'C10|monte-carlo-value-depends-on-earlier-evaluations|step={step}',
                                      f'on one database, sequence of draw sets {seq} with R={Rs}: step {step} gave {got}, expected {want}', case,
                                      expected=want, observed=got)
                        break
    rec.sample(dict(part='reuse', first=task['first']))


MULTI_TYPES = {'q_u': 'UNIFORM', 'a_n': 'NORMAL', 'm_s': 'UNIFORMSYM', 'z_a': 'NORMAL_ANTI'}


def seeded_multi(sd):
    """The value of a seeded Monte-Carlo model with four pseudo-random draw variables (run inside a child interpreter)."""
    from vf.engine import make_biogeme
    db, rows = make_db(3, [])
    spec = {nm: (v, None, None, 0) for nm, v in PARAMS[0].items()}
    lin = B('b1')
    for i, (nm, typ) in enumerate(MULTI_TYPES.items()):
        lin = ('+', lin, ('*', ('num', 0.25 * (i + 1)), ('draw', nm, typ)))
    b = make_biogeme(db, {'v': R.Builder(spec).build(('mc', ('exp', ('*', ('num', 0.5), lin))))}, number_of_draws=6, seed=sd)
    out = b.simulate({nm: PARAMS[0][nm] for nm in b.free_beta_names})
    return [float(v) for v in out['v']]


def _seeded_hash(task, rec):
    import subprocess
    import sys
    env = dict(os.environ, PYTHONHASHSEED=str(task['hashseed']))
    code = ('import json, sys; sys.path.insert(0, %r); import props.c10 as c; '
            'print("RESULT" + json.dumps(c.seeded_multi(%d)))' % (os.path.dirname(os.path.dirname(os.path.abspath(__file__))), task['seed']))
    p = subprocess.run([sys.executable, '-c', code], env=env, capture_output=True, text=True, timeout=600)
    line = [ln for ln in p.stdout.splitlines() if ln.startswith('RESULT')]
    if p.returncode != 0 or not line:
        rec.violation('C10|raised|seeded-model-with-several-draw-variables', f'child interpreter failed: {p.stderr[-300:]}', dict(task))
        return
    values = json.loads(line[0][len('RESULT'):])
    rec.case(('seeded_hash', task['hashseed'], task['seed']), None, outcome='seeded-hash')
    rec.extra = dict(kind='seeded_hash', hashseed=task['hashseed'], seed=task['seed'], values=values)


def _sidebyside(task, rec):
    """Two Monte-Carlo formulas, each over its own draw variable, side by side in one BIOGEME object.  Histories: before
    simulate(), any sequence (length 0..2) of the formulas is evaluated alone through the expression-level entry point
    (which numbers the formula on its own and then restores the model's numbering); simulate() must still give, for each
    formula, the mean over the series of its OWN variable; a formula evaluated alone afterwards as well."""
    from vf.engine import make_biogeme
    a, b_ = task['pair']
    spec = {nm: (v, None, None, 0) for nm, v in PARAMS[0].items()}
    p = PARAMS[0]
    nobs, Rn = 2, 3
    names = {'f_a': a, 'f_b': b_}
    seqs = [[]] + [[k] for k in names] + [list(q) for q in itertools.permutations(names, 2)] + [[k, k] for k in names]
    for kind in ('linear', 'exp'):
        for seq in seqs:
            for own_db in (False, True):
                db, rows = make_db(nobs, [])
                forms = {k: ('mc', integrands([nm])[kind]) for k, nm in names.items()}
                exprs = {k: R.Builder(spec).build(f) for k, f in forms.items()}
                case = dict(part='sidebyside', pair=task['pair'])
                want = {}
                for k, nm in names.items():
                    want[k] = [R.evaluate(forms[k], row=row, params=p, draws={nm: [PATTERN[DRAWS[nm]](n_, r) for r in range(Rn)]})
                               for n_, row in enumerate(rows)]
                key = ('sidebyside', a, b_, kind, tuple(seq), own_db)
                try:
                    bs = make_biogeme(db, dict(exprs), number_of_draws=Rn)
                    for k in seq:
                        dbk = make_db(nobs, [])[0] if own_db else db
                        alone = [float(v) for v in exprs[k].get_value_c(database=dbk, betas=dict(p), number_of_draws=Rn, prepare_ids=True)]
                        if any(not close(g, w) for g, w in zip(alone, want[k])):
                            rec.violation('C10|monte-carlo-value-not-mean-over-own-series|formula-of-a-model-evaluated-alone',
                                          f'{k} over {names[k]} alone (history {seq}): {alone} expected {want[k]}', case)
                    sim = bs.simulate({nm: p[nm] for nm in bs.free_beta_names})
                    got = {k: [float(v) for v in sim[k]] for k in names}
                except Exception as e:
                    rec.case(key, ('raised', type(e).__name__), outcome='raised')
                    rec.violation(f'C10|raised-{type(e).__name__}|side-by-side', f'{names} {kind} history {seq}: {str(e)[:200]}', case)
                    rec.retire = True
                    return
                rec.case(key, (a, b_, kind, seq, own_db, [round(v, 10) for v in got['f_a'] + got['f_b']]), outcome=('sidebyside', len(seq)))
                for k in names:
                    if any(not close(g, w) for g, w in zip(got[k], want[k])):
                        rec.violation('C10|monte-carlo-value-not-mean-over-own-series|side-by-side-after-alone-evaluations',
                                      f'simulate after evaluating {seq} alone ({"another" if own_db else "the same"} database): {k} over '
                                      f'{names[k]} = {got[k]}, expected {want[k]}', case, expected=want[k], observed=got[k])
                        break
    rec.sample(dict(part='sidebyside', pair=task['pair']))


def _seeded_result(task):
    rec = Rec()
    _seeded(task, rec)
    return dict(violations=rec.violations, extra=rec.extra)


def _seeded(task, rec):
    """Value of a Monte-Carlo formula with a native type under a non-zero seed (fresh process each).
    The native generator is wrapped by a recorder: the value must be the mean over one of the series the
    generator actually produced (the library regenerates the table more than once while it sets a model up)."""
    import numpy as np
    import biogeme.database as bdb
    from vf.engine import make_biogeme
    typ, sd = task['typ'], task['seed']
    log = []
    db, rows = make_db(3, log)
    spec = {nm: (v, None, None, 0) for nm, v in PARAMS[0].items()}
    integrand = ('exp', ('*', B('s'), ('draw', 'xi', typ)))
    formula = ('log', ('mc', integrand))
    produced = []
    orig = bdb.native_random_number_generators[typ]

    def recorder(n, r_):
        arr = orig.generator(n, r_)
        produced.append([[float(v) for v in row] for row in arr])
        return arr

    bdb.native_random_number_generators[typ] = orig._replace(generator=recorder)
    try:
        expr = R.Builder(spec).build(formula)
        if task.get('mode', 'll') == 'll':
            b = make_biogeme(db, expr, number_of_draws=6, seed=sd)
            x = np.array([PARAMS[0][nm] for nm in b.free_beta_names], dtype=float)
            ll = float(b.calculate_likelihood(x, scaled=False))
        else:
            b = make_biogeme(db, {'integral': expr, 'other': R.Builder(spec).build(('*', V('x1'), B('s')))}, number_of_draws=6, seed=sd)
            out = b.simulate({nm: PARAMS[0][nm] for nm in b.free_beta_names})
            ll = float(sum(float(v) for v in out['integral']))
    finally:
        bdb.native_random_number_generators[typ] = orig
    wants = [sum(math.log(sum(math.exp(PARAMS[0]['s'] * d) for d in series) / len(series)) for series in table)
             for table in produced]
    rec.case(('seeded', typ, sd, task['run'], task.get('mode', 'll')), None, outcome=('seeded', task.get('mode', 'll')))  # digest deliberately excludes the numbers
    if not any(close(ll, w, 1e-9) for w in wants):
        rec.violation(f'C10|monte-carlo-value-not-mean-over-any-produced-series|native:{typ}',
                      f'mode {task.get("mode", "ll")}: total={ll!r} but the series produced by the generator give {wants}', dict(task))
    rec.extra = dict(typ=typ, seed=sd, run=task['run'], ll=ll, table=produced, mode=task.get('mode', 'll'))
    rec.sample(dict(part='seeded', typ=typ, seed=sd, ll=ll, tables_produced=len(produced)))


def finalize(agg, tier, seed):
    byseed = {}
    for task, extra in agg.extras:
        if extra and extra.get('kind') == 'seeded_hash':
            byseed.setdefault(extra['seed'], []).append(extra)
    for sd, lst in sorted(byseed.items()):
        agg.counts['seed_reproducibility_across_hash_seeds'] += len(lst)
        ref = lst[0]
        for other in lst[1:]:
            if other['values'] != ref['values']:
                agg.violations.append(dict(key='C10|same-seed-different-results|several-pseudo-random-draw-variables:across-interpreter-hash-seeds',
                                           what=f"seed {sd}: PYTHONHASHSEED={ref['hashseed']} gives {ref['values']}, "
                                                f"PYTHONHASHSEED={other['hashseed']} gives {other['values']}",
                                           case=dict(part='seeded_hash', seed=sd, hashseeds=[ref['hashseed'], other['hashseed']])))
                break
    if len(byseed) >= 2:
        vals = [lst[0]['values'] for _, lst in sorted(byseed.items())]
        if vals[0] == vals[1]:
            agg.violations.append(dict(key='C10|different-seeds-same-draws|several-pseudo-random-draw-variables',
                                       what='seeds 1 and 2 give identical values', case=dict(part='seeded_hash', seed=1, hashseeds=[0, 0])))
    runs = {}
    for task, extra in agg.extras:
        if extra and 'typ' in extra:
            runs.setdefault((extra['typ'], extra['seed'], extra.get('mode', 'll')), []).append(extra)
    for (typ, sd, mode), lst in sorted(runs.items()):
        if len(lst) == 2:
            agg.counts['seed_reproducibility_pairs'] += 1
            if lst[0]['ll'] != lst[1]['ll'] or lst[0]['table'] != lst[1]['table']:
                agg.violations.append(dict(key=f'C10|same-seed-different-results|native:{typ}' + ('' if mode == 'll' else '|simulation-only-formulas'),
                                           what=f'seed {sd}, mode {mode}: two fresh processes gave {lst[0]["ll"]} and {lst[1]["ll"]}',
                                           case=dict(part='seeded', typ=typ, seed=sd, run=0, mode=mode)))
    for typ in {k[0] for k in runs}:
        a, b = runs.get((typ, 1, 'll')), runs.get((typ, 2, 'll'))
        if a and b and 'HALTON' not in typ:
            agg.counts['seed_sensitivity_pairs'] += 1
            if a[0]['table'] == b[0]['table']:
                agg.violations.append(dict(key=f'C10|different-seeds-same-draws|native:{typ}',
                                           what=f'seeds 1 and 2 produced identical draw tables for {typ}',
                                           case=dict(part='seeded', typ=typ, seed=1, run=0)))


def _native_table(task, rec):
    """For every native type: the MonteCarlo value is the mean over exactly the numbers in the exposed draw table,
    with two variables of different native types in one formula."""
    import numpy as np
    spec = {nm: (v, None, None, 0) for nm, v in PARAMS[0].items()}
    types = NATIVE_TYPES
    pairs = [(types[i], types[(i + 5) % len(types)]) for i in range(len(types))]
    for ta, tb in pairs:
        for Rn in (2, 4):
            np.random.seed(12345)
            log = []
            db, rows = make_db(3, log)
            # names: 'zz' appears first and sorts last
            integrand = ('+', ('*', B('s'), ('draw', 'zz', ta)), ('*', V('x1'), ('*', ('draw', 'Aa', tb), ('draw', 'Aa', tb))))
            formula = ('mc', integrand)
            case = dict(part='native_table', tier=task['tier'])
            try:
                expr = R.Builder(spec).build(formula)
                got = [float(v) for v in expr.get_value_c(database=db, betas=dict(PARAMS[1]), number_of_draws=Rn, prepare_ids=True)]
                table = db.theDraws
            except Exception as e:
                rec.violation(f'C10|raised-{type(e).__name__}|native:{ta}+{tb}', str(e)[:200], case)
                rec.retire = True
                return
            names = sorted(['zz', 'Aa'])
            want = []
            for n_, row in enumerate(rows):
                series = {nm: [float(table[n_, r, names.index(nm)]) for r in range(Rn)] for nm in names}
                want.append(R.evaluate(formula, row=row, params=PARAMS[1], draws=series))
            rec.case(('native', ta, tb, Rn), None, outcome=('native', Rn))
            if any(not close(g, w, 1e-9) for g, w in zip(got, want)):
                rec.violation(f'C10|monte-carlo-value-not-mean-over-draw-table|native-pair',
                              f'types zz:{ta}, Aa:{tb}, R={Rn}: {got} expected {want}', case)
            # each slot must look like its own type: symmetric/uniform supports differ from normal ones only statistically;
            # what is decidable exactly: the uniform types stay inside their advertised support
            for nm, typ in (('zz', ta), ('Aa', tb)):
                col = [float(table[n_, r, names.index(nm)]) for n_ in range(3) for r in range(Rn)]
                if typ.startswith('UNIFORMSYM') and not all(-1.0 <= v <= 1.0 for v in col):
                    rec.violation('C10|draw-table-variable-order|native-support', f'{nm}:{typ} outside [-1,1]: {col}', case)
                elif typ.startswith('UNIFORM') and not typ.startswith('UNIFORMSYM') and not all(0.0 <= v <= 1.0 for v in col):
                    rec.violation('C10|draw-table-variable-order|native-support', f'{nm}:{typ} outside [0,1]: {col}', case)


def on_abort(task, info):
    """The refusal cases hand the engine formulas it is expected to refuse; the pre-built engine occasionally takes the whole
    process down instead of raising: no number was returned; counted, not a violation.  Elsewhere a dying worker is a
    harness error."""
    if isinstance(task, dict) and task.get('part') == 'refusals':
        return {}
    return None


def _refusals(rec):
    from biogeme.exceptions import BiogemeError
    import numpy as np
    spec = {nm: (v, None, None, 0) for nm, v in PARAMS[0].items()}
    log = []
    db, rows = make_db(2, log)
    # unknown type
    try:
        expr = R.Builder(spec).build(('mc', ('draw', 'xi', 'NO_SUCH_TYPE')))
        expr.get_value_c(database=db, number_of_draws=2, prepare_ids=True)
        rec.case(('refusal', 'unknown'), 'accepted', outcome='accepted')
        rec.violation('C10|unknown-draw-type-accepted|NO_SUCH_TYPE', 'a draw of unknown type was evaluated', dict(part='refusals'))
    except BiogemeError:
        rec.case(('refusal', 'unknown'), 'refused', outcome='refused')
    except Exception as e:
        rec.case(('refusal', 'unknown'), type(e).__name__, outcome='other')
        rec.violation(f'C10|unknown-draw-type-wrong-error-{type(e).__name__}|NO_SUCH_TYPE', str(e)[:200], dict(part='refusals'))
    # reserved names
    for typ in NATIVE_TYPES:
        try:
            db.set_random_number_generators({typ: (lambda n, r: np.zeros((n, r)), 'clash')})
            rec.case(('refusal', typ), 'accepted', outcome='accepted')
            rec.violation('C10|reserved-generator-name-accepted|native-name', f'user generator named {typ} accepted', dict(part='refusals'))
        except (ValueError, BiogemeError):
            rec.case(('refusal', typ), 'refused', outcome='refused')
    # wrong shape from a user generator
    db2, _ = make_db(2, [])
    db2.set_random_number_generators({'BADSHAPE': (lambda n, r: np.zeros((r, n + 1)), 'bad')})
    try:
        expr = R.Builder(spec).build(('mc', ('draw', 'xi', 'BADSHAPE')))
        expr.get_value_c(database=db2, number_of_draws=3, prepare_ids=True)
        rec.violation('C10|wrong-shape-generator-accepted|BADSHAPE', 'generator returning the wrong shape accepted', dict(part='refusals'))
    except BiogemeError:
        rec.case(('refusal', 'shape'), 'refused', outcome='refused')


def _phi(t):
    return ('*', ('num', 1.0 / math.sqrt(2.0 * math.pi)), ('exp', ('*', ('num', -0.5), ('**', t, ('num', 2.0)))))


def integrals():
    om = ('rv', 'omega')
    return {
        # name: (integrand term, closed form as a function of params/row or None -> independent quadrature)
        'gauss-mass': (_phi(om), lambda p, row: 1.0),
        'gauss-second-moment': (('*', ('**', om, ('num', 2.0)), _phi(om)), lambda p, row: 1.0),
        'gauss-mgf': (('*', ('exp', ('*', B('b1'), om)), _phi(om)), lambda p, row: math.exp(p['b1'] ** 2 / 2.0)),
        'gauss-shifted': (('*', ('**', ('+', om, V('x1')), ('num', 2.0)), _phi(om)), lambda p, row: 1.0 + row['x1'] ** 2),
        'logistic-mixture': (('*', ('logit', ('num', 1), ((1, ('+', B('b1'), ('*', B('s'), om)), None), (2, ('*', B('b2'), V('x2')), None))),
                              _phi(om)), None),
        'scaled-gauss': (('*', ('exp', ('*', ('num', -0.5), ('**', ('/', om, V('x1')), ('num', 2.0)))), ('num', 1.0)),
                         lambda p, row: math.sqrt(2.0 * math.pi) * abs(row['x1'])),
        # the derivative operator inside the integral, with respect to every kind of name the integrand contains: the first
        # parameter of the numbering (b1), another parameter (s), a data variable (x1); with c = 0.1 x1 b1 the integral of
        # s exp(c omega) phi(omega) is s exp(c^2 / 2)
        'derive-in-integral:first-parameter': (('*', ('derive', _mgf(), 'b1'), _phi(om)),
                                               lambda p, row: p['s'] * (0.1 * row['x1']) ** 2 * p['b1'] * math.exp((0.1 * row['x1'] * p['b1']) ** 2 / 2.0)),
        'derive-in-integral:other-parameter': (('*', ('derive', _mgf(), 's'), _phi(om)),
                                               lambda p, row: math.exp((0.1 * row['x1'] * p['b1']) ** 2 / 2.0)),
        'derive-in-integral:variable': (('*', ('derive', _mgf(), 'x1'), _phi(om)),
                                        lambda p, row: p['s'] * (0.1 * p['b1']) ** 2 * row['x1'] * math.exp((0.1 * row['x1'] * p['b1']) ** 2 / 2.0)),
    }


def _mgf():
    return ('*', B('s'), ('exp', ('*', ('*', ('*', B('b1'), ('rv', 'omega')), ('num', 0.1)), V('x1'))))


def _integrate(task, rec):
    spec = {nm: (v, None, None, 0) for nm, v in PARAMS[0].items()}
    db, rows = make_db(3, [])
    for name, (integrand, closed) in integrals().items():
        formula = ('integrate', integrand, 'omega')
        for pi, p in enumerate(PARAMS):
            case = dict(part='integrate', tier=task['tier'], name=name, point=pi)
            try:
                expr = R.Builder(spec).build(formula)
                got = [float(v) for v in expr.get_value_c(database=db, betas=dict(p), prepare_ids=True)]
            except Exception as e:
                rec.violation(f'C10|raised-{type(e).__name__}|integrate:{name}', str(e)[:200], case)
                rec.retire = True
                return
            want = []
            for row in rows:
                q = R.evaluate(formula, row=row, params=p)
                if closed is not None:
                    c = closed(p, row)
                    if abs(q - c) > 1e-8 * max(1.0, abs(c)):
                        raise RuntimeError(f'reference quadrature disagrees with closed form for {name}: {q} vs {c}')
                    q = c
                want.append(q)
            rec.case(('integrate', name, pi), (name, pi, [round(v, 7) for v in got]), outcome='integral')
            if any(abs(g - w) > 1e-6 * max(1.0, abs(w)) for g, w in zip(got, want)):
                rec.violation(f'C10|integral-value|integrate:{name}', f'{name} point {pi}: {got} expected {want}', case,
                              expected=want, observed=got)
    rec.sample(dict(part='integrate', integrals=list(integrals())))


def _derive(rec):
    spec = {nm: (v, None, None, 0) for nm, v in PARAMS[0].items()}
    db, rows = make_db(3, [])
    pool = {
        'poly': ('+', ('*', B('b1'), ('**', V('x1'), ('num', 3.0))), ('*', B('b2'), ('*', V('x1'), V('x2')))),
        'explin': ('exp', ('+', ('*', B('b1'), V('x1')), ('*', B('b2'), V('x2')))),
        'logit': ('loglogit', ('num', 1), ((1, ('*', B('b1'), V('x1')), None), (2, ('*', B('b2'), V('x2')), None))),
        'ratio': ('/', ('+', ('num', 1.0), ('*', B('s'), V('x1'))), ('+', ('num', 2.0), ('**', V('x2'), ('num', 2.0)))),
        # the same linear form written with the dedicated operator (parameters and variables met in non-sorted order)
        'linutil': ('linutil', (('s', 'x2'), ('b1', 'x1'))),
        'linutil3': ('+', ('linutil', (('b2', 'x1'), ('b1', 'x2'), ('s', 'x1'))), ('*', B('b1'), B('s'))),
    }
    for fname, f in pool.items():
        for name in ('b1', 'b2', 's', 'x1', 'x2'):
            if name in PARAMS[0] and name not in R.leaves(f, 'beta'):
                rec.count('derive_wrt_parameter_absent_from_formula_not_explored')
                continue
            formula = ('derive', f, name)
            # status of the parameters: all estimated; the one the derivative is taken with respect to (for a variable: the
            # first one of the formula) not estimated - declared so, or fixed afterwards on the live expression (fix_betas);
            # none estimated.  A parameter that is not estimated keeps its declared value (the dictionary names the others).
            in_f = sorted(R.leaves(f, 'beta'))
            target = name if name in PARAMS[0] else in_f[0]
            for status in ('all-free', 'target-fixed', 'target-fixed-afterwards', 'all-fixed'):
                fixed = set() if status == 'all-free' else ({target} if status.startswith('target') else set(PARAMS[0]))
                spec_s = {nm: (v, None, None, 1 if (nm in fixed and status != 'target-fixed-afterwards') else 0)
                          for nm, v in PARAMS[0].items()}
                for pi, p in enumerate(PARAMS):
                    p_eff = {nm: (PARAMS[0][nm] if nm in fixed else v) for nm, v in p.items()}
                    stag = '' if status == 'all-free' else ':' + status
                    case = dict(part='derive', formula=fname, name=name, point=pi, status=status)
                    try:
                        expr = R.Builder(spec_s).build(formula)
                        if status == 'target-fixed-afterwards':
                            expr.fix_betas({target: PARAMS[0][target]})
                        got = [float(v) for v in expr.get_value_c(database=db, betas={nm: v for nm, v in p.items() if nm not in fixed},
                                                                  prepare_ids=True)]
                    except Exception as e:
                        rec.case(('derive', fname, name, pi, status), type(e).__name__, outcome='raised')
                        rec.violation(f'C10|raised-{type(e).__name__}|derive:{fname}:{"param" if name in p else "variable"}{stag}',
                                      f'Derive({fname}, {name}) [{status}]: {str(e)[:200]}', case)
                        rec.retire = True
                        return
                    want = [R.evaluate(formula, row=row, params=p_eff) for row in rows]
                    depends = name in R.leaves(f, 'beta') or name in R.leaves(f, 'var')
                    rec.case(('derive', fname, name, pi, status) if depends else None, (fname, name, pi, status, [round(v, 9) for v in got]),
                             outcome=('derive', depends, status))
                    if any(abs(g - w) > 1e-9 + 1e-8 * max(abs(g), abs(w)) for g, w in zip(got, want)):
                        fam = 'bioLinearUtility' if fname.startswith('linutil') else fname
                        rec.violation(f'C10|derivative-value|derive:{fam}:{"param" if name in p else "variable"}',
                                      f'Derive({fname}, {name}) [{status}] point {pi}: {got} expected {want}', case, expected=want, observed=got)
    rec.sample(dict(part='derive', formulas=list(pool)))


def _edit(task, rec):
    """Histories on one (database, live BIOGEME object) pair.  The model holds a log likelihood and a simulated formula, each a
    Monte-Carlo integral over its own draw variables, plus a formula without draws.  Whatever was done to the table through
    the Database interface, and whatever was evaluated on the database in between, every later use of the model must return,
    for each observation CURRENTLY in the table (i-th position), the mean over the R draws of the model of the integrand
    with each draw variable replaced by series[i, r] of its own type."""
    import numpy as np
    from biogeme.expressions import Variable
    from vf.engine import make_biogeme

    lay = EDIT_LAYOUTS[task['layout']]
    n0, Rn = task['nobs'], task['R']
    obs = list(task['obs'])
    alphabet = list(task['ops']) + obs
    if task.get('only') is not None:
        hists = [tuple(task['only'])]
    else:
        prefix = tuple(task['prefix'])
        hists = [prefix + suf for suf in itertools.product(alphabet, repeat=task['depth'] - len(prefix)) if suf[-1] in obs]
    spec = {nm: (v, None, None, 0) for nm, v in PARAMS[0].items()}
    p = PARAMS[1]        # a point that differs from the initial values of the parameters
    forms = {
        'v': ('mc', integrands(lay['v'])[lay['vkind']]),
        'log_like': ('log', ('mc', integrands(lay['ll'])['exp'])),
        'w': ('*', V('x1'), B('s')),
    }
    alone_form = ('mc', integrands(lay['alone'])['linear'])

    def ref(formula, rows, nd):
        used = R.leaves(formula, 'draw')
        return [R.evaluate(formula, row=row, params=p, draws={nm: [PATTERN[DRAWS[nm]](i, r) for r in range(nd)] for nm in used})
                for i, row in enumerate(rows)]

    def same(got, want):
        return len(got) == len(want) and all(close(g, w, 1e-9) for g, w in zip(got, want))

    cfg = (task['layout'], n0, Rn)
    reported = set()
    for h in hists:
        case = dict(task, only=list(h))
        db, rows = make_db(n0, [], EDIT_COLS)
        rows = [dict(r) for r in rows]
        last_edit, nadd, observed, skipped, other = 'none', 0, [], False, None

        def bad(clause, entry, what, want=None, got=None):
            done = list(h[:step + 1])             # the executed part of the history is the witness
            if (clause, entry, tuple(done)) in reported:
                return
            reported.add((clause, entry, tuple(done)))
            rec.violation(f'C10|{clause}|live-model:after-{last_edit}:{entry}',
                          f'{what} [layout {task["layout"]}: log_like over {lay["ll"]}, v over {lay["v"]}; N0={n0} R={Rn}; history {done}, '
                          f'{len(rows)} observations now]', dict(case, only=done), expected=want, observed=got)

        step = -1
        try:
            b = make_biogeme(db, {k: R.Builder(spec).build(f) for k, f in forms.items()}, number_of_draws=Rn)
            x = np.array([p[nm] for nm in b.free_beta_names], dtype=float)
            betas = {nm: p[nm] for nm in b.free_beta_names}
            failed = False
            for step, op in enumerate(h):
                if op in ('rm0', 'rmL'):
                    if len(rows) == 1:
                        skipped = True       # removing the last observation: the table would be empty (refused by the library)
                        break
                    target = rows[0 if op == 'rm0' else -1]
                    db.remove(Variable('rid') == target['rid'])
                    rows.remove(target)
                    last_edit = 'rows-removed'       # the label of the finding: the latest edit of the content of the table, if any
                elif op == 'scale':
                    db.scale_column('x1', 0.5)
                    for r_ in rows:
                        r_['x1'] *= 0.5
                    last_edit = 'column-scaled'
                elif op == 'addcol':
                    db.add_column(Variable('x2') * 2.0, f'extra{nadd}')
                    nadd += 1
                    if last_edit in ('none', 'other-formula-evaluated'):
                        last_edit = 'column-added'
                elif op == 'other':
                    if last_edit == 'none':
                        last_edit = 'other-formula-evaluated'
                    if other is None:
                        other = make_biogeme(db, {'o': R.Builder(spec).build(alone_form)}, number_of_draws=Rn + 1)
                    got = [float(v) for v in other.simulate({nm: p[nm] for nm in other.free_beta_names})['o']]
                    want = ref(alone_form, rows, Rn + 1)
                    observed.append(('other', [round(v, 9) for v in got]))
                    if not same(got, want):
                        bad('monte-carlo-value-not-mean-over-own-series', 'second-model-on-the-same-database',
                            f'step {step}: a second model over {lay["alone"]} with R={Rn + 1} simulates {got}, expected {want}', want, got)
                        failed = True
                elif op == 'alone':
                    if last_edit == 'none':
                        last_edit = 'other-formula-evaluated'
                    got = [float(v) for v in R.Builder(spec).build(alone_form).get_value_c(database=db, betas=dict(p), number_of_draws=Rn + 1,
                                                                                          prepare_ids=True)]
                    want = ref(alone_form, rows, Rn + 1)
                    observed.append(('alone', [round(v, 9) for v in got]))
                    if not same(got, want):
                        bad('monte-carlo-value-not-mean-over-own-series', 'formula-evaluated-alone',
                            f'step {step}: a formula over {lay["alone"]} evaluated alone with R={Rn + 1} gave {got}, expected {want}', want, got)
                        failed = True
                elif op == 'sim':
                    out = b.simulate(betas)
                    for k, f in forms.items():
                        got = [float(v) for v in out[k]]
                        want = ref(f, rows, Rn)
                        observed.append((k, [round(v, 9) for v in got]))
                        if not same(got, want):
                            bad('monte-carlo-value-not-mean-over-own-series' if k != 'w' else 'formula-without-draws-value', 'BIOGEME.simulate',
                                f'step {step}: simulate gives {k} = {got}, expected {want}', want, got)
                            failed = True
                            break
                else:
                    if op == 'll':
                        got = float(b.calculate_likelihood(x, scaled=False))
                    else:
                        got = float(b.calculate_likelihood_and_derivatives(x, scaled=False, hessian=False, bhhh=False).function)
                    want = sum(ref(forms['log_like'], rows, Rn))
                    observed.append((op, round(got, 9)))
                    if not close(got, want, 1e-9):
                        bad('monte-carlo-value-not-mean-over-own-series',
                            'BIOGEME.calculate_likelihood' + ('_and_derivatives' if op == 'lld' else ''),
                            f'step {step}: log likelihood {got!r}, expected {want!r} = sum over the {len(rows)} observations', want, got)
                        failed = True
                if failed:
                    break
        except Exception as e:
            rec.case((cfg, h), ('raised', type(e).__name__, step), outcome='raised')
            bad(f'raised-{type(e).__name__}', 'history', f'step {step}: {str(e)[:200]}')
            rec.retire = True
            return
        if skipped:
            rec.count('edit_history_would_empty_the_table_not_explored')
            continue
        nedits = sum(1 for o in h if o not in obs)
        rec.case((cfg, h) if nedits else None, (cfg, h, observed), outcome=('edit', last_edit, len(rows) == Rn))
    rec.sample(dict(part='edit', layout=task['layout'], nobs=n0, R=Rn, depth=task['depth'], first_history=list(hists[0]), histories=len(hists)))


def _twotypes(task, rec):
    """bioDraws(name, T1) and bioDraws(name, T2), T1 != T2, under ONE name: in two formulas of one model (simulate; likelihood
    of one + simulate), in one formula (two integrals, one integral), through BIOGEME and through get_value_c.  Either the
    library refuses with its own error, or every value is the mean over the series of the declared type of each variable
    (= the value of the same formulas with two distinct names)."""
    import numpy as np
    from biogeme.exceptions import BiogemeError
    from vf.engine import make_biogeme
    ta, tb = task['types']
    spec = {nm: (v, None, None, 0) for nm, v in PARAMS[0].items()}
    p = PARAMS[1]

    def forms(n1, n2):
        d1, d2 = ('draw', n1, ta), ('draw', n2, tb)
        g1 = ('+', B('b1'), ('*', B('s'), d1))
        g2 = ('*', V('x1'), ('*', d2, d2))
        return dict(f1=('mc', g1), f2=('mc', g2), two=('+', ('mc', g1), ('*', ('num', 2.0), ('mc', g2))), one=('mc', ('+', g1, g2)))

    for nobs, Rn in ((3, 2), (2, 3)):
        # the series of each type: the deterministic pattern (user-defined types) / the table the database exposes when the
        # two variables carry distinct names (native Halton types: deterministic)
        dbr, rows = make_db(nobs, [])
        ref = forms('a__1', 'a__2')
        R.Builder(spec).build(ref['one']).get_value_c(database=dbr, betas=dict(p), number_of_draws=Rn, prepare_ids=True)
        table = dbr.theDraws
        series = []
        for slot, typ in enumerate((ta, tb)):
            if typ in PATTERN:
                series.append([[PATTERN[typ](i, r) for r in range(Rn)] for i in range(nobs)])
            else:
                series.append([[float(table[i, r, slot]) for r in range(Rn)] for i in range(nobs)])
        want = {k: [R.evaluate(f, row=row, params=p, draws={'a__1': series[0][i], 'a__2': series[1][i]}) for i, row in enumerate(rows)]
                for k, f in ref.items()}
        lib = forms('a', 'a')
        build = lambda k: R.Builder(spec).build(lib[k])

        def two_sim(db):
            b = make_biogeme(db, {'f1': build('f1'), 'f2': build('f2')}, number_of_draws=Rn)
            out = b.simulate({nm: p[nm] for nm in b.free_beta_names})
            return {k: [float(v) for v in out[k]] for k in ('f1', 'f2')}

        def ll_sim(db):
            b = make_biogeme(db, {'log_like': build('f1'), 'f2': build('f2')}, number_of_draws=Rn)
            ll = float(b.calculate_likelihood(np.array([p[nm] for nm in b.free_beta_names], dtype=float), scaled=False))
            out = b.simulate({nm: p[nm] for nm in b.free_beta_names})
            return {'sum-f1': [ll], 'f1': [float(v) for v in out['log_like']], 'f2': [float(v) for v in out['f2']]}

        def one_sim(k):
            def run(db):
                b = make_biogeme(db, {k: build(k)}, number_of_draws=Rn)
                return {k: [float(v) for v in b.simulate({nm: p[nm] for nm in b.free_beta_names})[k]]}
            return run

        def alone(k):
            def run(db):
                return {k: [float(v) for v in build(k).get_value_c(database=db, betas=dict(p), number_of_draws=Rn, prepare_ids=True)]}
            return run

        want['sum-f1'] = [sum(want['f1'])]
        modes = {'two-formulas-of-one-model:simulate': two_sim, 'log-likelihood-and-formula:calculate_likelihood+simulate': ll_sim,
                 'one-formula-two-integrals:simulate': one_sim('two'), 'one-integral:simulate': one_sim('one'),
                 'one-formula-two-integrals:get_value_c': alone('two'), 'one-integral:get_value_c': alone('one')}
        for mode, run in modes.items():
            case = dict(task)
            key = ('twotypes', ta, tb, nobs, Rn, mode)
            db, _ = make_db(nobs, [])
            try:
                got = run(db)
            except BiogemeError as e:
                rec.case(key, ('refused', mode), outcome='one-name-two-types-refused')
                continue
            except Exception as e:
                rec.case(key, ('raised', type(e).__name__), outcome='raised')
                rec.violation(f'C10|raised-{type(e).__name__}|one-draw-name-two-types:{mode}',
                              f'bioDraws("a", {ta}) and bioDraws("a", {tb}), N={nobs} R={Rn}: {str(e)[:200]}', case)
                rec.retire = True
                return
            rec.case(key, (ta, tb, nobs, Rn, mode, {k: [round(v, 9) for v in vs] for k, vs in got.items()}), outcome='one-name-two-types-answered')
            for k, vs in got.items():
                if len(vs) != len(want[k]) or any(not close(g, w, 1e-9) for g, w in zip(vs, want[k])):
                    site = ('two-formulas-of-one-model' if mode.split(':')[0] in ('two-formulas-of-one-model', 'log-likelihood-and-formula')
                            else 'one-formula:' + ('get_value_c' if mode.endswith('get_value_c') else 'BIOGEME'))
                    rec.violation(f'C10|monte-carlo-value-not-mean-over-own-series|one-draw-name-two-types:{site}',
                                  f'bioDraws("a", {ta}) and bioDraws("a", {tb}) under one name, {mode}, N={nobs} R={Rn}: accepted, {k} = {vs}, but the '
                                  f'mean over the series of the declared types is {want[k]}', case, expected=want[k], observed=vs)
                    break
    rec.sample(dict(part='twotypes', types=task['types']))


def replay(case):
    rec = Rec()
    part = case['part']
    if part == 'edit':
        _edit(case, rec)
        return rec.violations
    if part == 'twotypes':
        _twotypes(case, rec)
        return rec.violations
    if part == 'mc':
        _mc(case, rec)
        rec.violations = [v for v in rec.violations if v['case'].get('formula') == case.get('formula')] or rec.violations
    elif part == 'seeded':
        # two fresh processes, as in the check itself
        import multiprocessing as mp
        ctx = mp.get_context('spawn')
        outs = []
        for run in (0, 1):
            with ctx.Pool(1) as pool:
                outs.append(pool.apply(_seeded_result, (dict(case, run=run),)))
        viol = outs[0]['violations'] + outs[1]['violations']
        e0, e1 = outs[0]['extra'], outs[1]['extra']
        if e0['ll'] != e1['ll'] or e0['table'] != e1['table']:
            viol.append(dict(key=f"C10|same-seed-different-results|native:{case['typ']}", what=f"two fresh processes gave {e0['ll']} and {e1['ll']}",
                             case=dict(case)))
        return viol
    elif part == 'sidebyside':
        _sidebyside(case, rec)
    elif part == 'seeded_hash':
        outs = []
        for hs in case.get('hashseeds', [0, 1]):
            r_ = Rec()
            _seeded_hash(dict(part='seeded_hash', hashseed=hs, seed=case['seed']), r_)
            outs.append(r_.extra['values'] if r_.extra else None)
        if outs[0] != outs[1]:
            return [dict(key='C10|same-seed-different-results|several-pseudo-random-draw-variables:across-interpreter-hash-seeds',
                         what=f'{outs}', case=case)]
        return []
    elif part == 'native_table':
        _native_table(case, rec)
    elif part == 'reuse':
        _reuse(case, rec)
    elif part == 'refusals':
        _refusals(rec)
    elif part == 'integrate':
        _integrate(case, rec)
    elif part == 'derive':
        _derive(rec)
    return rec.violations
